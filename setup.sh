#!/bin/sh
# setup_cmd: build every monitor binary offline from files on disk (so the first check does not pay
# for the dependency builds). Checks rebuild incrementally from /repo's working tree afterwards.
set -e
cd "$(dirname "$0")"
export CARGO_NET_OFFLINE=true
python3 tools/prebuild.py
