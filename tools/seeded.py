#!/usr/bin/env python3
"""Seeded-change bookkeeping.

  tools/seeded.py confirm <seeded-dir>       verify the claims of a seeded change in a scratch worktree:
                                             (1) existing suite passes with the patch, (2) demo fails with it,
                                             (3) demo passes without it. Writes meta.json["confirmed"].
  tools/seeded.py detect <seeded-dir> [--tier quick|thorough] [--props C01,C02]
                                             apply the patch to /repo, run the check(s), undo the patch.
                                             Writes meta.json["detection"][tier].
  tools/seeded.py table                      print the markdown table for DESIGN.md section 13

meta.json: {"property": "C06", "needs": "...", "demo_crate": "dasp_ring_buffer", "demo_cmd": "cargo test ...", ...}
"""
import json
import os
import re
import shutil
import subprocess
import sys

ROOT = os.path.dirname(os.path.dirname(os.path.abspath(__file__)))
SCRATCH = "/tmp/ver"


def sh(cmd, cwd=None, env=None, timeout=3600):
    p = subprocess.run(cmd, shell=True, cwd=cwd, env=env, stdout=subprocess.PIPE, stderr=subprocess.STDOUT, text=True, timeout=timeout, errors="replace")
    return p.returncode, p.stdout


def load(d):
    return json.load(open(os.path.join(d, "meta.json")))


def save(d, m):
    json.dump(m, open(os.path.join(d, "meta.json"), "w"), indent=1)


def confirm(d):
    d = os.path.abspath(d)
    m = load(d)
    name = os.path.basename(d)
    wt = os.path.join(SCRATCH, name)
    os.makedirs(SCRATCH, exist_ok=True)
    sh("git -C /repo worktree remove --force %s" % wt)
    rc, out = sh("git -C /repo worktree add --detach %s HEAD" % wt)
    assert rc == 0, out
    env = dict(os.environ, CARGO_TARGET_DIR=os.path.join(SCRATCH, "target"), CARGO_NET_OFFLINE="true")
    shutil.copy("/repo/Cargo.lock", wt)
    res = {}
    try:
        rc, out = sh("git apply %s" % os.path.join(d, "patch.diff"), cwd=wt)
        res["patch_applies"] = rc == 0
        if rc != 0:
            res["error"] = out[-500:]
            return res
        rc, out = sh("cargo test --workspace --offline 2>&1 | tail -400", cwd=wt, env=env)
        failed = re.findall(r"test result: FAILED|error(\[E\d+\])?:|panicked at", out)
        oks = len(re.findall(r"test result: ok", out))
        res["suite_passes_with_patch"] = (not failed) and oks > 10
        res["suite_ok_blocks"] = oks
        demo_dst = os.path.join(wt, m["demo_crate"], "tests", "seeded_demo.rs")
        os.makedirs(os.path.dirname(demo_dst), exist_ok=True)
        shutil.copy(os.path.join(d, "demo.rs"), demo_dst)
        cmd = m["demo_cmd"].replace("{test}", "seeded_demo")
        rc1, out1 = sh(cmd + " 2>&1 | tail -60", cwd=wt, env=env)
        res["demo_fails_with_patch"] = ("test result: FAILED" in out1) or ("panicked" in out1 and "test result: ok" not in out1) or ("error: Undefined Behavior" in out1) or ("error: memory leaked" in out1)
        res["demo_with_patch_tail"] = out1[-600:]
        sh("git apply -R %s" % os.path.join(d, "patch.diff"), cwd=wt)
        rc2, out2 = sh(cmd + " 2>&1 | tail -60", cwd=wt, env=env)
        res["demo_passes_without_patch"] = "test result: ok" in out2 and "FAILED" not in out2 and "error: Undefined Behavior" not in out2 and "error: memory leaked" not in out2
        if m.get("native_cmd"):
            # sanitizer-only changes: natively the demo passes even WITH the patch
            sh("git apply %s" % os.path.join(d, "patch.diff"), cwd=wt)
            rc3, out3 = sh(m["native_cmd"].replace("{test}", "seeded_demo") + " 2>&1 | tail -30", cwd=wt, env=env)
            res["demo_passes_natively_with_patch"] = "test result: ok" in out3 and "FAILED" not in out3
            sh("git apply -R %s" % os.path.join(d, "patch.diff"), cwd=wt)
        res["demo_without_patch_tail"] = out2[-300:]
    finally:
        sh("git -C /repo worktree remove --force %s" % wt)
    m["confirmed"] = res
    save(d, m)
    return res


def detect(d, tier, props=None, label=None):
    d = os.path.abspath(d)
    m = load(d)
    props = props or [m["property"]]
    rc, out = sh("git -C /repo status --short")
    assert out.strip() == "", "/repo has uncommitted changes: " + out
    rc, out = sh("git -C /repo apply %s" % os.path.join(d, "patch.diff"))
    assert rc == 0, out
    det = m.setdefault("detection", {}).setdefault(label or tier, {})
    try:
        for p in props:
            rc, out = sh("./check %s --tier %s" % (p, tier), cwd=ROOT, timeout=4 * 3600)
            sigs = re.findall(r"^  (\S.*?) x\d+:", out, re.M)
            det[p] = {"exit": rc, "verdict": {0: "missed", 1: "caught", 2: "inconclusive"}.get(rc, "error"), "signatures": sigs[:8], "tail": out[-800:] if rc not in (0, 1) else ""}
            print("%s %s %s -> %s %s" % (os.path.basename(d), p, tier, det[p]["verdict"], sigs[:3]))
    finally:
        sh("git -C /repo checkout -- .")
        sh("git -C /repo clean -fd -q")
    save(d, m)
    return det


def table():
    rows = []
    sd = os.path.join(ROOT, "seeded")
    for name in sorted(os.listdir(sd)):
        mp = os.path.join(sd, name, "meta.json")
        if not os.path.exists(mp):
            continue
        m = json.load(open(mp))
        det = m.get("detection", {})

        def v(t):
            x = det.get(t, {}).get(m["property"])
            return x["verdict"] if x else "-"
        sig = ""
        for t in ("quick", "thorough"):
            x = det.get(t, {}).get(m["property"])
            if x and x["signatures"]:
                sig = x["signatures"][0]
                break
        if "before_strengthening" in m:
            first = m["before_strengthening"]["verdict"]
        elif "quick_before_strengthening" in det:
            first = v("quick_before_strengthening") + " (measured)"
        else:
            first = "= now"
        rows.append("| %s | %s | %s | %s | %s | %s | `%s` |" % (name, m["property"], m.get("summary", "").replace("|", "/"), first, v("quick"), v("thorough"), sig.replace("|", "/")[:90]))
    print("| seeded change | property | what it does / what it needs | first version of the check | quick now | thorough | first signature |")
    print("|---|---|---|---|---|---|---|")
    print("\n".join(rows))


def import_(name, prop, crate, cmd, summary, needs, origin):
    d = os.path.join(ROOT, "seeded", name)
    os.makedirs(d, exist_ok=True)
    for f in ("patch.diff", "demo.rs", "note.md"):
        shutil.copy("/tmp/mut/%s/out/%s" % (name, f), d)
    json.dump({"property": prop, "demo_crate": crate, "demo_cmd": cmd, "summary": summary + "; " + needs, "needs": needs, "origin": origin}, open(os.path.join(d, "meta.json"), "w"), indent=1)
    sh("git -C /repo worktree remove --force /tmp/mut/%s" % name)
    sh("git -C /repo worktree prune")


if __name__ == "__main__":
    if sys.argv[1] == "import":
        # import NAME PROP CRATE CMD SUMMARY NEEDS [ORIGIN]
        FINAL = "independent sub-agent (final round: told about every workload class of DESIGN 10.3; asked for mode-change, composition, staleness, clone, first-call or coinciding-counter faults that violate the property as stated) given only the property text and a scratch worktree"
        ROUND6 = "independent sub-agent (round 6: told about every workload class of DESIGN 10.3 including round 5's; asked which inputs, configurations or call patterns inside the quantifier such a regime would still not produce) given only the property text and a scratch worktree"
        ROUND8 = "independent sub-agent (round 8, six properties with a 32-bit interpreter stage: told every workload class up to round 7 and that small-scope workloads also run as a 32-bit build under Miri; asked for a change that manifests only when usize is 32 bits wide) given only the property text and a scratch worktree"
        origin = sys.argv[8] if len(sys.argv) > 8 and sys.argv[8] else ROUND8 if sys.argv[2].endswith("i") else FINAL if sys.argv[2].endswith("f") else ROUND6 if sys.argv[2].endswith("g") else ROUND6.replace("round 6", "round 7 (thirteen properties)") if sys.argv[2].endswith("h") else "independent sub-agent (hardest round: told that debug/release/no_std/Miri, width-boundary, IEEE-special, source-literal, wide and long-run inputs are already tested; asked for history-, combination- or route-dependent faults) given only the property text and a scratch worktree"
        import_(sys.argv[2], sys.argv[3], sys.argv[4], sys.argv[5], sys.argv[6], sys.argv[7], origin)
        sys.exit(0)
    if sys.argv[1] == "confirm":
        print(json.dumps(confirm(sys.argv[2]), indent=1))
    elif sys.argv[1] == "detect":
        tier = "quick"
        props = None
        if "--tier" in sys.argv:
            tier = sys.argv[sys.argv.index("--tier") + 1]
        if "--props" in sys.argv:
            props = sys.argv[sys.argv.index("--props") + 1].split(",")
        label = sys.argv[sys.argv.index("--label") + 1] if "--label" in sys.argv else None
        detect(sys.argv[2], tier, props, label)
    elif sys.argv[1] == "table":
        table()
