#!/bin/sh
# Run every check of a tier at one or more seeds on the tree as it is; print one line per check.
#   tools/run_all.sh quick 0 1 2        tools/run_all.sh thorough 0
# Exit status: 0 if every run exited 0 (held), 1 otherwise.
cd "$(dirname "$0")/.."
tier=$1; shift
rc=0
for seed in "$@"; do
  for i in 01 02 03 04 05 06 07 08 09 10 11 12 13 14 15 16 17 18 19 20; do
    t0=$(date +%s)
    out=$(./check C$i --tier $tier --seed $seed 2>&1)
    st=$?
    t1=$(date +%s)
    echo "C$i tier=$tier seed=$seed exit=$st $((t1-t0))s $(echo "$out" | grep -E '^(OK|VIOLATION|INCONCLUSIVE)' | head -3 | tr '\n' ' ' | cut -c1-300)"
    [ $st -ne 0 ] && rc=1
  done
done
exit $rc
