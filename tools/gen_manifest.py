#!/usr/bin/env python3
"""Generate /verif/MANIFEST.json from tools/props.py (single source of truth for stages)."""
import json, os, sys
ROOT = os.path.dirname(os.path.dirname(os.path.abspath(__file__)))
sys.path.insert(0, os.path.join(ROOT, "tools"))
import props

ALL = ["C%02d" % i for i in range(1, 21)]
checks = []
for pid in ALL:
    if pid not in props.PROPS:
        continue
    p = props.PROPS[pid]
    checks.append({
        "property_id": pid,
        "quick_cmd": "./check %s --tier quick" % pid,
        "thorough_cmd": "./check %s --tier thorough" % pid,
        "evidence_file": "/verif/evidence/%s.json" % pid,
        "replay_cmd_template": "./check %s --replay {path}" % pid,
        "engine": "vmon",
        "level_claimed": {
            "category": p.get("level", "exploration"),
            "text": p["level_text"],
            "design_ref": "DESIGN.md section 5, " + pid,
        },
        "level_note": p["level_note"],
        "technique": p["technique"],
    })
not_applicable = [{"property_id": pid, "reason": props.NOT_YET.get(pid, "monitor not built yet in this session; planned in DESIGN.md section 5")}
                  for pid in ALL if pid not in props.PROPS]
m = {
    "version": 1,
    "setup_cmd": "./setup.sh",
    "hooks": {
        "guard": "rustaudio_dasp_verif",
        "enable": "RUSTFLAGS=\"--cfg rustaudio_dasp_verif\" (set by ./check for every build of the harness workspaces, which path-depend on /repo's crates)",
        "baseline_off_cmd": "cd /repo && cargo test --workspace --no-fail-fast --offline",
        "source_commits": props.HOOK_COMMITS,
        "add_only": True,
    },
    "engines": [{
        "name": "vmon",
        "path": "/verif/harness",
        "serves_properties": [c["property_id"] for c in checks],
        "kind_free_text": "runtime monitoring: spec oracles, reference-model monitors over operation histories, event-log/counting-source monitors, counting global allocator; Miri (Stacked/Tree Borrows) and AddressSanitizer+LeakSanitizer stages; python driver ./check merges stage reports into three-valued verdicts and evidence",
    }],
    "checks": checks,
    "notes": "All checks are runtime monitors over executions of the real crates built from /repo's working tree. Exit 0 = held on what was observed, 1 = VIOLATION, 2 = INCONCLUSIVE (never mapped to a violation). Known findings: /verif/known_findings.json.",
    "not_applicable": not_applicable,
}
json.dump(m, open(os.path.join(ROOT, "MANIFEST.json"), "w"), indent=1)
print("wrote MANIFEST.json with", len(checks), "checks;", len(not_applicable), "not claimed")
