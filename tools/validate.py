#!/usr/bin/env python3
"""Validate MANIFEST.json and evidence/*.json against the schemas (uses the tooling venv)."""
import json, sys, glob
import jsonschema
ok = True
m = json.load(open('/verif/MANIFEST.json')) if len(sys.argv) < 2 or sys.argv[1] != '--evidence-only' else None
if m is not None:
    jsonschema.validate(m, json.load(open('/root/.vp/MANIFEST.schema.json')))
    print('MANIFEST ok:', len(m['checks']), 'checks')
es = json.load(open('/root/.vp/EVIDENCE.schema.json'))
for p in sorted(glob.glob('/verif/evidence/*.json')):
    try:
        jsonschema.validate(json.load(open(p)), es)
        print('ok', p)
    except Exception as e:
        ok = False
        print('INVALID', p, str(e)[:300])
sys.exit(0 if ok else 1)
