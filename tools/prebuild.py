#!/usr/bin/env python3
"""Prebuild all (build kind, bin) combinations named in props.py. Failures are reported but do not
abort: each check rebuilds what it needs and reports INCONCLUSIVE itself if its build fails."""
import os, sys, importlib.util
ROOT = os.path.dirname(os.path.dirname(os.path.abspath(__file__)))
sys.path.insert(0, os.path.join(ROOT, "tools"))
import props
spec = importlib.util.spec_from_loader("check", loader=None)
src = open(os.path.join(ROOT, "check")).read()
mod = type(sys)("check_mod")
mod.__file__ = os.path.join(ROOT, "check")
exec(compile(src.replace('if __name__ == "__main__":', 'if False:'), mod.__file__, "exec"), mod.__dict__)
need = {}
for p in props.PROPS.values():
    for s in p["stages"]:
        need.setdefault(s["build"], set()).add(s["bin"])
rc = 0
for kind, bins in sorted(need.items()):
    if kind.startswith("miri"):
        continue
    ok, log, _ = mod.build(kind, bins)
    if not ok:
        sys.stderr.write(log[-3000:])
        rc = 1
# warm the miri sysroot + dependency build with the cheapest miri stage, if any
for kind in ("miri-sb", "miri-tb"):
    if kind in need:
        import subprocess
        b = sorted(need[kind])[0]
        env = mod.base_env()
        env["RUSTFLAGS"] = mod.GUARD
        env["CARGO_TARGET_DIR"] = os.path.join(mod.TARGET, "miri")
        mod.ensure_lock(os.path.join(ROOT, "harness"))
        subprocess.run(["cargo", "+nightly", "miri", "setup"], cwd=os.path.join(ROOT, "harness"), env=env)
        break
if "miri32" in need:
    # the i686 sysroot of the 32-bit interpreter stages (built offline from rust-src)
    import subprocess
    env = mod.base_env()
    subprocess.run(["cargo", "+nightly", "miri", "setup", "--target", "i686-unknown-linux-gnu"], cwd=os.path.join(ROOT, "harness"), env=env)
sys.exit(0)
