"""Registry of properties -> stages. Read by /verif/check.

stage keys: name, build (fast|release|asan|nostd|miri-sb|miri-tb), bin, tiers (default both),
            shards (int or {tier: int}), set ({k: v or {tier: v}}), timeout ({tier: s}), workspace
"""
MAX_PARALLEL_STAGES = 16

COMMON_ASSUMPTIONS = [
    "rustc/LLVM compile the harness and dasp faithfully; the monitors observe the binaries built from /repo's working tree with --cfg rustaudio_dasp_verif",
    "a run decides only the executions it produced: 'held' means no violation among the cases counted in coverage",
]

PROPS = {}
HOOK_COMMITS = ["e48b302"]
NOT_YET = {}

PROPS["C01"] = {
    "level": "exploration",
    "rule": ("cases are (ordered format pair, source value); every value of each <=24-bit (quick) / <=32-bit (thorough) source format "
             "is enumerated for all 11 destinations and 3 call routes, wider sources use a structured boundary set plus one random value per "
             "equal-width stratum of the value range; a case is non-trivial when the value is not MIN, equilibrium or MAX (the points the "
             "test-suite checks); distinct by construction (disjoint enumeration / one value per stratum), structured values are not counted"),
    "technique": "runtime monitoring: exhaustive/stratified input enumeration against an independent i128 spec oracle, debug-assertion and release builds",
    "level_text": ("Every value of every <=24-bit source format (quick) / <=32-bit (thorough) is converted through all three public routes and "
                   "compared with an independent exact oracle; 48/64-bit sources are covered by boundary-structured and stratified random values; "
                   "round-trip and composition laws are evaluated on the real functions. Exploration is the right level: the input space of the "
                   "wide formats cannot be enumerated, everything narrower is."),
    "level_note": "trusted: vmon::spec::int_to_int (15 lines of i128 shifts, unit-tested), rustc; both debug-assertion ('fast' profile) and stock release builds are exercised",
    "assumptions": COMMON_ASSUMPTIONS + ["the i128 shift oracle in vmon::spec::int_to_int states the property (it is unit-tested against hand-computed points)"],
    "stages": [
        {"name": "main", "build": "fast", "bin": "c01"},
        {"name": "release_boundary", "build": "release", "bin": "c01"},
    ],
}


def prop(pid, technique, level_text, level_note, rule, stages, extra_assumptions=()):
    PROPS[pid] = {
        "level": "exploration",
        "technique": technique,
        "level_text": level_text,
        "level_note": level_note,
        "rule": rule,
        "assumptions": COMMON_ASSUMPTIONS + list(extra_assumptions),
        "stages": stages,
    }


prop("C02",
     technique="runtime monitoring: exhaustive/stratified input enumeration against exact rounding/truncation oracles (bit-for-bit), debug-assertion and release builds",
     level_text=("int->float: every value of every <=24-bit (quick) / <=32-bit (thorough) format, structured+stratified for 48/64-bit, compared bit-for-bit with a "
                 "correctly-rounded quotient computed from the integer. float->int: every f32 bit pattern in [-1,1) x 12 formats (thorough; quick: structured "
                 "mantissas x all exponents + 4M stratified patterns), structured+random f64, compared with exact truncation in i128. f32<->f64 against own RNE. "
                 "Exploration: f64 and 48/64-bit inputs cannot be enumerated."),
     level_note="trusted: vmon::spec::{rne, float_to_int, f64_to_f32} (unit-tested, independent of `as` casts except on exactly representable values), rustc's IEEE semantics for * by powers of two",
     rule=("cases are (conversion, input value); enumerated completely where the source has <= 2^24 (quick) / 2^32 (thorough) values, else structured boundary "
           "sets + one random value per stratum; non-trivial = input not in {MIN, equilibrium} (ints) / {-1.0, +-0.0} (floats), the points the test-suite "
           "checks; counted by construction for enumerations/strata, by hash set for structured f64 and f64->f32 inputs"),
     stages=[
         {"name": "main", "build": "fast", "bin": "c02"},
         {"name": "release_boundary", "build": "release", "bin": "c02"},
     ])

prop("C15",
     technique="runtime monitoring: exhaustive (11-bit) / structured+random operand enumeration against an i128 modular-arithmetic oracle, in both debug-assertion and release builds",
     level_text=("All 2048^2 operand pairs x (+,-,*) and all negations of I11/U11, all 65536 backing-integer inputs to new()/From, every widening From impl over its whole "
                 "(or strided) source range, structured^2 + random operand pairs for the 20/24/48-bit types; the same monitor runs in a debug-assertion build "
                 "(overflow must panic, catch_unwind) and a stock release build (must wrap). Exploration: 2^48 x 2^48 operand pairs cannot be enumerated."),
     level_note="trusted: i128 rem_euclid oracle; cfg!(debug_assertions) of the harness build equals that of dasp_sample (same cargo profile)",
     rule=("cases are (type, op, operand(s)); 11-bit types enumerated completely, wider types over a structured boundary set squared plus seeded random pairs "
           "biased to products/sums near the range limits; non-trivial = every case other than the test-suite's 8 fixed small-operand points; counted by "
           "construction (enumerations) or by hash of (type, op, operands)"),
     stages=[
         {"name": "main", "build": "fast", "bin": "c15"},
         {"name": "release", "build": "release", "bin": "c15"},
     ])

prop("C06",
     technique="runtime monitoring: reference-model (VecDeque) monitor over operation histories with poison-filled dead slots and unique ids; Miri (Stacked Borrows) and AddressSanitizer stages",
     level_text=("The step relation is checked exhaustively from every valid state: capacities 1..=6 (quick) / 1..=8 (thorough) x every (start, len) / first x every "
                 "operation (indices incl. usize::MAX) x four storage kinds, with every observer compared against the model after each step; plus seeded random "
                 "histories (capacities to 64 / 1000). The same monitor runs under Miri (8/16 shards) and ASan for out-of-bounds/aliasing. Exploration: capacities "
                 "are unbounded; the state space is exhausted only up to the stated capacity."),
     level_note="trusted: std VecDeque as the queue model; poison pre-fill carries 'never exposes a dead slot', Miri/ASan carry 'no out-of-bounds or aliasing access'",
     rule=("cases are (buffer kind, capacity, start/first, len, operation) steps and random operation histories; a step is non-trivial when the state is wrapped "
           "(start/first != 0 or start+len >= capacity), i.e. beyond the fresh start-0 buffers the test-suite uses; distinct by hash of "
           "(kind, cap, start, len, op); histories contribute their first 8 ops"),
     stages=[
         {"name": "main", "build": "fast", "bin": "c06"},
         {"name": "miri", "build": "miri-sb", "bin": "c06", "shards": {"quick": 8, "thorough": 16}, "set": {"hist": {"quick": 40, "thorough": 160}},
          "timeout": {"quick": 1500, "thorough": 7200}},
         {"name": "asan", "build": "asan", "bin": "c06"},
     ])

prop("C10",
     technique="runtime monitoring: pointer/length/content oracle + counting-allocator monitor over all (N, L, format, ownership) combinations; Miri (Stacked Borrows, leak check) and ASan/LSan stages",
     level_text=("Every channel count N in 1..=32 x every length L in 0..=3N+2 (quick) / 0..=8N+5 plus 10^4-10^5-sample slices (thorough) x six sample formats x shared, "
                 "mutable and boxed views through every public route: Some iff N | L, same memory, frame[i][c] == sample[iN+c], writes visible both ways, exact "
                 "inverse, zero heap traffic on boxed success and exactly one release on failure; in-place ops for every length pair <= 9 (result or panic-untouched). "
                 "Miri and ASan/LSan run the same monitor for aliasing, bounds and leaks. Exploration: L is unbounded."),
     level_note="trusted: the counting global allocator (self-tested each run with a positive and a negative control); Miri's Stacked Borrows model and LSan for the unsafe reinterpretations",
     rule=("cases are (format, N, L, ownership mode, route) for views and (op, la, lb) for in-place ops, enumerated; non-trivial = L not divisible by N or N >= 3 (the "
           "test-suite only uses N<=2 on divisible lengths) and every la != lb pair; distinct by hash of (format, N, L) / (la, lb)"),
     stages=[
         {"name": "main", "build": "fast", "bin": "c10"},
         {"name": "miri", "build": "miri-sb", "bin": "c10", "shards": {"quick": 5, "thorough": 16}, "timeout": {"quick": 1500, "thorough": 7200}},
         {"name": "asan", "build": "asan", "bin": "c10"},
     ])

prop("C09",
     technique="runtime monitoring: event-log monitor (instrumented Probe nodes) checked offline against an own-graph oracle (BFS ancestors, input multisets, topological order, functional evaluation); Miri (Tree Borrows) and ASan stages",
     level_text=("Every directed multigraph on 1..=3 nodes with edge multiplicity 0..=2 x every output x {Graph, StableGraph} (both tiers), every simple digraph with loops on "
                 "4 nodes (all 2^16 thorough, 1/16 sample quick), StableGraph after removing every subset of <= 2 nodes and re-adding, random graphs to 24/64 nodes processed "
                 "three times, one Processor reused across the whole run and a fresh one per call. Each call's invocation log is checked for exactly-once over the "
                 "upstream set, one input per incoming edge referring to the neighbour's buffers, no self-aliasing, inputs-first order and functional values when acyclic; "
                 "sources()/sinks() against the live nodes. Miri-TB/ASan watch the raw NodeData pointer next to live Input slices. Exploration: graph size is unbounded."),
     level_note="trusted: the harness's 40-line BFS/Kahn oracle; petgraph's add_node/add_edge/remove_node build the graph the edge list describes (the oracle never calls petgraph traversal)",
     rule=("cases are (container, graph description, output node, call number); enumerated small graphs + seeded random ones; non-trivial = has a self-loop, parallel or "
           "back edge, or a removed node (anything beyond the hand-built DAGs of the test-suite); distinct by hash of (container, sorted edge list, removals, output)"),
     stages=[
         {"name": "main", "build": "fast", "bin": "c09"},
         {"name": "miri", "build": "miri-tb", "bin": "c09", "shards": {"quick": 8, "thorough": 16}, "set": {"thin3": {"quick": 997, "thorough": 61}, "rand": {"quick": 3, "thorough": 12}},
          "timeout": {"quick": 1500, "thorough": 7200}},
         {"name": "asan", "build": "asan", "bin": "c09"},
     ])

prop("C11",
     technique="runtime monitoring: reference recomputation over the last N inputs (double-double) with a running rigorous floating-point error bound; same monitor built against std and no_std dasp",
     level_text=("Histories (random, loud-then-silent, alternating, tiny/large magnitudes, constant, ramps, bursts; resets and current()/next_squared() interleaved) for "
                 "windows {1,2,3,4,7,64,1000} x channels {1,2,5} x formats {f32,f64,i16,u8,I24,i32,U48}, lengths to 20 000 (quick) / 200 000 (thorough), through the "
                 "detector and the signal adaptor (one pull per output). Every output is checked against sqrt(mean of squares of the exact last-N inputs) within an "
                 "a-posteriori error bound; the identical monitor is compiled against dasp with default-features=false (nightly) for the no_std sqrt. Exploration: "
                 "histories are unbounded."),
     level_note="trusted: double-double reference sums (error ~1e-32 relative, recomputed exactly every 2048 steps); the bound covers the two rounded operations per step, the rounded squares and division, and underflow; no_std envelope is the statement's 7% + 2^-60 / 2^-500",
     rule=("cases are (format, window N, channels, history kind, length) configurations, each producing one check per frame and channel; non-trivial = every configuration "
           "other than the doc-test's (f32/f64 mono window-4 constant input); distinct by hash of the configuration; evaluations = individual output checks"),
     stages=[
         {"name": "main", "build": "fast", "bin": "c11"},
         {"name": "nostd", "build": "nostd", "bin": "c11", "set": {"sqrt": "approx"}},
     ])

prop("C17",
     technique="runtime monitoring: lock-step reference model of the accumulated phase (double-double + running rounding bound), waveform oracles per frame, instrumented frequency source (pull counting), noise reproducibility checks; std and no_std builds",
     level_text=("Every (rate, frequency) pair from rates {1, 4, 44100, 48000, 1e-3, 1e9} x frequency multiples {0, 1/4, 1/3, 1/2, 7/8, 1-1e-9, 1, 2.5, 1e6, 1e-9, 1e-3} for "
                 "3 000 / 60 000 frames, long runs (3e5 / 1e7 frames) for drift, five variable-frequency patterns per rate with an instrumented control source; phase, saw, "
                 "square, sine and simplex checked on every frame; noise for structured seeds (incl. u64::MAX-4..=u64::MAX) and random ones; simplex scanned over all 256 "
                 "gradient cells at 2^10 / 2^15 positions each via a custom Step. Exploration: rates, frequency sequences and run lengths are unbounded."),
     level_note="trusted: IEEE fmod exactness (only the addition rounds), library sin/cos (two routes must agree within 8u(1+2pi)), double-double accumulated step sum",
     rule=("cases are runs: (rate, constant hz), (rate, variable-hz pattern, seed), noise seeds, simplex scan; non-trivial = anything but the doc-tests' rate-4 hz-1 and "
           "noise(0); distinct by hash of the run parameters; evaluations = per-frame output checks"),
     stages=[
         {"name": "main", "build": "fast", "bin": "c17"},
         {"name": "nostd", "build": "nostd", "bin": "c17"},
     ])

prop("C20",
     technique="runtime monitoring: formula oracle on a dense phase grid, item-by-item check of Window iterators, exhaustive (L, bin, hop) enumeration of the Windower with size_hint checked against a drained clone; std and no_std builds",
     level_text=("Hann/Rectangle at 2^16 (quick) / 2^20 (thorough) grid phases + random + end points for f64 and f32 phases (shape, range, symmetry); Window iterators "
                 "hann/rectangle/new for every n in 2..=257 / 2..=4096 in three frame types; Windower for every (L <= 24 / 40, bin 2..=L+2, hop 1..=L+2) x {hann, rectangle} "
                 "x {f64, [f32;2], [i16;2]}: chunk count, every frame of every chunk (frames all distinct), and size_hint before every next() against the number of "
                 "chunks a clone still yields; plus random long inputs. Exploration: L, bin, hop are unbounded."),
     level_note="trusted: library cos for the reference shape (tolerance 4u / 8u), the Window iterator's own values as weights for the Windower content check (validated separately against the formula)",
     rule=("cases are grid phases, window lengths n, and (L, bin, hop, window, frame type) triples, enumerated; non-trivial = every window length and every triple "
           "except the test-suite's (L=8,bin=2,hop=1) and (16,8,4); distinct by hash of n / (L, bin, hop); evaluations = per-item checks"),
     stages=[
         {"name": "main", "build": "fast", "bin": "c20"},
         {"name": "nostd", "build": "nostd", "bin": "c20"},
     ])

prop("C12",
     technique="runtime monitoring: position-counter reference model over exhaustively enumerated pull schedules, unique-index source with pull counting; Miri (Stacked Borrows) and ASan stages",
     level_text=("Capacities 1..=4 x every schedule in {A,B}^12 (quick) / {A,B}^16 (thorough) whose lead never exceeds the capacity, for by_ref and by_rc; every length-10 schedule "
                 "re-split at every point (second by_ref; by_rc after by_ref); random schedules of length 2 000 / 10 000 with capacities to 64 that ride the lead at exactly "
                 "+-capacity and flip its sign. After every single pull: returned frame index == branch position, source pull count == distinct frames, both "
                 "pending_frames() == lag. Miri/ASan cover the ring-buffer unsafe code underneath. Exploration: schedule length is unbounded."),
     level_note="trusted: the two-counter model; schedules that exceed the capacity are outside the statement and never generated",
     rule=("cases are (capacity, mode, schedule); enumerated completely to the stated length, random beyond; non-trivial = the lead reaches the capacity or changes sign "
           "(the doc-test pulls strictly alternately / 64 ahead once); distinct by hash of (capacity, mode, schedule); evaluations = individual pulls checked"),
     stages=[
         {"name": "main", "build": "fast", "bin": "c12"},
         {"name": "miri", "build": "miri-sb", "bin": "c12", "shards": {"quick": 4, "thorough": 16}, "set": {"len": {"quick": 8, "thorough": 10}}, "timeout": {"quick": 1500, "thorough": 7200}},
         {"name": "asan", "build": "asan", "bin": "c12"},
     ])

prop("C13",
     technique="runtime monitoring: reference model (pulled, per-output start/position) over exhaustively enumerated send/next/drop sequences; backlog read through a cfg-guarded verification hook; counting-allocator monitor for lock-step pulling",
     level_text=("Every legal sequence of send / next(i) / drop(i) / drop-bus-handle of length 9 (quick) / 11 (thorough) over <= 3 outputs and length-2 less over <= 4 outputs, each on an "
                 "infinite source and on sources of length 0, 1, 2; random sequences of 1 000-6 000 operations with up to 8 live outputs (lazy output, racing output, "
                 "lock-step phases, dropping the slowest / all / the Bus handle). After every operation: frame index, source pull count, every pending_frames(), "
                 "is_exhausted, and via the hook backlog length == lag of the slowest live output and normalised read offsets. Allocator monitor: no heap growth over "
                 "2e5 / 2e6 lock-step frames. Exploration: sequence length is unbounded."),
     level_note="trusted: the reference model; the hook (dasp_signal/src/bus.rs, cfg rustaudio_dasp_verif) only reads buffer.len() and frames_read",
     rule=("cases are operation sequences; enumerated completely to the stated depth, random beyond; non-trivial = contains a drop or an attach after the first "
           "(the doc-test attaches all outputs up front and never drops); distinct by hash of the sequence; evaluations = operations checked"),
     stages=[
         {"name": "main", "build": "fast", "bin": "c13"},
     ])

prop("C14",
     technique="runtime monitoring: queue reference model over exhaustively enumerated next()/next_frames() interleavings from every pre-filled ring state, origin-identifying frame values, source pull counting; Miri and ASan stages",
     level_text=("Capacities 1..=5 x every (start offset, pre-fill length) accepted by Bounded::from_raw_parts x source lengths 0..=12 x every sequence of 4 (quick) / 5 (thorough) "
                 "operations from {next, next_frames().take(j), j in 0..=cap+1}, finishing alternately with into_parts and a drain to exhaustion; random histories with "
                 "capacities to 40. After every operation: returned frames (values identify pre-fill / source index / padding / dead slot), source pulls (a refill is "
                 "exactly `capacity` pulls and only on empty), is_exhausted. Exploration: capacities and histories are unbounded."),
     level_note="trusted: VecDeque queue model; the padding bound is only asserted for drains of a signal that was never pulled after reporting exhaustion",
     rule=("cases are (cap, start, prefill, source length, operation sequence, finisher); enumerated completely to the stated bounds, random beyond; non-trivial = pre-filled "
           "or wrapped ring (the doc-tests use start 0 and frame-by-frame or whole-batch consumption only); distinct by hash of the case; evaluations = operations checked"),
     stages=[
         {"name": "main", "build": "fast", "bin": "c14"},
         {"name": "miri", "build": "miri-sb", "bin": "c14", "shards": {"quick": 8, "thorough": 16}, "set": {"seq": {"quick": 2, "thorough": 3}}, "timeout": {"quick": 1500, "thorough": 7200}},
         {"name": "asan", "build": "asan", "bin": "c14"},
     ])

prop("C04",
     technique="runtime monitoring: real adaptor trees over pull-counting, index-identifying sources vs. a reference tree interpreter; inspect-closure event logs; by_ref resume checks",
     level_text=("Every adaptor alone and every ordered pair of adaptors (all parameter variants) x six frame types (f64, [f32;2], [i16;3], [u8;2], [I24;1], [u32;4]), then 10^4 "
                 "(quick) / 6x10^5 (thorough) random trees of depth <= 4 / 6 over up to 5 finite or infinite leaves, 8-64 outputs each. Per output: root frame == "
                 "interpreter on the recorded leaf frames, every leaf pulled exactly max(0, n - delays above it) times, inspect closures saw exactly their child's frames "
                 "(count and content); a quarter of the runs wrap the signal by reference in one more adaptor for m outputs, drop it, and check the signal resumes at "
                 "the right frame. Exploration: programs (trees) are unbounded."),
     level_note="trusted: the interpreter applies the Frame operation the statement names (validated by C03) and an independent clamp (vmon::spec) for clip_amp; trees are generated so that every intermediate amplitude stays in the documented domain",
     rule=("cases are (frame type, adaptor tree, leaf lengths, outputs, resume); single adaptors/pairs enumerated, deeper trees random; non-trivial = >= 2 adaptors or a "
           "non-f64 frame type; distinct by hash of (frame type, tree expression); evaluations = output frames checked"),
     stages=[{"name": "main", "build": "fast", "bin": "c04"}])

prop("C05",
     technique="runtime monitoring: exhaustion reference model stepped with real adaptor trees over finite instrumented leaves; instrumented fused/non-fused iterators; item counts of until_exhausted / lift / take / into_interleaved_samples",
     level_text=("Signals from iterators of 0..=20 (quick) / 0..=64 (thorough) frames or interleaved samples x channel counts 1..=8 (every remainder, fused and non-fused "
                 "iterators) with 1/7/32 further calls after exhaustion; every adaptor over leaves of every length 0..=6 (binary adaptors: every length pair, both orders), "
                 "adaptor pairs, and 6x10^3 / 3x10^5 random trees: is_exhausted() before and after every next() == model, frames == interpreter, until_exhausted yields "
                 "exactly min-leaf-length (+delays) items then None for good, take(n) yields n, interleaved output yields frames x channels samples in order without "
                 "fetching a frame after exhaustion (both via into_iter and next_sample). Exploration: programs and lengths are unbounded."),
     level_note="trusted: the exhaustion model (leaf: pulls >= L; combining: OR; delay: silence owed keeps it live) and the C04 interpreter",
     rule=("cases are (tree, leaf lengths, frame type, extra calls) and (iterator length, channels, fused?, extra calls); enumerated for small trees/lengths, random beyond; "
           "non-trivial = all of them except the doc-test shapes (single from_iter / add_amp of lengths 2 and 4); distinct by hash of (tree, lengths) / iterator case"),
     stages=[{"name": "main", "build": "fast", "bin": "c05"}])

prop("C08",
     technique="runtime monitoring: ramp-valued pull-counting source (outputs reveal source index and fraction), exact-position reference model in double-double with running rounding bound (exact for dyadic ratios), exhaustion model, instrumented ratio signal",
     level_text=("25 constant ratios (16 dyadic: exact checks; 9 non-dyadic incl. 44100/48000, pi/2, 1+-ulp, 37.7, 1e-3) x source lengths 0..=24 (quick, thinned) / 0..=64 "
                 "(thorough, all) and infinite x {floor, linear} x frame types {f64, [f32;2], i16, [u8;2], I24, i32} x four constructors; 300 / 6 000 runs with per-output "
                 "ratios through the setters and through mul_hz (ratio signal pulled exactly once per output); long runs (2e5 / 2e6 outputs) for drift. Per output: pulls "
                 "== floor(P_n) (within the bound), floor output == that source frame, linear output == the straight-line blend and inside the two frames, is_exhausted() "
                 "before every output == (source exhausted and next output needs a frame); output count law for constant ratios. Exploration: ratios and lengths are unbounded."),
     level_note="trusted: double-double position sum; the bound accounts for the one rounded addition per output (the `-= 1.0` steps are exact); integer formats get +-1 LSB for the truncating conversion of the blend",
     rule=("cases are (frame type, interpolator, ratio sequence, source length, constructor); non-trivial = every case except the doc-tests' ratio 0.5 / 2 over 4 frames; "
           "distinct by hash of the case; evaluations = output frames checked"),
     stages=[{"name": "main", "build": "fast", "bin": "c08"}])

prop("C16",
     technique="runtime monitoring: each stock node driven through Processor::process behind prepared Feed nodes for consecutive calls, outputs compared with per-node oracles (sample-wise sums, copies, model delay lines, index-valued signal, inner graph processed directly); wrappers run side by side; Miri (Tree Borrows) and ASan stages",
     level_text=("Sum and SumBuffers for every input count 0..=5 and buffers-per-node 0..=4 (all pairs for <= 2 inputs, representative sets beyond) with integer-valued (exact) "
                 "and real-valued (tolerance) contents and garbage-prefilled outputs; Pass with 0/1 input and every buffer-count combination; Delay with ring lengths "
                 "{1, 63, 64, 65, 200, mixed per channel} over 5 consecutive calls against a per-channel model delay line; signal nodes of 1/2/3/8 channels into 0..=9 "
                 "buffers (registry Signal trait); nested GraphNode vs processing the same inner graph directly; &mut / Box / Box<dyn> / BoxedNode / BoxedNodeSend / nested "
                 "BoxedNode / Box<dyn FnMut> / Box<dyn Fn> / fn pointer bit-identical to the bare node. 3 (quick) / 40 (thorough) random contents per configuration. "
                 "Exploration: buffer contents and call counts are unbounded."),
     level_note="trusted: f64 reference sums; dasp_graph resolves dasp_slice/dasp_ring_buffer/dasp_signal from the registry (0.11.0), so this check is sensitive to changes under dasp_graph/ only, which is where the property is anchored",
     rule=("cases are (node kind, per-input buffer counts, output buffer count, ring lengths, content seed); configurations enumerated, contents random; non-trivial = all "
           "but the test-suite's 2-input/1-buffer Sum; distinct by hash of the configuration; evaluations = output samples checked"),
     stages=[
         {"name": "main", "build": "fast", "bin": "c16"},
         {"name": "miri", "build": "miri-tb", "bin": "c16", "shards": {"quick": 8, "thorough": 16}, "timeout": {"quick": 1500, "thorough": 7200}},
         {"name": "asan", "build": "asan", "bin": "c16"},
     ])

prop("C18",
     technique="runtime monitoring: delayed-source oracle at ratio 1, superposition/scaling (linearity) oracle at hostile fractional positions after every push incl. priming, constant-input envelope, reset-vs-fresh bit equality; std and no_std builds",
     level_text=("Every depth 1..=64 (quick) / 1..=96 plus 128, 256, 1000 (thorough): ratio-1 conversion reproduces the source delayed by exactly `depth` frames within "
                 "1e-12 of the peak (priming included); I(aX+bY) == a I(X) + b I(Y) within a rounding bound at x in {0, 2^-53, 1/2, 1-2^-53, 1/4, 1/3, 1e-300, random} after "
                 "every pushed frame, for f64 (magnitudes 1, 1e300, 1e-200), [f32;2] and [i16;2] frames and rotated rings; constant input within 1% on a 2 000 / 10 000 "
                 "point grid for every depth >= 4; reset() followed by any history is bit-identical to a fresh zero-padded interpolator from dirty, rotated states. "
                 "3 / 30 seeds per depth. Exploration: depth, position and history are unbounded."),
     level_note="trusted: the linearity tolerance (2d+8)*16u*(|a||X|+|b||Y|) (sum of 2d rounded taps with bounded total weight), +2d LSB per trace for integer frames (each tap is truncated)",
     rule=("cases are (depth, seed) x check kind; depths enumerated, histories random; non-trivial = all but the test-suite's single depth-5 ratio-1 example; distinct by hash of "
           "(depth, seed); evaluations = interpolated frames checked"),
     stages=[
         {"name": "main", "build": "fast", "bin": "c18"},
         {"name": "nostd", "build": "nostd", "bin": "c18"},
     ])

prop("C19",
     technique="runtime monitoring: value oracle for the rectifiers (every value of the 8/16-bit formats), per-step recurrence monitor for the envelope follower from the observed previous output and a second identical detector; instrumented source for the adaptor; std and no_std builds",
     level_text=("Rectifiers: every value of i8/u8/i16/u16 and structured + 1e5 (quick) / 3e6 (thorough) random values of the 24/32/48/64-bit and float formats, in frames of width "
                 "1, 2 and 5: full-wave == |signed amplitude| (signed minimum excluded as stated), half-waves == max/min with equilibrium (unsigned formats re-centred). "
                 "Envelope: formats {f32,f64,i16,u8,I24,i32} x channels {1,2} x detectors {peak full/+half/-half, RMS window 1/4/64} x six input patterns x 4 / 24 "
                 "attack/release schedules (times from {0, 0.01, 0.5, 1, 3, 10, 64, 1000}, attack != release, mid-stream changes, through Detector and the "
                 "detect_envelope adaptor): every output == d + g (l - d) within a rounding tolerance, between l and d, == d when the time is 0, monotone on constant "
                 "input. Exploration: histories and times are unbounded."),
     level_note="trusted: exp() in f64 as the reference gain (the crate uses an f32 powf: 2^-21 relative slack), tolerance 8u max(|l|,|d|) + 2 LSB + underflow term; the detected value comes from a second instance of the same detector (rectifiers/RMS are checked on their own by this check and C11)",
     rule=("cases are sample values (rectifiers) and (format, channels, detector, pattern, schedule) runs (envelope); non-trivial = all (the test-suite has no envelope "
           "test); distinct by hash; evaluations = values / per-channel envelope steps checked"),
     stages=[
         {"name": "main", "build": "fast", "bin": "c19"},
         {"name": "nostd", "build": "nostd", "bin": "c19"},
     ])

prop("C03",
     technique="runtime monitoring: spec oracle (convert -> native op -> convert back in vmon::spec) for the sample operations over structured/exhaustive values; per-channel consistency monitor for every Frame method at every width 1..=32; Miri stage for the unsafe frame code",
     level_text=("Sample level, 14 formats: every value of the 8/16-bit formats and structured + 2 000 / 60 000 random values of the wider ones x structured and random offsets and "
                 "gains: add_amp(0), mul_amp(0.0), mul_amp(1.0) (exact or within the float companion's precision), general add_amp/mul_amp, to_signed/to_float against an "
                 "independent spec; out-of-domain cases (exact intermediate outside the signed range / [-1,1)) are skipped and counted. Frame level: every N in 1..=32 x "
                 "formats {u8, i16, I24, f64} (+ {u32, U48, i64, f32}) with pairwise-distinct channels: map (call order), zip_map (pairing), offset/scale/add/mul, "
                 "signed/float conversion, EQUILIBRIUM, CHANNELS, from_fn (order), from_samples for iterator lengths 0..=N+2 (None iff short; items consumed), channels() "
                 "with len(), channels_ref/mut (both directions), channel(i)/channel_mut(i) for i in 0..N+2. Mono: all 14 sample types as frames vs [S;1]. Miri runs the "
                 "frame level (MaybeUninit fill, unchecked channel access). Exploration: values are unbounded for the wide formats."),
     level_note="trusted: vmon::spec conversions (unit-tested; validated against the crate by C01/C02 from the other side); the frame level trusts the sample operations it applies per channel (validated by the sample level)",
     rule=("cases are (format, value, offset/gain) at the sample level and (format, N, method) at the frame level; non-trivial = sample values other than the doc-test "
           "points, frame cases with N >= 5 or a format other than f32/u8; distinct by hash of (format, value) / (format, N); evaluations = individual comparisons"),
     stages=[
         {"name": "main", "build": "fast", "bin": "c03"},
         {"name": "release", "build": "release", "bin": "c03"},
         {"name": "miri", "build": "miri-sb", "bin": "c03", "shards": {"quick": 8, "thorough": 16}, "timeout": {"quick": 1500, "thorough": 7200}},
     ])

prop("C07",
     technique="runtime monitoring: counting #[global_allocator] (thread-local alloc/realloc/free/live-byte counters) bracketing a warmed-up measured section for every entry of a catalogue of the allocation-free API surface; self-tested positive/negative controls",
     level_text=("A catalogue of ~200 entries, each constructed, warmed up, then measured over 2 000 (quick) / 200 000 (thorough) calls with varying inputs, must show 0 allocations, "
                 "0 reallocations, 0 frees: all 132 integer conversions + float conversions through every route, sample ops for 14 formats, every Frame method at widths "
                 "1/2/8/32, borrowed-slice conversions and in-place ops, Bounded/Fixed over array/&mut/Vec/Box storage (storage pointer and capacity unchanged), peak, RMS, "
                 "envelope detectors with parameter changes, floor/linear/sinc interpolators, window functions, every signal source and adaptor, rate conversion with all "
                 "three interpolators and varying ratios, fork by_ref under four schedule families, buffered, iterator conversions, lift, rms/envelope adaptors, windows and "
                 "Windower chunks, 200 / 5 000 random adaptor trees, 60 / 2 000 random graphs (Graph/StableGraph, 1-64 nodes, cycles, parallel edges, all stock nodes incl. "
                 "nested GraphNode). Documented exceptions are checked for what is promised: by_rc = exactly one allocation at creation, bus = no growth in lock-step. "
                 "Exploration: an allocation on a path the catalogue does not drive is not seen; the catalogue is listed in the evidence notes."),
     level_note="trusted: the counting allocator (self-tested every run: empty section reads 0/0/0, Vec growth reads >= 1, drop reads one free); measured closures are themselves allocation-free (no formatting, pre-sized buffers)",
     rule=("cases are catalogue entries (each >= 2 000 measured calls), random adaptor trees and random graphs; non-trivial = every entry (the test-suite has no allocation test); "
           "distinct = number of catalogue entries (by construction) + hash of tree expression / graph parameters; evaluations = measured calls"),
     stages=[{"name": "main", "build": "fast", "bin": "c07"}])

# Every property also runs its monitor on a stock release build (debug assertions and overflow
# checks off): a side effect wrapped in debug_assert!, or an arithmetic path that only exists with
# assertions off, is invisible to the 'fast' profile (release + debug-assertions) of the main stage.
# The sample-arithmetic properties (and the custom-width integer types) also run on a release build with overflow checks ON and debug
# assertions OFF (profile `relchk`).
for _pid in ("C01", "C02", "C03", "C15"):
    PROPS[_pid]["stages"].append({"name": "release_overflow_checks", "build": "relchk", "bin": PROPS[_pid]["stages"][0]["bin"]})
    # ... and on a release build for the host CPU (-C target-cpu=native: fma, avx2, ... enabled)
    PROPS[_pid]["stages"].append({"name": "release_native_cpu", "build": "native", "bin": PROPS[_pid]["stages"][0]["bin"]})
# C01 and C15 are also executed as a 32-BIT build (Miri with an i686 target: the only way to run
# 32-bit code here), interpreter-sized.
PROPS["C01"]["stages"].append({"name": "miri32", "build": "miri32", "bin": "c01", "shards": {"quick": 6, "thorough": 12}, "timeout": {"quick": 1500, "thorough": 3600}})
PROPS["C15"]["stages"].append({"name": "miri32", "build": "miri32", "bin": "c15", "shards": {"quick": 4, "thorough": 8}, "timeout": {"quick": 1500, "thorough": 3600}})
# The index-arithmetic properties whose interpreter stage uses Stacked Borrows run that same stage a
# second time as a 32-bit build ("as": the stage logic the binary is asked for).
for _pid in ("C03", "C06", "C10", "C12", "C14"):
    _m = [s for s in PROPS[_pid]["stages"] if s["name"] == "miri"][0]
    _c = dict(_m)
    _c.update({"name": "miri32", "build": "miri32", "as": "miri"})
    PROPS[_pid]["stages"].append(_c)
# ... and the two graph properties (Tree Borrows, as in their 64-bit interpreter stage)
for _pid in ("C09", "C16"):
    _m = [s for s in PROPS[_pid]["stages"] if s["name"] == "miri"][0]
    _c = dict(_m)
    _c.update({"name": "miri32", "build": "miri32", "as": "miri", "miriflags": "-Zmiri-tree-borrows"})
    PROPS[_pid]["stages"].append(_c)
# C20 (bin / hop / remaining-frames arithmetic in usize) gets an interpreter-sized 32-bit stage of
# its own. -Zmiri-deterministic-floats: the interpreter otherwise perturbs every cos() by a random
# ulp, and the monitors compare a Window's values across calls bit for bit.
PROPS["C20"]["stages"].append({"name": "miri32", "build": "miri32", "bin": "c20", "shards": {"quick": 8, "thorough": 16}, "miriflags": "-Zmiri-deterministic-floats", "timeout": {"quick": 1500, "thorough": 3600}})
# Lean 32-bit stages for C04 / C05 (adaptor trees) exist in c04.rs / c05.rs but were withdrawn: in each, one
# interpreter shard did not finish within a quarter of an hour (see DESIGN 14)
for _pid, _bin in ():
    PROPS[_pid]["stages"].append({"name": "miri32", "build": "miri32", "bin": _bin, "shards": {"quick": 8, "thorough": 16}, "timeout": {"quick": 1500, "thorough": 3600}})
for _pid, _p in PROPS.items():
    if not any(s["build"] == "release" for s in _p["stages"]):
        _main = [s for s in _p["stages"] if s["name"] == "main"][0]
        _p["stages"].append({"name": "release", "build": "release", "bin": _main["bin"]})

# What was added to each monitor after the seeded-change campaign (DESIGN.md section 13); appended to
# the level text so that MANIFEST.json describes the checks as they are now.
_ADDED = {
    "C01": "Also: every numeric literal of dasp_sample's sources (with neighbours and re-based twins) as input; the to_signed_sample route for the six unsigned formats; a third build with debug assertions off and overflow checks on and a fourth for the host CPU (-C target-cpu=native).",
    "C02": "Also: inputs on and next to every rounding boundary of the target float format (where correct rounding differs from truncation and from rounding twice; ties plus or minus 2^k for every lower bit position k), source literals as inputs, the to_float_sample route; a third build with debug assertions off and overflow checks on and a fourth for the host CPU (-C target-cpu=native: fma, avx2).",
    "C03": "Also: subnormal / negative-zero / MIN_POSITIVE samples and tiny gains; iterator-protocol conformance (nth, fold, count, last, skip, step_by, size_hint, len, next_back, rev vs plain next) of channels / channels_ref / channels_mut for a hand-picked set of (format, N); frames with repeated channel values (all equal, all equal but one, alternating) through every per-channel law; frames of 33 / 64 / 65 / 100 channels and the 32/64-bit integer formats at a few widths; uniform gain / offset frames (all 1.0, 0.0, 0.5, -1.0; all zero) on full-range values, outcomes compared including panics; a build with debug assertions off and overflow checks on and one for the host CPU (-C target-cpu=native).",
    "C04": "Also: delays of 2^32, 2^32+1 and usize::MAX frames; eleven adaptor kinds each driven for 2^32+4096 frames (frame-by-frame comparison, source pull counts at the end); all 81 ordered pairs of the nine unary adaptors as CONCRETE types, the inner one pulled 0/1/3 times and then moved by value into the outer one; a 40-channel frame type in the tree machinery; clone / clone_from of delays mid-silence; every adaptor over frames of a user-defined sign-magnitude sample format, compared with the same adaptor over i8 frames of the same amplitudes.",
    "C05": "Also: huge delays; take(n) for n around every integer-width boundary (len/size_hint count down from n); iterator-protocol conformance of the interleaved-sample iterator, take and until_exhausted over every tree; a 40-channel frame type; interleaved output of frames with 33, 300 and 65 537 channels; clone / clone_from of iterator-backed signals; a bus output that is the sole survivor with the whole source still queued, read through until_exhausted, into_interleaved_samples and an is_exhausted loop.",
    "C06": "Also: indices and set_first arguments around every integer-width boundary; ring buffers over calloc-backed storage of 2^32+r, 2^31+5, 3*2^30+1 and 2^32-1 elements (sparse model, rotated starts); Extend through iterators with exact, absent and loose size hints; iterator-protocol conformance of iter() and drain() from every small state.",
    "C07": "Also: a Sum node with 300 / 1 500 / 5 000 / 70 000 incoming edges in steady state, and alternating with a sink of fan-in 2 on the same graph; a processor and its graph (BoxedNodeSend) warmed up on one thread and rendered on another; constructors, comparison and the + - * operators of all eight custom-width types; a bus output dropped while its thread unwinds from a caught panic.",
    "C08": "Also: the content of every output while the ratio swings between < 1 and > 1, and panic guards that turn a panic inside the converter into a violation instead of a dead stage; exhaustion reporting over a source whose own exhaustion is not sticky (a queue fed again later), dyadic ratios; ratio 1 requested as equal rates (from_hz_to_hz(r, r), set_hz_to_hz(r, r) mid-stream) for dozens of rates over thousands of frames.",
    "C09": "Also: one node fed by 257 ... 4 097 (thorough 70 000) different nodes through a processor created with a small capacity; a probe node that panics inside process, then a fully checked call on the same processor; the graph re-patched (one edge moved, in-degrees unchanged) between two calls with the same processor and output node, and patched back.",
    "C10": "Also: views over i8 buffers of 2^32+d samples (calloc-backed) for ten widths, shared / mutable / boxed; zip_map_in_place between frame types of different channel counts; long slices whose source has aligned runs of exactly silent frames; float destinations numerically equal to the result beforehand but with flipped zero signs, compared bit for bit.",
    "C11": "Also: the zeroed window is handed over at a rotation derived from the case (Fixed::from_raw_parts(k, ..)); clone() / clone_from() mid-stream against the original and a never-copied replay; a stereo detector one channel of which is fed samples whose squares overflow, the other compared bit for bit with a mono detector.",
    "C12": "Also: a fork over a ring buffer of 2^32+r frames with leads up to 190; the ring starts at a non-zero offset; by_rc with either handle dropped at every point of every schedule of length 10; Fork::clone / clone_from mid-stream (state-copy conformance); a zero-sized source type whose state lives in a thread-local.",
    "C13": "Also: every sequence containing a drop is run a second time with each drop happening while the thread unwinds from a caught panic; deep-backlog histories (leads of 2 100 ... 6 100 frames, partial catch-ups, the slowest of three dropped); 2^20 (thorough: 2^32 + 1024) attach/detach cycles on one bus with two early outputs alive and lagging.",
    "C14": "Also: batch-only histories first (they cannot hang); iterator-protocol conformance of next_frames() from every (capacity, start, prefill, lead) state; a source over a live queue that is fed again after Buffered ran dry.",
    "C15": "Also: source literals as operands; operands solved for so that the exact product / sum / difference is congruent to a range boundary modulo 2^BITS, any number of periods away; a third build with debug assertions off and overflow checks on (where the ninth defect, Mul trapping instead of wrapping, was found and fixed) and a fourth for the host CPU.",
    "C16": "Also: signal nodes whose signal is a chain of real adaptors over a finite source (exhaustion hint set while frames are still non-zero), compared with an identical twin stepped directly; delay rings handed over rotated; nested graphs with a stateful inner source whose inner state (public field) is compared with a directly processed twin for every outer buffer count, zero included; a nested graph whose designated input node is also fed from inside the inner graph and keeps a surplus buffer.",
    "C17": "Also: white noise over 2^31 (thorough 2^35) consecutive (seed + frame) values per run, extremes reported; frequency signals that are the sum of two finite signals (hint set, frames non-zero); frequencies gliding by one ulp per frame or wobbling between two neighbours, and every ordered pair of frequencies within two ulps of the rate, of half and of twice the rate, from phase 0; clone / clone_from of constant- and variable-frequency oscillators and noise, the clone_from destination built with a different sample rate, frequency and control signal.",
    "C18": "Also: zeroed rings handed over rotated; reset while still priming, with zeroed and with dirty rings; the constant-input clause at the 64 doubles below 1 and on geometric approaches to 0, 1/2 and 1; superposition with operands that are constant over the whole buffer; 6 000-frame runs at ratio 1 through scale_hz(1.0), from_hz_to_hz(r, r) and set_hz_to_hz(r, r) for eight rates.",
    "C19": "Also: attack/release times of -0.0, subnormal, MIN_POSITIVE, 1e30 and f32::MAX; loud / quiet / exact-silence / quiet patterns with a 2^15 level ratio; RMS windows handed over rotated; attack and release gliding by one ulp before every frame; detectors constructed and re-parameterised on all cores at once with times from a small pool (each must use the gains of its own times).",
    "C20": "Also: hops around every integer-width boundary; each (L, bin, hop) state also reached by assigning the public fields after construction; iterator-protocol conformance of Window, Windower and the chunk iterator; bin/hop reassigned after a first chunk was pulled under other settings; slices of zero-sized frames with L up to usize::MAX and hops of 2^58 and more; one chunk of 2^24+1 / 2^24+3 frames compared bit for bit with the standalone window of the same length.",
}
_ALL = ("Every property additionally runs its main workload on a stock release build (assertions and overflow checks off). "
        "Violations are written to a side-car file as they are observed, so a stage that later hangs or crashes still delivers them.")
_M32 = {
    "C01": " A 32-bit build of dasp is executed too (Miri, i686 target): per conversion pair ~60 (thorough: ~400) structured boundary values and 40 (400) random ones.",
    "C15": " A 32-bit build of dasp is executed too (Miri, i686 target): construction / From on boundary and out-of-range backing values and the operators on a 14 x 14 (quick) / 38 x 38 (thorough) value set, all eight types.",
}
_M32["C20"] = " A 32-bit build of dasp is executed too (Miri, i686 target): every (L, bin, hop) with L <= 6 (quick) / 9 (thorough), hops around the 8/16/24/31-bit boundaries and the top of the 32-bit range, short Window iterators."
for _pid in ("C03", "C06", "C09", "C10", "C12", "C14", "C16"):
    _M32[_pid] = " The interpreter stage runs a second time as a 32-bit build of dasp (Miri, i686 target)."
_W32 = {
    "C03": " In that build the sample-level sweep runs for the ten formats wider than 16 bits (values on both sides of 2^31 and 2^32).",
    "C06": " In that build: real buffers of 32 769 ... 70 000 elements, ten rotations and ~25 boundary indices each (half of the machine word).",
    "C10": " In that build: one-byte-sample slices of ten lengths from 2^27 to 1.5 * 2^30, ten widths, shared / mutable / boxed.",
    "C12": " In that build: one branch leading by 65 536 / 65 537 (thorough: 131 072) frames, every step checked.",
    "C14": " In that build: refills of capacities 65 537, 92 700, 185 400 (thorough: up to 262 147) with a counting source.",
    "C20": " In that build also slices of 66 000 ... 131 075 frames with nth(n) / step_by(n) where n * hop = 2^32 + small (positions beyond the schedule that wrap the word onto a valid start).",
}
for _pid, _t in _W32.items():
    _M32[_pid] += _t
for _pid, _t in _M32.items():
    _ADDED[_pid] = _ADDED.get(_pid, "Also:") + _t
    if "32-bit" not in PROPS[_pid]["technique"]:
        PROPS[_pid]["technique"] += "; a 32-bit build executed under Miri (i686)"
for _pid, _p in PROPS.items():
    if _pid in _ADDED and _ADDED[_pid] not in _p.get("level_text", ""):
        _p["level_text"] = _p.get("level_text", "") + " " + _ADDED[_pid] + " " + _ALL

# Thorough-tier volumes were scaled up after the texts above were written; the figures are put
# right here (every pair must match somewhere, so a stale entry fails loudly).
_FIGURES = [
    ("then 10^4 (quick) / 6x10^5 (thorough) random trees", "then 10^4 (quick) / 5x10^6 (thorough) random trees"),
    ("and 6x10^3 / 3x10^5 random trees", "and 6x10^3 / 3x10^6 random trees"),
    ("then measured over 2 000 (quick) / 200 000 (thorough) calls", "then measured over 2 000 (quick) / 4 000 000 (thorough) calls"),
    ("200 / 5 000 random adaptor trees, 60 / 2 000 random graphs", "200 / 50 000 random adaptor trees, 60 / 60 000 random graphs"),
    ("300 / 6 000 runs with per-output ratios", "300 / 2 000 000 runs with per-output ratios"),
    ("long runs (2e5 / 2e6 outputs) for drift", "long runs (2e5 / 2e7 outputs) for drift"),
    ("every schedule in {A,B}^12 (quick) / {A,B}^16 (thorough)", "every schedule in {A,B}^12 (quick) / {A,B}^18 (thorough)"),
    ("random schedules of length 2 000 / 10 000 with capacities to 64", "300 / 1 000 000 random schedules of length 2 000 / 10 000 with capacities to 64"),
    ("random sequences of 1 000-6 000 operations", "400 / 300 000 random sequences of 1 000-6 000 operations"),
    ("every sequence of 4 (quick) / 5 (thorough) operations", "every sequence of 4 (quick) / 6 (thorough) operations"),
    ("random histories with capacities to 40.", "3 000 / 3 000 000 random histories with capacities to 40."),
    ("3 (quick) / 40 (thorough) random contents per configuration", "3 (quick) / 1 500 (thorough) random contents per configuration"),
    ("for 3 000 / 60 000 frames, long runs (3e5 / 1e7 frames) for drift", "for 3 000 / 600 000 frames, long runs (3e5 / 5e7 frames) for drift"),
    ("Every depth 1..=64 (quick) / 1..=96 plus 128, 256, 1000 (thorough)", "Every depth 1..=64 plus 128 (quick) / 1..=160 plus 128, 256, 1000 (thorough)"),
    ("3 / 30 seeds per depth", "3 / 100 seeds per depth"),
    ("x six input patterns x 4 / 24 attack/release schedules", "x eight input patterns x 4 / 400 attack/release schedules over 300 / 4 000 frames"),
    ("for every n in 2..=257 / 2..=4096 in three frame types", "for every n in 2..=257 / 2..=8192 in three frame types"),
    ("Windower for every (L <= 24 / 40, bin 2..=L+2, hop 1..=L+2)", "Windower for every (L <= 24 / 96, bin 2..=L+2, hop 1..=L+2)"),
]
for _a, _b in _FIGURES:
    _hit = False
    for _p in PROPS.values():
        if _a in _p.get("level_text", ""):
            _p["level_text"] = _p["level_text"].replace(_a, _b)
            _hit = True
    assert _hit or any(_b in _p.get("level_text", "") for _p in PROPS.values()), "stale figure: " + _a
