"""Registry of properties -> stages. Read by /verif/check.

stage keys: name, build (fast|release|asan|nostd|miri-sb|miri-tb), bin, tiers (default both),
            shards (int or {tier: int}), set ({k: v or {tier: v}}), timeout ({tier: s}), workspace
"""
MAX_PARALLEL_STAGES = 16

COMMON_ASSUMPTIONS = [
    "rustc/LLVM compile the harness and dasp faithfully; the monitors observe the binaries built from /repo's working tree with --cfg rustaudio_dasp_verif",
    "a run decides only the executions it produced: 'held' means no violation among the cases counted in coverage",
]

PROPS = {}
HOOK_COMMITS = []
NOT_YET = {}

PROPS["C01"] = {
    "level": "exploration",
    "rule": ("cases are (ordered format pair, source value); every value of each <=24-bit (quick) / <=32-bit (thorough) source format "
             "is enumerated for all 11 destinations and 3 call routes, wider sources use a structured boundary set plus one random value per "
             "equal-width stratum of the value range; a case is non-trivial when the value is not MIN, equilibrium or MAX (the points the "
             "test-suite checks); distinct by construction (disjoint enumeration / one value per stratum), structured values are not counted"),
    "technique": "runtime monitoring: exhaustive/stratified input enumeration against an independent i128 spec oracle, debug-assertion and release builds",
    "level_text": ("Every value of every <=24-bit source format (quick) / <=32-bit (thorough) is converted through all three public routes and "
                   "compared with an independent exact oracle; 48/64-bit sources are covered by boundary-structured and stratified random values; "
                   "round-trip and composition laws are evaluated on the real functions. Exploration is the right level: the input space of the "
                   "wide formats cannot be enumerated, everything narrower is."),
    "level_note": "trusted: vmon::spec::int_to_int (15 lines of i128 shifts, unit-tested), rustc; both debug-assertion ('fast' profile) and stock release builds are exercised",
    "assumptions": COMMON_ASSUMPTIONS + ["the i128 shift oracle in vmon::spec::int_to_int states the property (it is unit-tested against hand-computed points)"],
    "stages": [
        {"name": "main", "build": "fast", "bin": "c01"},
        {"name": "release_boundary", "build": "release", "bin": "c01"},
    ],
}
