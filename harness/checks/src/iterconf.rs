//! Iterator-protocol conformance monitor.
//!
//! Every iterator type dasp hands out may override `nth`, `fold`, `count`, `last`, `size_hint`,
//! `len`, `next_back`, ... as "fast paths". The contract of every one of them is defined by what
//! plain `next()` would have produced. The monitor builds the reference sequence from a fresh
//! instance driven by `next()` alone, then drives further fresh instances through random scripts
//! (`next`, `nth(k)`, `size_hint` at every point) finished by one consuming method (`collect`,
//! `fold`, `count`, `last`, `for_each`, `skip(k)`, `step_by(k)`, `min_by_key`-free) and compares.
//!
//! Nothing here knows about dasp; the caller supplies a factory producing identical instances.

use std::fmt::Debug;
use vmon::{Report, Rng};

const LIMIT: usize = 1 << 14;

#[derive(Clone, Copy, Debug)]
enum Fin {
    Collect,
    Fold,
    Count,
    Last,
    ForEach,
    Skip(usize),
    StepBy(usize),
    NextLoop,
    Partition,
}

fn pick_fin(rng: &mut Rng, remaining: usize) -> Fin {
    match rng.below(9) {
        0 => Fin::Collect,
        1 => Fin::Fold,
        2 => Fin::Count,
        3 => Fin::Last,
        4 => Fin::ForEach,
        5 => Fin::Skip(rng.usize_below(remaining + 3)),
        6 => Fin::StepBy(1 + rng.usize_below(remaining + 2)),
        7 => Fin::NextLoop,
        _ => Fin::Partition,
    }
}

/// Reference sequence of a fresh instance, by `next()` only. None if it does not end within LIMIT.
fn reference<I: Iterator>(mut it: I) -> Option<Vec<I::Item>> {
    let mut v = Vec::new();
    while let Some(x) = it.next() {
        v.push(x);
        if v.len() > LIMIT {
            return None;
        }
    }
    Some(v)
}

/// Check one finite iterator type. `mk` must return identical fresh instances. Returns the number
/// of scripts run (0 if the iterator did not end within the limit); violations go to `rep` with
/// signature `iter|<label>|<method>|...` and the given replay case string.
pub fn check_iter<I, M>(label: &str, case: &str, mk: M, rep: &mut Report, rng: &mut Rng, n_scripts: usize) -> u64
where
    I: Iterator,
    I::Item: PartialEq + Debug,
    M: Fn() -> I,
{
    let r = match vmon::catch(std::panic::AssertUnwindSafe(|| reference(mk()))) {
        Ok(Some(r)) => r,
        Ok(None) => {
            rep.count("iterconf_skipped_unbounded", 1);
            return 0;
        }
        Err(m) => {
            rep.violation(&format!("iter|{}|next|panic", label), format!("driving a fresh instance with next() panicked: {}", m), case.to_string());
            return 0;
        }
    };
    let len = r.len();
    let mut ran = 0u64;
    for s in 0..n_scripts {
        let mut script = String::new();
        let res = vmon::catch(std::panic::AssertUnwindSafe(|| -> Result<(), (String, String)> {
            let mut it = mk();
            let mut pos = 0usize;
            let hint_ok = |it: &I, pos: usize, script: &str| -> Result<(), (String, String)> {
                let (lo, hi) = it.size_hint();
                let rem = len.saturating_sub(pos);
                if lo > rem || hi.map_or(false, |h| h < rem) {
                    return Err(("size_hint|does_not_bracket_remaining".into(), format!("after [{}]: size_hint() = ({}, {:?}) but {} items remain", script, lo, hi, rem)));
                }
                Ok(())
            };
            hint_ok(&it, pos, &script)?;
            // the first script is the plain terminal on a fresh iterator; later ones step first
            let steps = if s == 0 { 0 } else { 1 + rng.usize_below(3) };
            let mut ended = false;
            for _ in 0..steps {
                if rng.chance(1, 2) {
                    script.push_str("next,");
                    let got = it.next();
                    if got.as_ref() != r.get(pos) {
                        return Err(("next|differs_between_instances".into(), format!("after [{}]: {:?}, a fresh instance yielded {:?} at position {}", script, got, r.get(pos), pos)));
                    }
                    if got.is_none() {
                        ended = true;
                        break;
                    }
                    pos += 1;
                } else {
                    let k = rng.usize_below(len.saturating_sub(pos) + 2);
                    script.push_str(&format!("nth({}),", k));
                    let got = it.nth(k);
                    if got.as_ref() != r.get(pos + k) {
                        return Err(("nth|differs_from_next_driven".into(), format!("after [{}]: {:?}, next()-driven item {} is {:?}", script, got, pos + k, r.get(pos + k))));
                    }
                    if got.is_none() {
                        ended = true;
                        break;
                    }
                    pos += k + 1;
                }
                hint_ok(&it, pos, &script)?;
            }
            if ended {
                return Ok(());
            }
            let rest = &r[pos.min(len)..];
            let fin = pick_fin(rng, rest.len());
            script.push_str(&format!("{:?}", fin));
            let same = |got: &[I::Item], want: &mut dyn Iterator<Item = &I::Item>| -> bool {
                let w: Vec<&I::Item> = want.collect();
                got.len() == w.len() && got.iter().zip(w).all(|(a, b)| a == b)
            };
            let bad = |method: &str, got: String, want: String| -> Result<(), (String, String)> { Err((format!("{}|differs_from_next_driven", method), format!("[{}]: got {}, next()-driven remainder gives {}", script, got, want))) };
            match fin {
                Fin::Collect => {
                    let got: Vec<I::Item> = it.collect();
                    if !same(&got, &mut rest.iter()) {
                        return bad("collect", format!("{:?}", got), format!("{:?}", rest));
                    }
                }
                Fin::Fold => {
                    let got: Vec<I::Item> = it.fold(Vec::new(), |mut v, x| {
                        v.push(x);
                        v
                    });
                    if !same(&got, &mut rest.iter()) {
                        return bad("fold", format!("{:?}", got), format!("{:?}", rest));
                    }
                }
                Fin::Count => {
                    let got = it.count();
                    if got != rest.len() {
                        return bad("count", got.to_string(), rest.len().to_string());
                    }
                }
                Fin::Last => {
                    let got = it.last();
                    if got.as_ref() != rest.last() {
                        return bad("last", format!("{:?}", got), format!("{:?}", rest.last()));
                    }
                }
                Fin::ForEach => {
                    let mut got: Vec<I::Item> = Vec::new();
                    it.for_each(|x| got.push(x));
                    if !same(&got, &mut rest.iter()) {
                        return bad("for_each", format!("{:?}", got), format!("{:?}", rest));
                    }
                }
                Fin::Skip(k) => {
                    let got: Vec<I::Item> = it.skip(k).collect();
                    if !same(&got, &mut rest.iter().skip(k)) {
                        return bad("skip", format!("{:?}", got), format!("{:?}", rest.iter().skip(k).collect::<Vec<_>>()));
                    }
                }
                Fin::StepBy(k) => {
                    let got: Vec<I::Item> = it.step_by(k).collect();
                    if !same(&got, &mut rest.iter().step_by(k)) {
                        return bad("step_by", format!("{:?}", got), format!("{:?}", rest.iter().step_by(k).collect::<Vec<_>>()));
                    }
                }
                Fin::NextLoop => {
                    let mut got: Vec<I::Item> = Vec::new();
                    while let Some(x) = it.next() {
                        got.push(x);
                        if got.len() > len + 2 {
                            break;
                        }
                    }
                    if !same(&got, &mut rest.iter()) {
                        return bad("next", format!("{:?}", got), format!("{:?}", rest));
                    }
                }
                Fin::Partition => {
                    // position-based split through `enumerate().partition` (fold-based)
                    let (a, b): (Vec<(usize, I::Item)>, Vec<(usize, I::Item)>) = it.enumerate().partition(|(i, _)| i % 2 == 0);
                    let ga: Vec<I::Item> = a.into_iter().map(|(_, x)| x).collect();
                    let gb: Vec<I::Item> = b.into_iter().map(|(_, x)| x).collect();
                    if !same(&ga, &mut rest.iter().step_by(2)) || !same(&gb, &mut rest.iter().skip(1).step_by(2)) {
                        return bad("enumerate_partition", format!("{:?} / {:?}", ga, gb), format!("{:?}", rest));
                    }
                }
            }
            Ok(())
        }));
        ran += 1;
        match res {
            Ok(Ok(())) => {}
            Ok(Err((what, detail))) => {
                rep.violation(&format!("iter|{}|{}", label, what), format!("{} ({} items in all): {}", label, len, detail), case.to_string());
                return ran;
            }
            Err(m) => {
                rep.violation(&format!("iter|{}|panic", label), format!("{} ({} items in all): script [{}] panicked: {}", label, len, script, m), case.to_string());
                return ran;
            }
        }
    }
    ran
}

/// `ExactSizeIterator::len()` equals the number of items still to come, at every point.
pub fn check_exact_size<I, M>(label: &str, case: &str, mk: M, rep: &mut Report) -> u64
where
    I: ExactSizeIterator,
    M: Fn() -> I,
{
    let res = vmon::catch(std::panic::AssertUnwindSafe(|| -> Result<u64, String> {
        let total = {
            let mut it = mk();
            let mut n = 0usize;
            while it.next().is_some() {
                n += 1;
                if n > LIMIT {
                    return Ok(0);
                }
            }
            n
        };
        let mut it = mk();
        for k in 0..=total {
            if it.len() != total - k {
                return Err(format!("after {} of {} items len() = {}", k, total, it.len()));
            }
            let _ = it.next();
        }
        if it.len() != 0 {
            return Err(format!("after the final None len() = {}", it.len()));
        }
        Ok(total as u64 + 1)
    }));
    match res {
        Ok(Ok(n)) => n,
        Ok(Err(d)) => {
            rep.violation(&format!("iter|{}|len|differs_from_remaining", label), format!("{}: {}", label, d), case.to_string());
            1
        }
        Err(m) => {
            rep.violation(&format!("iter|{}|len|panic", label), format!("{}: {}", label, m), case.to_string());
            1
        }
    }
}

/// Double-ended protocol: any interleaving of `next` / `next_back` / `nth_back` / `rfold` / `rev`
/// partitions the `next()`-driven reference from both ends.
pub fn check_double_ended<I, M>(label: &str, case: &str, mk: M, rep: &mut Report, rng: &mut Rng, n_scripts: usize) -> u64
where
    I: DoubleEndedIterator,
    I::Item: PartialEq + Debug,
    M: Fn() -> I,
{
    let r = match vmon::catch(std::panic::AssertUnwindSafe(|| reference(mk()))) {
        Ok(Some(r)) => r,
        _ => return 0,
    };
    let mut ran = 0;
    for _ in 0..n_scripts {
        let mut script = String::new();
        let res = vmon::catch(std::panic::AssertUnwindSafe(|| -> Result<(), (String, String)> {
            let mut it = mk();
            let (mut lo, mut hi) = (0usize, r.len()); // live window of the reference
            for _ in 0..rng.usize_below(4) {
                if lo >= hi {
                    break;
                }
                match rng.below(3) {
                    0 => {
                        script.push_str("next,");
                        let got = it.next();
                        if got.as_ref() != Some(&r[lo]) {
                            return Err(("next|after_back_steps".into(), format!("[{}]: {:?}, expected {:?}", script, got, r[lo])));
                        }
                        lo += 1;
                    }
                    1 => {
                        script.push_str("next_back,");
                        let got = it.next_back();
                        if got.as_ref() != Some(&r[hi - 1]) {
                            return Err(("next_back|differs_from_next_driven".into(), format!("[{}]: {:?}, expected {:?}", script, got, r[hi - 1])));
                        }
                        hi -= 1;
                    }
                    _ => {
                        let k = rng.usize_below(hi - lo + 1);
                        script.push_str(&format!("nth_back({}),", k));
                        let got = it.nth_back(k);
                        let want = if k < hi - lo { Some(&r[hi - 1 - k]) } else { None };
                        if got.as_ref() != want {
                            return Err(("nth_back|differs_from_next_driven".into(), format!("[{}]: {:?}, expected {:?}", script, got, want)));
                        }
                        if want.is_none() {
                            return Ok(());
                        }
                        hi -= k + 1;
                    }
                }
            }
            let rest = &r[lo..hi];
            if rng.bool() {
                script.push_str("rev().collect");
                let got: Vec<I::Item> = it.rev().collect();
                if got.len() != rest.len() || !got.iter().zip(rest.iter().rev()).all(|(a, b)| a == b) {
                    return Err(("rev|differs_from_next_driven".into(), format!("[{}]: {:?}, expected the reverse of {:?}", script, got, rest)));
                }
            } else {
                script.push_str("rfold");
                let got: Vec<I::Item> = it.rfold(Vec::new(), |mut v, x| {
                    v.push(x);
                    v
                });
                if got.len() != rest.len() || !got.iter().zip(rest.iter().rev()).all(|(a, b)| a == b) {
                    return Err(("rfold|differs_from_next_driven".into(), format!("[{}]: {:?}, expected the reverse of {:?}", script, got, rest)));
                }
            }
            Ok(())
        }));
        ran += 1;
        match res {
            Ok(Ok(())) => {}
            Ok(Err((what, detail))) => {
                rep.violation(&format!("iter|{}|{}", label, what), format!("{}: {}", label, detail), case.to_string());
                return ran;
            }
            Err(m) => {
                rep.violation(&format!("iter|{}|panic", label), format!("{}: double-ended script [{}] panicked: {}", label, script, m), case.to_string());
                return ran;
            }
        }
    }
    ran
}

/// A clone taken mid-stream continues exactly like the original.
pub fn check_clone<I, M>(label: &str, case: &str, mk: M, rep: &mut Report, rng: &mut Rng) -> u64
where
    I: Iterator + Clone,
    I::Item: PartialEq + Debug,
    M: Fn() -> I,
{
    let res = vmon::catch(std::panic::AssertUnwindSafe(|| -> Result<u64, String> {
        let r = match reference(mk()) {
            Some(r) => r,
            None => return Ok(0),
        };
        let at = rng.usize_below(r.len() + 1);
        let mut it = mk();
        for _ in 0..at {
            it.next();
        }
        let c = it.clone();
        let a: Vec<I::Item> = it.collect();
        let b: Vec<I::Item> = c.collect();
        if a != b || a.len() != r.len() - at || !a.iter().zip(&r[at..]).all(|(x, y)| x == y) {
            return Err(format!("clone at item {}: original continues {:?}, clone {:?}, reference {:?}", at, a, b, &r[at..]));
        }
        Ok(1)
    }));
    match res {
        Ok(Ok(n)) => n,
        Ok(Err(d)) => {
            rep.violation(&format!("iter|{}|clone|diverges", label), format!("{}: {}", label, d), case.to_string());
            1
        }
        Err(m) => {
            rep.violation(&format!("iter|{}|clone|panic", label), format!("{}: {}", label, m), case.to_string());
            1
        }
    }
}

/// Like `Iterator::map`, but forwarding `nth`, `count`, `last`, `fold` and `size_hint` to the
/// inner iterator's own implementations (std's `Map` answers `nth` with repeated `next`), so that
/// iterators whose items cannot be compared directly (`&mut T`, nested iterators) can still be
/// put through `check_iter` via a projection.
#[derive(Clone)]
pub struct Forward<I, F>(pub I, pub F);
impl<I: Iterator, B, F: FnMut(I::Item) -> B> Iterator for Forward<I, F> {
    type Item = B;
    fn next(&mut self) -> Option<B> {
        self.0.next().map(&mut self.1)
    }
    fn nth(&mut self, n: usize) -> Option<B> {
        self.0.nth(n).map(&mut self.1)
    }
    fn size_hint(&self) -> (usize, Option<usize>) {
        self.0.size_hint()
    }
    fn count(self) -> usize {
        self.0.count()
    }
    fn last(self) -> Option<B> {
        let Forward(i, mut f) = self;
        i.last().map(|x| f(x))
    }
    fn fold<A, G: FnMut(A, B) -> A>(self, init: A, mut g: G) -> A {
        let Forward(i, mut f) = self;
        i.fold(init, move |a, x| g(a, f(x)))
    }
}

impl<I: DoubleEndedIterator, B, F: FnMut(I::Item) -> B> DoubleEndedIterator for Forward<I, F> {
    fn next_back(&mut self) -> Option<B> {
        self.0.next_back().map(&mut self.1)
    }
    fn nth_back(&mut self, n: usize) -> Option<B> {
        self.0.nth_back(n).map(&mut self.1)
    }
    fn rfold<A, G: FnMut(A, B) -> A>(self, init: A, mut g: G) -> A {
        let Forward(i, mut f) = self;
        i.rfold(init, move |a, x| g(a, f(x)))
    }
}
/// constructor that lets the closure's parameter type be inferred from the iterator
pub fn forward<I: Iterator, B, F: FnMut(I::Item) -> B>(i: I, f: F) -> Forward<I, F> {
    Forward(i, f)
}

#[cfg(test)]
mod tests {
    use super::*;

    /// an iterator with the C03d-style defect: fold ignores the position
    struct BadFold {
        v: Vec<i32>,
        i: usize,
    }
    impl Iterator for BadFold {
        type Item = i32;
        fn next(&mut self) -> Option<i32> {
            let x = self.v.get(self.i).copied();
            self.i += 1;
            x
        }
        fn fold<B, F: FnMut(B, i32) -> B>(self, init: B, f: F) -> B {
            self.v.into_iter().fold(init, f)
        }
    }

    #[test]
    fn good_iterator_is_silent_bad_fold_is_flagged() {
        let mut rep = Report::new("T", "t");
        let mut rng = Rng::derive(1, &[1]);
        check_iter("vec", "c", || vec![1, 2, 3, 4, 5].into_iter(), &mut rep, &mut rng, 300);
        check_double_ended("vec", "c", || vec![1, 2, 3, 4, 5].into_iter(), &mut rep, &mut rng, 300);
        check_exact_size("vec", "c", || vec![1, 2, 3].into_iter(), &mut rep);
        check_clone("vec", "c", || vec![1, 2, 3].into_iter(), &mut rep, &mut rng);
        assert_eq!(rep.n_violations(), 0, "{:?}", rep.violations);
        check_iter("bad", "c", || BadFold { v: vec![1, 2, 3, 4], i: 0 }, &mut rep, &mut rng, 300);
        assert!(rep.n_violations() > 0);
    }
}
