// generated: int->float (24), float->int (24) and float<->float (2) conversions
macro_rules! for_int_to_float { ($m:ident) => {
    $m!(i8, f32, dasp_sample::conv::i8::to_f32);
    $m!(i8, f64, dasp_sample::conv::i8::to_f64);
    $m!(i16, f32, dasp_sample::conv::i16::to_f32);
    $m!(i16, f64, dasp_sample::conv::i16::to_f64);
    $m!(I24, f32, dasp_sample::conv::i24::to_f32);
    $m!(I24, f64, dasp_sample::conv::i24::to_f64);
    $m!(i32, f32, dasp_sample::conv::i32::to_f32);
    $m!(i32, f64, dasp_sample::conv::i32::to_f64);
    $m!(I48, f32, dasp_sample::conv::i48::to_f32);
    $m!(I48, f64, dasp_sample::conv::i48::to_f64);
    $m!(i64, f32, dasp_sample::conv::i64::to_f32);
    $m!(i64, f64, dasp_sample::conv::i64::to_f64);
    $m!(u8, f32, dasp_sample::conv::u8::to_f32);
    $m!(u8, f64, dasp_sample::conv::u8::to_f64);
    $m!(u16, f32, dasp_sample::conv::u16::to_f32);
    $m!(u16, f64, dasp_sample::conv::u16::to_f64);
    $m!(U24, f32, dasp_sample::conv::u24::to_f32);
    $m!(U24, f64, dasp_sample::conv::u24::to_f64);
    $m!(u32, f32, dasp_sample::conv::u32::to_f32);
    $m!(u32, f64, dasp_sample::conv::u32::to_f64);
    $m!(U48, f32, dasp_sample::conv::u48::to_f32);
    $m!(U48, f64, dasp_sample::conv::u48::to_f64);
    $m!(u64, f32, dasp_sample::conv::u64::to_f32);
    $m!(u64, f64, dasp_sample::conv::u64::to_f64);
}; }
macro_rules! for_float_to_int { ($m:ident) => {
    $m!(f32, i8, dasp_sample::conv::f32::to_i8);
    $m!(f32, i16, dasp_sample::conv::f32::to_i16);
    $m!(f32, I24, dasp_sample::conv::f32::to_i24);
    $m!(f32, i32, dasp_sample::conv::f32::to_i32);
    $m!(f32, I48, dasp_sample::conv::f32::to_i48);
    $m!(f32, i64, dasp_sample::conv::f32::to_i64);
    $m!(f32, u8, dasp_sample::conv::f32::to_u8);
    $m!(f32, u16, dasp_sample::conv::f32::to_u16);
    $m!(f32, U24, dasp_sample::conv::f32::to_u24);
    $m!(f32, u32, dasp_sample::conv::f32::to_u32);
    $m!(f32, U48, dasp_sample::conv::f32::to_u48);
    $m!(f32, u64, dasp_sample::conv::f32::to_u64);
    $m!(f64, i8, dasp_sample::conv::f64::to_i8);
    $m!(f64, i16, dasp_sample::conv::f64::to_i16);
    $m!(f64, I24, dasp_sample::conv::f64::to_i24);
    $m!(f64, i32, dasp_sample::conv::f64::to_i32);
    $m!(f64, I48, dasp_sample::conv::f64::to_i48);
    $m!(f64, i64, dasp_sample::conv::f64::to_i64);
    $m!(f64, u8, dasp_sample::conv::f64::to_u8);
    $m!(f64, u16, dasp_sample::conv::f64::to_u16);
    $m!(f64, U24, dasp_sample::conv::f64::to_u24);
    $m!(f64, u32, dasp_sample::conv::f64::to_u32);
    $m!(f64, U48, dasp_sample::conv::f64::to_u48);
    $m!(f64, u64, dasp_sample::conv::f64::to_u64);
}; }
