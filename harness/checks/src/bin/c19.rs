//! C19 — rectifiers and envelope follower: |x| and one-pole smoothing without overshoot.
//!
//! Rectifiers against |spec signed amplitude| / max / min about equilibrium for every value of the
//! 8- and 16-bit formats (structured + random for wider ones). Envelope: per step, from the
//! *observed* previous output l and the detector output d (taken from a second, identical detector
//! fed the same frames): out == d + g (l - d) with g = exp(-1/frames) (0 for 0 frames), attack iff
//! l < d; between l and d; equal to d when the time is 0; monotone convergence on constant input;
//! mid-stream changes of attack/release take effect from the next frame on.

use checks::*;
use dasp_envelope::{Detect, Detector};
use dasp_frame::Frame;
use dasp_peak as peak;
use dasp_ring_buffer::Fixed;
use dasp_rms::Rms;
use dasp_sample::{Sample, I24, I48, U24, U48};
use dasp_signal::envelope::SignalEnvelope;
use dasp_signal::Signal;
use std::cell::Cell;
use std::rc::Rc;
use std::time::Instant;
use vmon::spec;
use vmon::{Cli, Report, Rng, J};

thread_local! {
    static EVALS: Cell<u64> = const { Cell::new(0) };
    static ATTACKS: Cell<u64> = const { Cell::new(0) };
    static RELEASES: Cell<u64> = const { Cell::new(0) };
    static ZERO_TIME: Cell<u64> = const { Cell::new(0) };
    static NEG_ZERO_TIME: Cell<u64> = const { Cell::new(0) };
    static ULP_GLIDES: Cell<u64> = const { Cell::new(0) };
    static MIDSTREAM: Cell<u64> = const { Cell::new(0) };
}
fn ev(n: u64) {
    EVALS.with(|c| c.set(c.get() + n));
}
fn bump(c: &'static std::thread::LocalKey<Cell<u64>>) {
    c.with(|c| c.set(c.get() + 1));
}

/// amplitude view of a sample: signed amplitude / half-range for ints, the value for floats
fn view<S: AnyS>(s: S) -> f64 {
    match s.val() {
        Val::F(x) => x,
        Val::I(raw) => {
            let f = S::INT.unwrap();
            spec::int_to_f64(f, raw)
        }
    }
}
fn lsb<S: AnyS>() -> f64 {
    match S::INT {
        Some(f) => spec::pow2(-((f.bits - 1) as i32)),
        None => 0.0,
    }
}
/// unit roundoff of the float companion of S
fn u_companion<S: AnyS>() -> f64
where
    S::Float: AnyS,
{
    if <S::Float as AnyS>::FLOAT_P == 24 {
        5.960_464_477_539_063e-8
    } else {
        1.110_223_024_625_156_5e-16
    }
}

// ------------------------------------------------------------------ rectifiers
fn check_rect_value<S: AnyS>(rep: &mut Report, s: S) -> bool
where
    S::Signed: AnyS,
{
    let case = || format!("kind=rect;fmt={};v={:?}", S::NAME, s.val());
    ev(3);
    // channel-wise on frames of width 1 (the sample itself), 2 and 5 with distinct neighbours
    let other = S::distinct(3);
    // expectation for full-wave; None when the negated amplitude is not representable (signed
    // minimum), which the statement excludes - full_wave is then not called at all
    let want_fw: Option<S::Signed> = match (S::INT, s.val()) {
        (Some(f), Val::I(raw)) => {
            let sf = <S::Signed as AnyS>::INT.unwrap();
            let a = spec::int_to_int(f, sf, raw);
            if a == sf.min() {
                None
            } else {
                Some(<S::Signed as AnyS>::from_val(Val::I(a.abs())))
            }
        }
        (None, Val::F(x)) => Some(<S::Signed as AnyS>::from_val(Val::F(x.abs()))),
        _ => unreachable!(),
    };
    if let Some(want_fw) = want_fw {
        let fw1 = peak::full_wave([s])[0];
        let fw2 = peak::full_wave([s, other]);
        let fw5 = peak::full_wave([other, other, s, other, other]);
        // numeric comparison: full_wave(-0.0) == -0.0 is |x| as a number
        if view(fw1) != view(want_fw) || view(fw2[0]) != view(want_fw) || view(fw5[2]) != view(want_fw) {
            rep.violation(&format!("rect|full_wave|{}|not_absolute_amplitude", S::NAME), format!("full_wave({:?}) = {:?} / {:?} / {:?}, expected |signed amplitude| = {:?}", s, fw1, fw2, fw5, want_fw), case());
            return false;
        }
    }
    let ph1 = peak::positive_half_wave([s])[0];
    let ph2 = peak::positive_half_wave([other, s]);
    let nh1 = peak::negative_half_wave([s])[0];
    let nh5 = peak::negative_half_wave([s, other, other, other, s]);
    let eq = S::EQUILIBRIUM;
    let want_ph = if s < eq { eq } else { s };
    let want_nh = if s > eq { eq } else { s };
    // independent statement of "limited to the upper / lower side of equilibrium" by amplitude
    let (v, ve) = (view(s), view(eq));
    if (view(want_ph) - v.max(ve)).abs() != 0.0 || (view(want_nh) - v.min(ve)).abs() != 0.0 {
        rep.violation("rect|oracle_inconsistent", "internal".to_string(), case());
        return false;
    }
    if !ph1.same(want_ph) || !ph2[1].same(want_ph) || !ph2[0].same(if other < eq { eq } else { other }) {
        rep.violation(&format!("rect|positive_half_wave|{}|not_max_with_equilibrium", S::NAME), format!("positive_half_wave({:?}) = {:?} / {:?}, expected {:?}", s, ph1, ph2, want_ph), case());
        return false;
    }
    if !nh1.same(want_nh) || !nh5[0].same(want_nh) || !nh5[4].same(want_nh) {
        rep.violation(&format!("rect|negative_half_wave|{}|not_min_with_equilibrium", S::NAME), format!("negative_half_wave({:?}) = {:?} / {:?}, expected {:?}", s, nh1, nh5, want_nh), case());
        return false;
    }
    true
}

fn check_rect_int<S: AnyS + IntS>(rep: &mut Report, seed: u64, n_random: u64)
where
    S::Signed: AnyS,
{
    let f = S::FMT;
    if f.bits <= 16 {
        let mut raw = f.min();
        while raw <= f.max() {
            if !check_rect_value::<S>(rep, <S as IntS>::from_raw(raw)) {
                return;
            }
            raw += 1;
        }
        rep.exhaustive(format!("rectifiers: every value of {}", f.name));
        rep.nontrivial_by_construction((f.max() - f.min()) as u64 - 2);
    } else {
        let mut rng = Rng::derive(seed, &[19, f.bits as u64, f.signed as u64]);
        for raw in spec::structured_values(f, 64, 4) {
            if !check_rect_value::<S>(rep, <S as IntS>::from_raw(raw)) {
                return;
            }
        }
        for _ in 0..n_random {
            let raw = rng.range_i128(f.min(), f.max());
            if !check_rect_value::<S>(rep, <S as IntS>::from_raw(raw)) {
                return;
            }
            rep.nontrivial(vmon::hash_combine(f.bits as u64 * 2 + f.signed as u64, raw as u64));
        }
    }
}

// ------------------------------------------------------------------ envelope
fn gain_ref(frames: f32) -> f64 {
    if frames == 0.0 {
        0.0
    } else {
        ((-1.0f32 / frames) as f64).exp()
    }
}

#[derive(Clone, Debug)]
struct Sched {
    attack: f32,
    release: f32,
    /// (step, new attack, new release) changes applied before that step's frame
    changes: Vec<(usize, f32, f32)>,
}

struct EnvCx<'a> {
    rep: &'a mut Report,
    label: String,
    case: String,
}

/// One envelope run. `mk` builds a fresh detect stage (called twice: detector + reference).
fn run_env<F, D>(cx: &mut EnvCx, mk: &dyn Fn() -> D, frames: &[F], sched: &Sched, constant_input: bool, via_adaptor: bool) -> bool
where
    F: Frame + std::fmt::Debug + 'static,
    D: Detect<F> + 'static,
    D::Output: std::fmt::Debug,
    <D::Output as Frame>::Sample: AnyS,
    <<D::Output as Frame>::Sample as Sample>::Float: AnyS,
{
    type OS<F, D> = <<D as Detect<F>>::Output as Frame>::Sample;
    macro_rules! fail {
        ($what:expr, $($fmt:tt)*) => {{
            cx.rep.violation(&format!("envelope|{}|{}", cx.label, $what), format!("{} (attack {} release {} changes {:?})", format!($($fmt)*), sched.attack, sched.release, sched.changes), cx.case.clone());
            return false;
        }};
    }
    let nch = <D::Output as Frame>::CHANNELS;
    let mut reference = mk();
    let (mut att, mut rel) = (sched.attack, sched.release);
    let mut last: D::Output = <D::Output as Frame>::EQUILIBRIUM;
    let mut prev_dist: Vec<f64> = vec![f64::INFINITY; nch];
    // absolute term for the underflow range of the float companion (rounding there is absolute)
    let eta = if u_companion::<OS<F, D>>() > 1e-10 { spec::pow2(-149) } else { spec::pow2(-1074) };
    let tau_of = |lv: f64, dv: f64| -> f64 { 8.0 * u_companion::<OS<F, D>>() * lv.abs().max(dv.abs()) + spec::pow2(-21) * (lv - dv).abs() + 2.0 * lsb::<OS<F, D>>() + 8.0 * eta };

    enum Dev<F: Frame + 'static, D: Detect<F> + 'static> {
        Det(Detector<F, D>),
        Sig(dasp_signal::envelope::DetectEnvelope<USource<F>, D>, Rc<Probe>),
    }
    let mut dev: Dev<F, D> = if via_adaptor {
        let probe = Probe::new();
        let src = USource::finite(Rc::new(frames.to_vec()), probe.clone());
        Dev::Sig(src.detect_envelope(Detector::new(mk(), att, rel)), probe)
    } else {
        Dev::Det(Detector::new(mk(), att, rel))
    };
    let mut ci = 0usize; // the schedule's changes are in step order
    for (step, fr) in frames.iter().enumerate() {
        while ci < sched.changes.len() && sched.changes[ci].0 <= step {
            let (at, a, r) = &sched.changes[ci];
            ci += 1;
            if *at == step {
                att = *a;
                rel = *r;
                match &mut dev {
                    Dev::Det(d) => {
                        d.set_attack_frames(att);
                        d.set_release_frames(rel);
                    }
                    Dev::Sig(s, _) => {
                        s.set_attack_frames(att);
                        s.set_release_frames(rel);
                    }
                }
                bump(&MIDSTREAM);
            }
        }
        let d: D::Output = reference.detect(*fr);
        let out: D::Output = match &mut dev {
            Dev::Det(det) => det.next(*fr),
            Dev::Sig(s, probe) => {
                if s.is_exhausted() {
                    fail!("adaptor_exhausted_early", "step {}", step);
                }
                let o = s.next();
                if probe.pulls() != step as u64 + 1 {
                    fail!("adaptor_pull_count", "after {} outputs the source was pulled {} times", step + 1, probe.pulls());
                }
                o
            }
        };
        let (g_att, g_rel) = (gain_ref(att), gain_ref(rel));
        for c in 0..nch {
            let (l_s, d_s, o_s) = (*last.channel(c).unwrap(), *d.channel(c).unwrap(), *out.channel(c).unwrap());
            let (lv, dv, ov) = (view(l_s), view(d_s), view(o_s));
            let attack = l_s < d_s;
            let (g, frames_used) = if attack { (g_att, att) } else { (g_rel, rel) };
            if attack {
                bump(&ATTACKS);
            } else {
                bump(&RELEASES);
            }
            let tau = tau_of(lv, dv);
            let want = dv + g * (lv - dv);
            if !ov.is_finite() {
                fail!("not_finite", "step {} channel {}: {:?}", step, c, o_s);
            }
            if frames_used == 0.0 {
                bump(&ZERO_TIME);
                if frames_used.is_sign_negative() {
                    bump(&NEG_ZERO_TIME);
                }
                if !o_s.same(d_s) && ov != dv {
                    fail!("zero_time_not_equal_to_detected", "step {} channel {}: out {:?}, detected {:?} with {} time 0", step, c, o_s, d_s, if attack { "attack" } else { "release" });
                }
            }
            if (ov - want).abs() > tau {
                let other = dv + (if attack { g_rel } else { g_att }) * (lv - dv);
                let what = if (ov - other).abs() <= tau && (want - other).abs() > 4.0 * tau { "attack_release_swapped" } else { "not_one_pole_step" };
                fail!(what, "step {} channel {}: previous {:e}, detected {:e}, {} gain {:e}: out {:e}, expected {:e} (tolerance {:e})", step, c, lv, dv, if attack { "attack" } else { "release" }, g, ov, want, tau);
            }
            if ov < lv.min(dv) - tau || ov > lv.max(dv) + tau {
                fail!("overshoot", "step {} channel {}: out {:e} outside [previous {:e}, detected {:e}]", step, c, ov, lv, dv);
            }
            if constant_input && step > 0 {
                let dist = (ov - dv).abs();
                if dist > prev_dist[c] + tau {
                    fail!("not_monotone_on_constant_input", "step {} channel {}: |out - detected| grew from {:e} to {:e}", step, c, prev_dist[c], dist);
                }
                prev_dist[c] = dist;
            } else if constant_input {
                prev_dist[c] = (ov - dv).abs();
            }
        }
        last = out;
        ev(nch as u64);
    }
    if let Dev::Sig(s, _) = dev {
        if !s.is_exhausted() {
            fail!("adaptor_not_exhausted", "source drained but adaptor not exhausted");
        }
        let (_src, _det) = s.into_parts();
    }
    true
}

trait Mk: AnyS {
    fn from_amp(a: f64) -> Self;
}
macro_rules! mk_int {
    ($($T:ty),*) => {$(
        impl Mk for $T {
            fn from_amp(a: f64) -> Self {
                let f = <$T as IntS>::FMT;
                let half = f.half() as f64;
                // never the signed minimum (its negated amplitude is not representable)
                let v = (a * half).trunc().clamp(-(half - 1.0), half - 1.0) as i128;
                <$T as IntS>::from_raw(f.from_amp(v))
            }
        }
    )*};
}
mk_int!(i16, u8, I24, i32);
impl Mk for f32 {
    fn from_amp(a: f64) -> Self {
        a as f32
    }
}
impl Mk for f64 {
    fn from_amp(a: f64) -> Self {
        a
    }
}

const PATTERNS: [&str; 8] = ["random", "constant", "step_up_down", "bursts", "decay", "alternating", "loud_quiet_silence_short", "loud_quiet_silence_long"];
/// "loud, quiet, digital silence, quiet": one loud frame, then frames ~2^15 times smaller (their
/// squares vanish in the rounding of a running sum that still holds the loud square), then
/// exactly-zero frames, then quiet input again - with period `p`, quiet run `q`, silent run `z`
fn loud_quiet_silence(i: usize, p: usize, q: usize, z: usize) -> f64 {
    let k = i % p;
    if k == 0 {
        0.9
    } else if k <= q {
        2e-5 * (1.0 + (k % 3) as f64 / 8.0)
    } else if k <= q + z {
        0.0
    } else {
        5e-5
    }
}
fn amp(p: &str, i: usize, n: usize, rng: &mut Rng) -> f64 {
    match p {
        "loud_quiet_silence_short" => loud_quiet_silence(i, 16, 6, 3),
        "loud_quiet_silence_long" => loud_quiet_silence(i, 220, 80, 10),
        "random" => rng.f64_in(-0.99, 0.99),
        "constant" => 0.61,
        "step_up_down" => {
            if (i / (n / 4).max(1)) % 2 == 0 {
                0.05
            } else {
                -0.9
            }
        }
        "bursts" => {
            if (i / 9) % 3 == 0 {
                rng.f64_in(-0.99, 0.99)
            } else {
                rng.f64_in(-0.01, 0.01)
            }
        }
        "decay" => 0.95 * (0.97f64).powi(i as i32) * if i % 2 == 0 { 1.0 } else { -1.0 },
        _ => {
            if i % 2 == 0 {
                0.8
            } else {
                -0.8
            }
        }
    }
}

/// clone() / clone_from() of an envelope detector mid-stream (parameters changed on the way)
fn clone_conformance(rep: &mut Report, seed: u64) {
    let mut rng = Rng::derive(seed, &[192]);
    let mut n = 0;
    let frame = |i: u64| -> [f32; 2] {
        let x = ((i * 37 % 101) as f32 - 50.0) / 64.0;
        [x, -0.5 * x]
    };
    {
        let mk = |v: u64| Detector::new(dasp_envelope::detect::Peak::full_wave(), 3.0 + v as f32, 5.0);
        let step = |d: &mut Detector<[f32; 2], dasp_envelope::detect::Peak<peak::FullWave>>, i: u64| {
            if i % 13 == 12 {
                d.set_attack_frames(1.0 + (i % 5) as f32);
                d.set_release_frames(2.0 + (i % 3) as f32);
            }
            let o = d.next(frame(i));
            [o[0].to_bits(), o[1].to_bits()]
        };
        n += checks::cloneconf::check_clone_state("detector_peak", "kind=clone;det=peak", mk, step, rep, &mut rng, 24, 30, 12);
    }
    {
        let mk = |v: u64| Detector::new(Rms::<[f32; 2], Vec<[f32; 2]>>::new(Fixed::from_raw_parts((v as usize + 1) % 4, vec![[0.0f32; 2]; 4])), 2.0 + v as f32, 7.0);
        let step = |d: &mut Detector<[f32; 2], Rms<[f32; 2], Vec<[f32; 2]>>>, i: u64| {
            if i % 11 == 10 {
                d.set_release_frames(1.0 + (i % 4) as f32);
            }
            let o = d.next(frame(i));
            [o[0].to_bits(), o[1].to_bits()]
        };
        n += checks::cloneconf::check_clone_state("detector_rms", "kind=clone;det=rms", mk, step, rep, &mut rng, 24, 30, 12);
    }
    rep.eval(n);
    rep.hit_n("clone_conformance_scripts", n);
}

/// Unrelated detectors constructed and re-parameterised on all cores AT THE SAME TIME, with times
/// from a small pool so that different threads keep asking for different and for equal times:
/// every detector must use the gains of ITS OWN times (anything shared between detectors - a
/// process-wide cache - shows as a gain that belongs to another thread's request). Each
/// iteration: new(attack, release), one attack step (0 -> 1), one release step (-> 0), then the
/// release time re-sent unchanged and another release step.
fn concurrent_detectors(rep: &mut Report, seed: u64, threads: usize, iters: u64) {
    let pool = [0.5f32, 1.0, 2.0, 3.0, 5.0, 8.0, 13.0, 64.0];
    let reps = vmon::par_for(threads, threads as u64, 1, |_| Report::new("C19", "w"), |rep, t| {
        let mut rng = Rng::derive(seed, &[193, t]);
        for i in 0..iters {
            let (a, r) = (pool[rng.usize_below(pool.len())], pool[rng.usize_below(pool.len())]);
            let (ga, gr) = (gain_ref(a), gain_ref(r));
            let mut d = Detector::new(dasp_envelope::detect::Peak::full_wave(), a, r);
            let o1 = d.next(1.0f32) as f64;
            let w1 = 1.0 + ga * (0.0 - 1.0);
            let o2 = d.next(0.0f32) as f64;
            let w2 = gr * o1;
            d.set_release_frames(r);
            let o3 = d.next(0.0f32) as f64;
            let w3 = gr * o2;
            let tol = 4e-7;
            if (o1 - w1).abs() > tol || (o2 - w2).abs() > tol || (o3 - w3).abs() > tol {
                rep.violation("envelope|concurrent_detectors|gain_of_another_request", format!("thread {} iteration {}: attack {} release {}: outputs {:e} {:e} {:e}, the one-pole steps with gains exp(-1/{}) = {:e} and exp(-1/{}) = {:e} give {:e} {:e} {:e}", t, i, a, r, o1, o2, o3, a, ga, r, gr, w1, w2, w3), format!("kind=concurrent;seed={};threads={};iters={}", seed, threads, iters));
                break;
            }
        }
        rep.eval(3 * iters);
        rep.hit("detectors_parameterised_concurrently");
    });
    for r in reps {
        rep.merge(r);
    }
}

fn sched_for(rng: &mut Rng, n: usize, which: usize) -> Sched {
    // non-negative times, including the IEEE corner cases a `== 0.0` / `>= 0.0` guard meets:
    // negative zero (equal to zero, satisfies >= 0), subnormals, the smallest normal, huge values
    let times = [0.0f32, 0.5, 1.0, 3.0, 10.0, 64.0, 1000.0, 0.01, -0.0, f32::from_bits(1), f32::MIN_POSITIVE, 1e-30, f32::EPSILON, 1e30, f32::MAX, 0.0];
    let pick = |rng: &mut Rng| times[rng.usize_below(times.len())];
    let (mut a, mut r) = (pick(rng), pick(rng));
    while a == r {
        r = pick(rng);
    }
    if which % 4 == 0 {
        a = 0.0;
    }
    if which % 4 == 1 {
        r = 0.0;
        if a == 0.0 {
            a = 3.0;
        }
    }
    let mut changes = Vec::new();
    if which % 2 == 0 {
        let mut a2 = pick(rng);
        let mut r2 = pick(rng);
        while a2 == r2 {
            r2 = pick(rng);
        }
        changes.push((n / 3, a2, r2));
        a2 = pick(rng);
        changes.push((2 * n / 3, a2, if a2 == r2 { r2 + 1.0 } else { r2 }));
    }
    // a glide: attack and release move by ONE ULP before every frame (slow automation). A setter
    // that treats "within rounding of the last request" as "unchanged" never refreshes its gain.
    if which % 4 == 3 {
        let (a0, r0) = (if a < 0.5 || a > 1e6 { 1.0f32 } else { a }, if r < 0.5 || r > 1e6 { 2.0f32 } else { r });
        a = a0;
        r = r0;
        changes = (1..n).map(|k| (k, f32::from_bits(a0.to_bits() + k as u32), f32::from_bits(r0.to_bits() - k as u32))).collect();
        ULP_GLIDES.with(|c| c.set(c.get() + 1));
    }
    Sched { attack: a, release: r, changes }
}

fn one<F>(rep: &mut Report, fname: &'static str, det: usize, pattern: &'static str, n: usize, seed: u64, which: usize)
where
    F: Frame + std::fmt::Debug + 'static,
    F::Sample: Mk,
    <F::Sample as Sample>::Signed: AnyS,
    <F::Sample as Sample>::Float: AnyS,
    <<F::Sample as Sample>::Signed as Sample>::Float: AnyS,
    <<F::Sample as Sample>::Float as Sample>::Float: AnyS,
    F::Signed: std::fmt::Debug,
    F::Float: std::fmt::Debug,
{
    let mut rng = Rng::derive(seed, &[19, vmon::hash_str(fname), det as u64, vmon::hash_str(pattern), which as u64]);
    let frames: Vec<F> = (0..n).map(|i| F::from_fn(|c| <F::Sample as Mk>::from_amp(amp(pattern, i + c * 3, n, &mut rng) * if c % 2 == 1 { -0.5 } else { 1.0 }))).collect();
    let sched = sched_for(&mut rng, n, which);
    let constant = pattern == "constant" && sched.changes.is_empty();
    let via = which % 3 == 0;
    let dets = ["peak_full", "peak_pos", "peak_neg", "rms1", "rms4", "rms64"];
    let label = format!("{}|{}", fname, dets[det]);
    let case = format!("kind=env;fmt={};ch={};det={};pattern={};n={};seed={};which={}", fname, F::CHANNELS, det, pattern, n, seed, which);
    let mut cx = EnvCx { rep, label, case };
    let r = vmon::catch(std::panic::AssertUnwindSafe(|| match det {
        0 => run_env::<F, _>(&mut cx, &|| dasp_envelope::detect::Peak::full_wave(), &frames, &sched, constant, via),
        1 => run_env::<F, _>(&mut cx, &|| dasp_envelope::detect::Peak::positive_half_wave(), &frames, &sched, constant, via),
        2 => run_env::<F, _>(&mut cx, &|| dasp_envelope::detect::Peak::negative_half_wave(), &frames, &sched, constant, via),
        // RMS windows are handed over at a rotation derived from the case (zeroed, but not
        // necessarily starting at physical slot 0)
        3 => run_env::<F, _>(&mut cx, &|| Rms::<F, Vec<F::Float>>::new(Fixed::from(vec![<F::Float as Frame>::EQUILIBRIUM; 1])), &frames, &sched, false, via),
        4 => run_env::<F, _>(&mut cx, &|| Rms::<F, Vec<F::Float>>::new(Fixed::from_raw_parts((n + which) % 4, vec![<F::Float as Frame>::EQUILIBRIUM; 4])), &frames, &sched, false, via),
        _ => run_env::<F, _>(&mut cx, &|| Rms::<F, Vec<F::Float>>::new(Fixed::from_raw_parts((n + 7 * which) % 64, vec![<F::Float as Frame>::EQUILIBRIUM; 64])), &frames, &sched, false, via),
    }));
    if let Err(m) = r {
        let (label, case) = (cx.label.clone(), cx.case.clone());
        cx.rep.violation(&format!("envelope|{}|panic", label), m, case);
    }
}

macro_rules! env_types {
    ($m:ident) => {
        $m!("f32", f32);
        $m!("f64", f64);
        $m!("i16", i16);
        $m!("u8", u8);
        $m!("I24", I24);
        $m!("i32", i32);
    };
}
const FNAMES: [&str; 6] = ["f32", "f64", "i16", "u8", "I24", "i32"];

fn run_any(rep: &mut Report, fname: &str, ch: usize, det: usize, pattern: &'static str, n: usize, seed: u64, which: usize) {
    macro_rules! go {
        ($name:expr, $S:ty) => {
            if fname == $name {
                if ch == 1 {
                    one::<[$S; 1]>(rep, $name, det, pattern, n, seed, which);
                } else {
                    one::<[$S; 2]>(rep, $name, det, pattern, n, seed, which);
                }
            }
        };
    }
    env_types!(go);
}

fn flush(rep: &mut Report) {
    rep.eval(EVALS.with(|c| c.replace(0)));
    rep.hit_n("attack_steps", ATTACKS.with(|c| c.replace(0)));
    rep.hit_n("release_steps", RELEASES.with(|c| c.replace(0)));
    rep.hit_n("zero_time_steps", ZERO_TIME.with(|c| c.replace(0)));
    rep.hit_n("negative_zero_time_steps", NEG_ZERO_TIME.with(|c| c.replace(0)));
    rep.hit_n("one_ulp_parameter_glides", ULP_GLIDES.with(|c| c.replace(0)));
    rep.hit_n("mid_stream_parameter_changes", MIDSTREAM.with(|c| c.replace(0)));
}

fn main() {
    let cli = Cli::parse();
    let t0 = Instant::now();
    let mut rep = Report::new("C19", &cli.stage);
    if let Some(cs) = &cli.case {
        let m = vmon::cli::parse_case(cs);
        if m["kind"] == "env" {
            let pattern: &'static str = PATTERNS.iter().copied().find(|p| *p == m["pattern"]).unwrap();
            run_any(&mut rep, &m["fmt"], m["ch"].parse().unwrap(), m["det"].parse().unwrap(), pattern, m["n"].parse().unwrap(), m["seed"].parse().unwrap(), m["which"].parse().unwrap());
        } else if m["kind"] == "concurrent" {
            concurrent_detectors(&mut rep, m["seed"].parse().unwrap(), m["threads"].parse().unwrap(), m["iters"].parse().unwrap());
        } else if m["kind"] == "clone" {
            clone_conformance(&mut rep, cli.seed);
        } else {
            rectifiers(&mut rep, cli.seed, 10_000);
        }
        flush(&mut rep);
        checks::finish(&cli, rep, t0);
    }
    rep.oblige("clone_conformance_scripts", 1);
    clone_conformance(&mut rep, cli.seed);
    rep.oblige("detectors_parameterised_concurrently", 2);
    concurrent_detectors(&mut rep, cli.seed, cli.threads.max(2), cli.t(300_000, 5_000_000));
    for o in ["attack_steps", "release_steps", "zero_time_steps", "negative_zero_time_steps", "one_ulp_parameter_glides", "mid_stream_parameter_changes"] {
        rep.oblige(o, 1);
    }
    rectifiers(&mut rep, cli.seed, cli.t(100_000, 3_000_000));
    flush(&mut rep);

    // envelope: format x channels x detector x pattern x schedule variant
    let mut jobs = Vec::new();
    let variants = cli.t(4usize, 400usize);
    for fi in 0..6 {
        for ch in [1usize, 2] {
            for det in 0..6 {
                for p in PATTERNS {
                    for w in 0..variants {
                        jobs.push((fi, ch, det, p, w));
                    }
                }
            }
        }
    }
    let n = cli.t(300usize, 4000usize);
    let reps = vmon::par_for(cli.threads, jobs.len() as u64, 8, |_| Report::new("C19", "w"), |rep, i| {
        let (fi, ch, det, p, w) = jobs[i as usize];
        run_any(rep, FNAMES[fi], ch, det, p, n, cli.seed.wrapping_add(w as u64), w);
        rep.nontrivial(vmon::hash_combine((fi * 100 + ch * 10 + det) as u64, vmon::hash_combine(vmon::hash_str(p), w as u64)));
        if rep.want_sample() && i % 331 == 0 {
            rep.sample(J::obj().set("format", J::s(FNAMES[fi])).set("channels", J::u(ch as u64)).set("detector", J::s(["peak_full", "peak_pos", "peak_neg", "rms1", "rms4", "rms64"][det])).set("pattern", J::s(p)).set("frames", J::u(n as u64)).set("variant", J::u(w as u64)));
        }
        flush(rep);
    });
    for r in reps {
        rep.merge(r);
    }
    flush(&mut rep);
    checks::finish(&cli, rep, t0);
}

fn rectifiers(rep: &mut Report, seed: u64, n_random: u64) {
    check_rect_int::<i8>(rep, seed, n_random);
    check_rect_int::<u8>(rep, seed, n_random);
    check_rect_int::<i16>(rep, seed, n_random);
    check_rect_int::<u16>(rep, seed, n_random);
    check_rect_int::<I24>(rep, seed, n_random);
    check_rect_int::<U24>(rep, seed, n_random);
    check_rect_int::<i32>(rep, seed, n_random);
    check_rect_int::<u32>(rep, seed, n_random);
    check_rect_int::<I48>(rep, seed, n_random);
    check_rect_int::<U48>(rep, seed, n_random);
    check_rect_int::<i64>(rep, seed, n_random);
    check_rect_int::<u64>(rep, seed, n_random);
    let mut rng = Rng::derive(seed, &[191]);
    let mut fl: Vec<f64> = vec![0.0, -0.0, 1.0, -1.0, 0.5, -0.5, 1e-300, -1e-300, 1e300, -1e300, f64::MIN_POSITIVE, -f64::MIN_POSITIVE];
    for _ in 0..n_random.min(200_000) {
        fl.push(rng.f64_in(-1.0, 1.0));
        fl.push(f64::from_bits(rng.u64() & 0xbfef_ffff_ffff_ffff));
    }
    for x in fl {
        if !x.is_finite() {
            continue;
        }
        if !check_rect_value::<f64>(rep, x) || ((x as f32).is_finite() && !check_rect_value::<f32>(rep, x as f32)) {
            return;
        }
        rep.nontrivial(vmon::hash_combine(0xf1, x.to_bits()));
    }
}
