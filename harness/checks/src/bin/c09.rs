//! C09 — graph processing runs exactly the upstream subgraph, once each, inputs first.
//!
//! Event-log monitor: every node is a `Probe` that appends {id, own buffers ptr, input ptrs} to a
//! shared log and writes  out = (id+1) + sum(first sample of each input)  into its buffers.
//! The oracle works from the harness's own edge list (no petgraph): ancestors by BFS over reversed
//! edges, expected input multiset per node, topological-order and functional-evaluation checks
//! when the upstream subgraph is acyclic, and sources()/sinks() over the live nodes.

use dasp_graph::{Buffer, Input, Node, NodeData, Processor};
use petgraph::graph::NodeIndex;
use petgraph::stable_graph::StableGraph;
use petgraph::Graph;
use std::cell::{Cell, RefCell};
use std::rc::Rc;
use std::time::Instant;
use vmon::{Cli, Report, Rng, J};

#[derive(Clone, Debug)]
#[allow(dead_code)]
struct Event {
    id: usize,
    own: (usize, usize),
    inputs: Vec<(usize, usize)>,
    in_sum: f64,
}
type Log = Rc<RefCell<Vec<Event>>>;

struct Probe {
    id: usize,
    log: Log,
    /// mutable state stored *inline* in the node weight (not behind a pointer): every process()
    /// call writes to it through `&mut self`, so a graph borrow that aliases the weight while the
    /// node runs is an access the aliasing model (Miri) can see
    calls: u64,
}
/// under Miri touching all 64 samples of every buffer costs seconds per call; in lean mode the
/// probes read/write only the first and last sample of each buffer (still through the same
/// Input slice / output reference, which is what the aliasing model watches)
static LEAN: std::sync::atomic::AtomicBool = std::sync::atomic::AtomicBool::new(false);
fn lean_mode() -> bool {
    LEAN.load(std::sync::atomic::Ordering::Relaxed)
}
thread_local! {
    /// id of the probe that panics at its next invocation (usize::MAX: none); disarms itself
    static PANIC_ID: Cell<usize> = const { Cell::new(usize::MAX) };
}
impl Node for Probe {
    fn process(&mut self, inputs: &[Input], output: &mut [Buffer]) {
        if PANIC_ID.with(|p| p.get()) == self.id {
            PANIC_ID.with(|p| p.set(usize::MAX));
            panic!("probe node {} fails in process (with {} inputs)", self.id, inputs.len());
        }
        self.calls += 1;
        let mut sum = 0.0f64;
        let mut ins = Vec::with_capacity(inputs.len());
        for i in inputs {
            let b = i.buffers();
            ins.push((b.as_ptr() as usize, b.len()));
            if let Some(first) = b.first() {
                // read the whole buffer (makes an aliasing or dangling input visible to Miri/ASan)
                if lean_mode() {
                    sum += (first[0] as f64 + first[Buffer::LEN - 1] as f64) / 2.0;
                } else {
                    let mut acc = 0.0f64;
                    for s in first.iter() {
                        acc += *s as f64;
                    }
                    sum += acc / Buffer::LEN as f64;
                }
            }
        }
        self.log.borrow_mut().push(Event { id: self.id, own: (output.as_ptr() as usize, output.len()), inputs: ins, in_sum: sum });
        let v = (self.id + 1) as f64 + sum;
        for buf in output.iter_mut() {
            if lean_mode() {
                buf[0] = v as f32;
                buf[Buffer::LEN - 1] = v as f32;
            } else {
                for s in buf.iter_mut() {
                    *s = v as f32;
                }
            }
        }
    }
}

type W = NodeData<Probe>;

trait Container: Sized {
    const NAME: &'static str;
    const STABLE: bool;
    fn new() -> Self;
    fn add_node(&mut self, w: W) -> NodeIndex;
    fn add_edge(&mut self, a: NodeIndex, b: NodeIndex);
    fn remove_node(&mut self, n: NodeIndex);
    fn weight(&self, n: NodeIndex) -> &W;
    fn weight_mut(&mut self, n: NodeIndex) -> &mut W;
    fn run(&mut self, p: &mut Processor<Self>, n: NodeIndex)
    where
        Self: petgraph::visit::Visitable;
    fn sources(&self) -> Vec<usize>;
    fn sinks(&self) -> Vec<usize>;
}
type G = Graph<W, (), petgraph::Directed, u32>;
type SG = StableGraph<W, (), petgraph::Directed, u32>;
impl Container for G {
    const NAME: &'static str = "Graph";
    const STABLE: bool = false;
    fn new() -> Self {
        Graph::new()
    }
    fn add_node(&mut self, w: W) -> NodeIndex {
        Graph::add_node(self, w)
    }
    fn add_edge(&mut self, a: NodeIndex, b: NodeIndex) {
        Graph::add_edge(self, a, b, ());
    }
    fn remove_node(&mut self, _n: NodeIndex) {
        unreachable!()
    }
    fn weight(&self, n: NodeIndex) -> &W {
        &self[n]
    }
    fn weight_mut(&mut self, n: NodeIndex) -> &mut W {
        &mut self[n]
    }
    fn run(&mut self, p: &mut Processor<Self>, n: NodeIndex) {
        p.process(self, n)
    }
    fn sources(&self) -> Vec<usize> {
        dasp_graph::sources(&self).map(|n| n.index()).collect()
    }
    fn sinks(&self) -> Vec<usize> {
        dasp_graph::sinks(&self).map(|n| n.index()).collect()
    }
}
impl Container for SG {
    const NAME: &'static str = "StableGraph";
    const STABLE: bool = true;
    fn new() -> Self {
        StableGraph::new()
    }
    fn add_node(&mut self, w: W) -> NodeIndex {
        StableGraph::add_node(self, w)
    }
    fn add_edge(&mut self, a: NodeIndex, b: NodeIndex) {
        StableGraph::add_edge(self, a, b, ());
    }
    fn remove_node(&mut self, n: NodeIndex) {
        StableGraph::remove_node(self, n);
    }
    fn weight(&self, n: NodeIndex) -> &W {
        &self[n]
    }
    fn weight_mut(&mut self, n: NodeIndex) -> &mut W {
        &mut self[n]
    }
    fn run(&mut self, p: &mut Processor<Self>, n: NodeIndex) {
        p.process(self, n)
    }
    fn sources(&self) -> Vec<usize> {
        dasp_graph::sources(&self).map(|n| n.index()).collect()
    }
    fn sinks(&self) -> Vec<usize> {
        dasp_graph::sinks(&self).map(|n| n.index()).collect()
    }
}

/// A graph description in the harness's own terms.
#[derive(Clone, Debug, Default)]
struct Desc {
    /// number of nodes added initially (ids 0..n)
    n: usize,
    /// buffers per node (0..=2)
    bufs: Vec<usize>,
    /// edges as (from, to), with multiplicity
    edges: Vec<(usize, usize)>,
    /// nodes removed after construction (stable graph only)
    removed: Vec<usize>,
    /// number of nodes re-added after the removals (they take over vacant slots)
    readd: usize,
    /// edges added after re-adding, in terms of *slot indices as returned by the container*
    late_edges: Vec<(usize, usize)>,
}
impl Desc {
    fn encode(&self) -> String {
        let e = |v: &Vec<(usize, usize)>| v.iter().map(|(a, b)| format!("{}>{}", a, b)).collect::<Vec<_>>().join(".");
        format!("n={};bufs={};edges={};removed={};readd={};late={}", self.n, self.bufs.iter().map(|b| b.to_string()).collect::<Vec<_>>().join("."), e(&self.edges), self.removed.iter().map(|b| b.to_string()).collect::<Vec<_>>().join("."), self.readd, e(&self.late_edges))
    }
    fn decode(m: &std::collections::BTreeMap<String, String>) -> Desc {
        let nums = |s: &str| -> Vec<usize> { s.split('.').filter(|x| !x.is_empty()).map(|x| x.parse().unwrap()).collect() };
        let edges = |s: &str| -> Vec<(usize, usize)> {
            s.split('.')
                .filter(|x| !x.is_empty())
                .map(|x| {
                    let (a, b) = x.split_once('>').unwrap();
                    (a.parse().unwrap(), b.parse().unwrap())
                })
                .collect()
        };
        Desc { n: m["n"].parse().unwrap(), bufs: nums(&m["bufs"]), edges: edges(&m["edges"]), removed: nums(&m["removed"]), readd: m["readd"].parse().unwrap(), late_edges: edges(&m["late"]) }
    }
}

thread_local! {
    static EVALS: Cell<u64> = const { Cell::new(0) };
    static CYCLIC: Cell<u64> = const { Cell::new(0) };
    static PARALLEL: Cell<u64> = const { Cell::new(0) };
    static VACANT: Cell<u64> = const { Cell::new(0) };
    static UNREACHED: Cell<u64> = const { Cell::new(0) };
    static VALUES: Cell<u64> = const { Cell::new(0) };
    static SELFLOOP: Cell<u64> = const { Cell::new(0) };
    static RECOVERED: Cell<u64> = const { Cell::new(0) };
    static REPATCHED: Cell<u64> = const { Cell::new(0) };
}
fn bump(c: &'static std::thread::LocalKey<Cell<u64>>) {
    c.with(|c| c.set(c.get() + 1));
}

struct Built<C: Container> {
    g: C,
    log: Log,
    /// live slot indices
    live: Vec<usize>,
    /// final edge multiset over slot indices (edges touching removed nodes are gone)
    edges: Vec<(usize, usize)>,
    slots: usize,
}

fn build<C: Container>(d: &Desc) -> Built<C> {
    let log: Log = Rc::new(RefCell::new(Vec::new()));
    let mut g = C::new();
    let mut live = Vec::new();
    for i in 0..d.n {
        let nb = d.bufs.get(i).copied().unwrap_or(1);
        let idx = g.add_node(NodeData::new(Probe { id: i, log: log.clone(), calls: 0 }, vec![Buffer::SILENT; nb]));
        assert_eq!(idx.index(), i);
        live.push(i);
    }
    let mut edges = Vec::new();
    for &(a, b) in &d.edges {
        g.add_edge(NodeIndex::new(a), NodeIndex::new(b));
        edges.push((a, b));
    }
    let mut slots = d.n;
    for &r in &d.removed {
        g.remove_node(NodeIndex::new(r));
        live.retain(|x| *x != r);
        edges.retain(|(a, b)| *a != r && *b != r);
    }
    for k in 0..d.readd {
        let id = d.n + k;
        let idx = g.add_node(NodeData::new(Probe { id: 0, log: log.clone(), calls: 0 }, vec![Buffer::SILENT; 1]));
        // the probe's id is its slot index
        g.weight_mut(idx).node.id = idx.index();
        let _ = id;
        live.push(idx.index());
        slots = slots.max(idx.index() + 1);
    }
    for &(a, b) in &d.late_edges {
        if live.contains(&a) && live.contains(&b) {
            g.add_edge(NodeIndex::new(a), NodeIndex::new(b));
            edges.push((a, b));
        }
    }
    live.sort_unstable();
    Built { g, log, live, edges, slots }
}

/// Check one process() call (plus sources/sinks) against the oracle.
fn check_process<C: Container + petgraph::visit::Visitable>(b: &mut Built<C>, proc_: &mut Processor<C>, out: usize, d: &Desc, call_no: usize, rep: &mut Report, lean: bool) -> bool {
    let case = || format!("container={};out={};calls={};{}", C::NAME, out, call_no + 1, d.encode());
    macro_rules! fail {
        ($what:expr, $($fmt:tt)*) => {{
            rep.violation(&format!("process|{}|{}", C::NAME, $what), format!("{} | graph {} out {} call #{}", format!($($fmt)*), d.encode(), out, call_no), case());
            return false;
        }};
    }
    let slots = b.slots;
    // ---- oracle: ancestors of `out` over reversed edges
    let mut preds: Vec<Vec<usize>> = vec![Vec::new(); slots];
    for &(u, v) in &b.edges {
        preds[v].push(u);
    }
    let mut anc = vec![false; slots];
    anc[out] = true;
    let mut stack = vec![out];
    while let Some(v) = stack.pop() {
        for &u in &preds[v] {
            if !anc[u] {
                anc[u] = true;
                stack.push(u);
            }
        }
    }
    // mark buffers of all live nodes with a sentinel so untouched nodes are recognisable
    let mut before: Vec<Option<f32>> = vec![None; slots];
    for &i in &b.live {
        let w = b.g.weight_mut(NodeIndex::new(i));
        if call_no == 0 {
            for buf in w.buffers.iter_mut() {
                if lean_mode() {
                    buf[0] = -((i + 1) as f32);
                    buf[Buffer::LEN - 1] = -((i + 1) as f32);
                } else {
                    for s in buf.iter_mut() {
                        *s = -((i + 1) as f32);
                    }
                }
            }
        }
        before[i] = w.buffers.first().map(|bf| bf[0]);
    }
    let ptrs: Vec<(usize, usize)> = (0..slots).map(|i| if b.live.contains(&i) { let w = b.g.weight(NodeIndex::new(i)); (w.buffers.as_ptr() as usize, w.buffers.len()) } else { (0, 0) }).collect();
    b.log.borrow_mut().clear();
    if lean {
        eprintln!("CASE {}", case());
    }
    if let Err(m) = vmon::catch(std::panic::AssertUnwindSafe(|| b.g.run(proc_, NodeIndex::new(out)))) {
        fail!("panic", "process panicked: {}", m);
    }
    let log = b.log.borrow().clone();
    bump(&EVALS);
    // 1. exactly the ancestors, each once
    let mut count = vec![0usize; slots];
    for e in &log {
        if e.id >= slots {
            fail!("unknown_node_invoked", "node id {}", e.id);
        }
        count[e.id] += 1;
    }
    for i in 0..slots {
        let want = if anc[i] { 1 } else { 0 };
        if count[i] != want {
            let what = if count[i] > want && want == 1 { "node_invoked_more_than_once" } else if count[i] > want { "node_outside_upstream_invoked" } else { "upstream_node_not_invoked" };
            fail!(what, "node {} invoked {} times, expected {} (invocation order {:?})", i, count[i], want, log.iter().map(|e| e.id).collect::<Vec<_>>());
        }
    }
    // 2. inputs: one per incoming edge from a different node, referring to that node's buffers
    for e in &log {
        let mut want: Vec<(usize, usize)> = preds[e.id].iter().filter(|u| **u != e.id).map(|u| ptrs[*u]).collect();
        let mut got = e.inputs.clone();
        want.sort_unstable();
        got.sort_unstable();
        if got != want {
            let what = if got.len() < want.len() { "missing_input" } else if got.len() > want.len() { "extra_input" } else { "input_refers_to_wrong_buffers" };
            fail!(what, "node {} saw inputs {:x?}, expected {:x?} (one per incoming edge from {:?})", e.id, got, want, preds[e.id]);
        }
        if e.own != ptrs[e.id] {
            fail!("own_buffers_mismatch", "node {} was given output {:x?}, its buffers are {:x?}", e.id, e.own, ptrs[e.id]);
        }
        if e.own.1 > 0 && e.inputs.iter().any(|p| p.1 > 0 && p.0 == e.own.0) {
            fail!("own_buffers_presented_as_input", "node {} inputs {:x?} own {:x?}", e.id, e.inputs, e.own);
        }
    }
    // 3. acyclic upstream subgraph: topological order and functional evaluation
    let up_edges: Vec<(usize, usize)> = b.edges.iter().copied().filter(|(u, v)| anc[*u] && anc[*v] && u != v).collect();
    let has_self_loop = b.edges.iter().any(|(u, v)| u == v && anc[*u]);
    let acyclic = {
        // Kahn
        let mut indeg = vec![0usize; slots];
        for &(_, v) in &up_edges {
            indeg[v] += 1;
        }
        let mut q: Vec<usize> = (0..slots).filter(|i| anc[*i] && indeg[*i] == 0).collect();
        let mut seen = 0;
        while let Some(u) = q.pop() {
            seen += 1;
            for &(a, v) in &up_edges {
                if a == u {
                    indeg[v] -= 1;
                    if indeg[v] == 0 {
                        q.push(v);
                    }
                }
            }
        }
        seen == anc.iter().filter(|x| **x).count()
    };
    if acyclic {
        let mut pos = vec![usize::MAX; slots];
        for (k, e) in log.iter().enumerate() {
            pos[e.id] = k;
        }
        for &(u, v) in &up_edges {
            if pos[u] > pos[v] {
                fail!("processed_before_its_input", "node {} processed at position {} before its input node {} (position {})", v, pos[v], u, pos[u]);
            }
        }
        // functional evaluation (values are small integers in f32 when the graph is small)
        let mut val: Vec<Option<f64>> = vec![None; slots];
        fn eval(v: usize, preds: &Vec<Vec<usize>>, ptrs: &Vec<(usize, usize)>, val: &mut Vec<Option<f64>>) -> f64 {
            if let Some(x) = val[v] {
                return x;
            }
            let mut s = (v + 1) as f64;
            for &u in &preds[v] {
                if u != v && ptrs[u].1 > 0 {
                    s += eval(u, preds, ptrs, val);
                }
            }
            val[v] = Some(s);
            s
        }
        let total = eval(out, &preds, &ptrs, &mut val);
        if total < 16_000_000.0 {
            for i in 0..slots {
                if anc[i] && ptrs[i].1 > 0 {
                    let w = b.g.weight(NodeIndex::new(i));
                    let want = eval(i, &preds, &ptrs, &mut val) as f32;
                    for (bi, buf) in w.buffers.iter().enumerate() {
                        let bad = if lean_mode() { buf[0] != want || buf[Buffer::LEN - 1] != want } else { buf.iter().any(|s| *s != want) };
                        if bad {
                            fail!("output_not_functional_evaluation", "node {} buffer {} holds {} expected {}", i, bi, buf[0], want);
                        }
                    }
                }
            }
            bump(&VALUES);
        }
    } else {
        bump(&CYCLIC);
    }
    // 4. nodes outside the upstream subgraph keep their buffers
    for &i in &b.live {
        if !anc[i] {
            let w = b.g.weight(NodeIndex::new(i));
            if w.buffers.first().map(|bf| bf[0]) != before[i] {
                fail!("untouched_node_modified", "node {} is not upstream of {} but its buffer changed from {:?} to {:?}", i, out, before[i], w.buffers.first().map(|bf| bf[0]));
            }
        }
    }
    if has_self_loop {
        bump(&SELFLOOP);
    }
    if b.live.iter().any(|i| !anc[*i]) {
        bump(&UNREACHED);
    }
    let mut sorted = b.edges.clone();
    sorted.sort_unstable();
    if sorted.windows(2).any(|w| w[0] == w[1]) {
        bump(&PARALLEL);
    }
    if b.live.len() < slots {
        bump(&VACANT);
    }
    true
}

fn check_sources_sinks<C: Container>(b: &Built<C>, d: &Desc, rep: &mut Report) -> bool {
    let mut has_in = vec![false; b.slots];
    let mut has_out = vec![false; b.slots];
    for &(u, v) in &b.edges {
        has_out[u] = true;
        has_in[v] = true;
    }
    let want_src: Vec<usize> = b.live.iter().copied().filter(|i| !has_in[*i]).collect();
    let want_snk: Vec<usize> = b.live.iter().copied().filter(|i| !has_out[*i]).collect();
    let r = vmon::catch(|| {
        let mut s = b.g.sources();
        let mut k = b.g.sinks();
        s.sort_unstable();
        k.sort_unstable();
        (s, k)
    });
    bump(&EVALS);
    let class = if b.live.len() < b.slots { "stable_graph_with_vacant_slots" } else { "no_vacant_slots" };
    let case = format!("container={};out=0;calls=0;{}", C::NAME, d.encode());
    match r {
        Ok((s, k)) => {
            if s != want_src || k != want_snk {
                rep.violation(&format!("sources_sinks|{}|{}", C::NAME, class), format!("sources() = {:?} expected {:?}; sinks() = {:?} expected {:?}; live nodes {:?}, edges {:?}", s, want_src, k, want_snk, b.live, b.edges), case);
                return false;
            }
        }
        Err(m) => {
            rep.violation(&format!("sources_sinks|{}|panic", C::NAME), m, case);
            return false;
        }
    }
    true
}

/// run a description on container C: sources/sinks, then process every (or the given) output
fn run_desc<C: Container + petgraph::visit::Visitable>(d: &Desc, outs: Option<&[usize]>, shared: &mut Processor<C>, calls: usize, rep: &mut Report, lean: bool)
where
    <C as petgraph::visit::Visitable>::Map: Default,
{
    let mut b = build::<C>(d);
    check_sources_sinks(&b, d, rep);
    let all: Vec<usize> = b.live.clone();
    let outs: Vec<usize> = match outs {
        Some(o) => o.iter().copied().filter(|x| b.live.contains(x)).collect(),
        None => all,
    };
    for &out in &outs {
        // shared processor, several consecutive calls
        for c in 0..calls {
            if !check_process(&mut b, shared, out, d, c, rep, lean) {
                return;
            }
        }
        // a node with inputs panics inside process(); the caller catches the panic and goes on
        // using the SAME processor: the next call must again present every node with exactly its
        // own inputs (nothing left over from the aborted call)
        if !lean || (d.edges.len() + out) % 3 == 0 {
            let mut preds: Vec<Vec<usize>> = vec![Vec::new(); b.slots];
            for &(u, v) in &b.edges {
                preds[v].push(u);
            }
            let mut anc = vec![false; b.slots];
            anc[out] = true;
            let mut stack = vec![out];
            let mut order = vec![out];
            while let Some(v) = stack.pop() {
                for &u in &preds[v] {
                    if !anc[u] {
                        anc[u] = true;
                        stack.push(u);
                        order.push(u);
                    }
                }
            }
            let cands: Vec<usize> = order.into_iter().filter(|v| preds[*v].iter().any(|u| u != v)).collect();
            if !cands.is_empty() {
                let victim = cands[(out + d.edges.len()) % cands.len()];
                PANIC_ID.with(|p| p.set(victim));
                let r = vmon::catch(std::panic::AssertUnwindSafe(|| b.g.run(shared, NodeIndex::new(out))));
                let armed = PANIC_ID.with(|p| p.replace(usize::MAX));
                if r.is_ok() || armed != usize::MAX {
                    rep.violation(&format!("process|{}|upstream_node_not_invoked", C::NAME), format!("node {} (upstream of {}) was armed to panic but process() returned normally | graph {}", victim, out, d.encode()), format!("container={};out={};calls={};{}", C::NAME, out, calls + 1, d.encode()));
                    return;
                }
                bump(&RECOVERED);
                if !check_process(&mut b, shared, out, d, calls, rep, lean) {
                    return;
                }
            }
        }
        // the graph is RE-PATCHED between two calls with the same processor and the same output
        // node: one edge a -> t is moved to c -> t (every in-degree stays what it was, no node
        // appears or disappears). Whatever a processor remembers from the previous call, the new
        // call must be judged on the new graph alone.
        if d.removed.is_empty() && d.readd == 0 && !d.edges.is_empty() && d.n >= 2 && (!lean || (d.edges.len() + out) % 2 == 0) {
            let e = (out + d.edges.len()) % d.edges.len();
            let (a, t) = d.edges[e];
            let c = (a + 1 + out % (d.n - 1)) % d.n;
            if c != a {
                let mut d2 = d.clone();
                d2.edges[e] = (c, t);
                let mut b2 = build::<C>(&d2);
                bump(&REPATCHED);
                if !check_process(&mut b2, shared, out, &d2, 0, rep, lean) {
                    return;
                }
                // and back again (the original graph, the processor last saw the re-patched one)
                let mut b3 = build::<C>(d);
                if !check_process(&mut b3, shared, out, d, 0, rep, lean) {
                    return;
                }
            }
        }
        // and a fresh processor
        let mut fresh = Processor::<C>::with_capacity(b.slots.max(1));
        if !check_process(&mut b, &mut fresh, out, d, calls, rep, lean) {
            return;
        }
    }
}

fn nontrivial_hash(cname: &str, d: &Desc, out: usize) -> u64 {
    let mut e = d.edges.clone();
    e.sort_unstable();
    vmon::hash_combine(vmon::hash_str(cname), vmon::hash_combine(vmon::hash_str(&format!("{:?}{:?}{:?}{}", e, d.removed, d.late_edges, d.readd)), (d.n * 100 + out) as u64))
}

fn is_nontrivial(d: &Desc) -> bool {
    // a cycle, a parallel edge, a node not reaching the output, or a vacant slot: anything beyond
    // the small hand-built DAGs of the test-suite. Cheap sufficient test: any of
    // self-loop / duplicate edge / back edge / removal.
    let mut e = d.edges.clone();
    e.sort_unstable();
    !d.removed.is_empty() || e.windows(2).any(|w| w[0] == w[1]) || d.edges.iter().any(|(a, b)| a >= b)
}

/// enumerate all multigraphs on n nodes with edge multiplicity 0..=maxmult
fn enum_multigraphs(n: usize, maxmult: usize, want: impl Fn(u64) -> bool, mut f: impl FnMut(u64, &Desc)) {
    let cells = n * n;
    let base = (maxmult + 1) as u64;
    let total = base.pow(cells as u32);
    for code in 0..total {
        if !want(code) {
            continue;
        }
        let mut c = code;
        let mut edges = Vec::new();
        for a in 0..n {
            for b in 0..n {
                let m = (c % base) as usize;
                c /= base;
                for _ in 0..m {
                    edges.push((a, b));
                }
            }
        }
        let d = Desc { n, bufs: vec![1; n], edges, ..Default::default() };
        f(code, &d);
    }
}

fn random_desc(rng: &mut Rng, max_nodes: usize, max_edges: usize, stable: bool) -> Desc {
    let n = 1 + rng.usize_below(max_nodes);
    let ne = rng.usize_below(max_edges.min(n * n * 2) + 1);
    let dag_bias = rng.chance(1, 2);
    let mut edges = Vec::new();
    for _ in 0..ne {
        let a = rng.usize_below(n);
        let b = rng.usize_below(n);
        if dag_bias && a >= b && rng.chance(9, 10) {
            if a != b {
                edges.push((b, a));
            }
            continue;
        }
        edges.push((a, b));
        if rng.chance(1, 8) {
            edges.push((a, b)); // parallel edge
        }
    }
    let bufs: Vec<usize> = (0..n).map(|_| if rng.chance(1, 10) { rng.usize_below(3) } else { 1 }).collect();
    let mut d = Desc { n, bufs, edges, ..Default::default() };
    if stable && rng.chance(2, 3) && n > 1 {
        let k = 1 + rng.usize_below(2.min(n - 1));
        while d.removed.len() < k {
            let r = rng.usize_below(n);
            if !d.removed.contains(&r) {
                d.removed.push(r);
            }
        }
        if rng.bool() {
            d.readd = 1 + rng.usize_below(2);
            for _ in 0..rng.usize_below(6) {
                d.late_edges.push((rng.usize_below(n + 1), rng.usize_below(n + 1)));
            }
        }
    }
    d
}

fn flush(rep: &mut Report) {
    rep.eval(EVALS.with(|c| c.replace(0)));
    rep.hit_n("cyclic_upstream_subgraph", CYCLIC.with(|c| c.replace(0)));
    rep.hit_n("parallel_edges", PARALLEL.with(|c| c.replace(0)));
    rep.hit_n("vacant_slots", VACANT.with(|c| c.replace(0)));
    rep.hit_n("node_not_upstream_of_output", UNREACHED.with(|c| c.replace(0)));
    rep.hit_n("functional_value_checked", VALUES.with(|c| c.replace(0)));
    rep.hit_n("self_loop_in_upstream", SELFLOOP.with(|c| c.replace(0)));
    rep.hit_n("process_after_a_node_panicked", RECOVERED.with(|c| c.replace(0)));
    rep.hit_n("graph_repatched_between_calls", REPATCHED.with(|c| c.replace(0)));
}

/// removal variants of a description for the stable graph: every subset of <= 2 removed nodes,
/// with and without re-adding
fn removal_variants(d: &Desc) -> Vec<Desc> {
    let mut v = Vec::new();
    for a in 0..d.n {
        let mut x = d.clone();
        x.removed = vec![a];
        v.push(x.clone());
        x.readd = 1;
        x.late_edges = vec![(a, (a + 1) % d.n), ((a + 1) % d.n, a)];
        v.push(x);
        for b in a + 1..d.n {
            let mut y = d.clone();
            y.removed = vec![a, b];
            v.push(y);
        }
    }
    v
}

fn main() {
    let cli = Cli::parse();
    let t0 = Instant::now();
    let mut rep = Report::new("C09", &cli.stage);
    if let Some(cs) = &cli.case {
        let m = vmon::cli::parse_case(cs);
        let d = Desc::decode(&m);
        let out: usize = m["out"].parse().unwrap();
        let calls: usize = m["calls"].parse::<usize>().unwrap().max(1);
        eprintln!("CASE {}", cs);
        if m["container"] == "Graph" {
            let mut p = Processor::<G>::with_capacity(8);
            run_desc::<G>(&d, Some(&[out]), &mut p, calls, &mut rep, false);
        } else {
            let mut p = Processor::<SG>::with_capacity(8);
            run_desc::<SG>(&d, Some(&[out]), &mut p, calls, &mut rep, false);
        }
        flush(&mut rep);
        checks::finish(&cli, rep, t0);
    }
    let stage = cli.stage.clone();
    let (shard, nshards) = (cli.shard, cli.nshards);
    for o in ["graph_repatched_between_calls", "process_after_a_node_panicked", "cyclic_upstream_subgraph", "parallel_edges", "vacant_slots", "node_not_upstream_of_output", "functional_value_checked", "self_loop_in_upstream"] {
        rep.oblige(o, 1);
    }
    // one processor per container type reused across the whole run (stale visit state would show)
    let mut pg = Processor::<G>::with_capacity(4);
    let mut psg = Processor::<SG>::with_capacity(4);
    let mut item = 0u64;
    match stage.as_str() {
        "main" | "release" | "asan" => {
            let full = stage != "asan";
            for n in 1..=3usize {
                enum_multigraphs(n, 2, |code| full || code % 7 == 0, |code, d| {
                    run_desc::<G>(d, None, &mut pg, 1, &mut rep, false);
                    run_desc::<SG>(d, None, &mut psg, 1, &mut rep, false);
                    if is_nontrivial(d) {
                        for out in 0..n {
                            rep.nontrivial(nontrivial_hash("Graph", d, out));
                            rep.nontrivial(nontrivial_hash("StableGraph", d, out));
                        }
                    }
                    // stable graph with vacant slots: on a thinned subset of the enumeration
                    if n >= 2 && code % 17 == 0 {
                        for v in removal_variants(d) {
                            run_desc::<SG>(&v, None, &mut psg, 1, &mut rep, false);
                            rep.nontrivial(nontrivial_hash("StableGraph", &v, 0));
                        }
                    }
                });
            }
            if full {
                rep.exhaustive("every directed multigraph on 1..=3 nodes with edge multiplicity 0..=2 (3 + 81 + 19683 graphs) x every output node x {Graph, StableGraph}, shared and fresh Processor");
            }
            // simple digraphs with loops on 4 nodes: all 2^16 (thorough) or a sample (quick)
            let step = if full { cli.t(16u64, 1u64) } else { 64 };
            let mut code = (cli.seed % step) as u64;
            while code < (1 << 16) {
                let mut edges = Vec::new();
                for a in 0..4 {
                    for b in 0..4 {
                        if code >> (a * 4 + b) & 1 == 1 {
                            edges.push((a, b));
                        }
                    }
                }
                let d = Desc { n: 4, bufs: vec![1; 4], edges, ..Default::default() };
                run_desc::<G>(&d, None, &mut pg, 1, &mut rep, false);
                run_desc::<SG>(&d, None, &mut psg, 1, &mut rep, false);
                if is_nontrivial(&d) {
                    rep.nontrivial(nontrivial_hash("Graph", &d, 0));
                }
                if code % 64 == 0 {
                    for v in removal_variants(&d).into_iter().take(6) {
                        run_desc::<SG>(&v, None, &mut psg, 1, &mut rep, false);
                    }
                }
                code += step;
            }
            if full && step == 1 {
                rep.exhaustive("every simple digraph with loops on 4 nodes (2^16) x every output x {Graph, StableGraph}");
            }
            // wide fan-in: one node fed by W different nodes (W beyond any capacity the processor
            // was created with and beyond the u8 / u16 / 1024 / 4096 thresholds), plus a parallel
            // edge, a self-loop on the sink and a second level; small shared processor and a fresh
            // full-size one (run_desc uses both)
            if full {
                rep.oblige("wide_fan_in_above_256", 1);
                let widths: Vec<usize> = if cli.thorough() { vec![255, 256, 257, 300, 1023, 1025, 4097, 70_000] } else { vec![257, 300, 1025, 4097] };
                for w in widths {
                    let mut edges: Vec<(usize, usize)> = (0..w).map(|i| (i, w)).collect();
                    edges.push((0, w)); // parallel edge
                    edges.push((w, w)); // self-loop on the sink
                    edges.push((w + 1, 0));
                    edges.push((w + 1, 1));
                    let d = Desc { n: w + 2, bufs: vec![1; w + 2], edges, ..Default::default() };
                    run_desc::<G>(&d, Some(&[w]), &mut pg, 2, &mut rep, false);
                    run_desc::<SG>(&d, Some(&[w]), &mut psg, 2, &mut rep, false);
                    rep.nontrivial(vmon::hash_combine(0x77696465, w as u64));
                    if w > 256 {
                        rep.hit("wide_fan_in_above_256");
                    }
                }
                flush(&mut rep);
            }
            // random larger graphs, processed 3 times each
            let n_rand = if full { cli.t(1_500u64, 600_000u64) } else { cli.t(1_000, 20_000) };
            let reps = vmon::par_for(cli.threads, n_rand, 8, |_| (Report::new("C09", "w"), Processor::<G>::with_capacity(4), Processor::<SG>::with_capacity(4)), |st, i| {
                let (rep, pg, psg) = st;
                let mut rng = Rng::derive(cli.seed, &[9, i]);
                let stable = rng.bool();
                let d = random_desc(&mut rng, cli.t(24, 64), cli.t(80, 256), stable);
                let built_live: Vec<usize> = (0..d.n).filter(|x| !d.removed.contains(x)).collect();
                let outs: Vec<usize> = (0..3).map(|_| built_live[rng.usize_below(built_live.len())]).collect();
                if stable {
                    run_desc::<SG>(&d, Some(&outs), psg, 3, rep, false);
                } else {
                    run_desc::<G>(&d, Some(&outs), pg, 3, rep, false);
                }
                if is_nontrivial(&d) {
                    rep.nontrivial(nontrivial_hash(if stable { "StableGraph" } else { "Graph" }, &d, outs[0]));
                }
                if rep.want_sample() && i % 211 == 0 {
                    rep.sample(J::obj().set("container", J::s(if stable { "StableGraph" } else { "Graph" })).set("graph", J::s(d.encode())).set("outputs", J::s(format!("{:?}", outs))));
                }
                flush(rep);
            });
            for (r, _, _) in reps {
                rep.merge(r);
            }
        }
        "miri" => {
            LEAN.store(true, std::sync::atomic::Ordering::Relaxed);
            // the <=2-node enumeration completely and a slice of the 3-node one, dealt to shards;
            // plus random 8-node graphs
            for n in 1..=3usize {
                let thin3 = cli.get_u64("thin3", 997);
                enum_multigraphs(n, 2, |code| n < 3 || code % thin3 == 0, |code, d| {
                    item += 1;
                    if item % nshards != shard {
                        return;
                    }
                    run_desc::<G>(d, None, &mut pg, 1, &mut rep, true);
                    run_desc::<SG>(d, None, &mut psg, 1, &mut rep, true);
                    if n >= 2 && code % 5 == 0 {
                        for v in removal_variants(d).into_iter().take(3) {
                            run_desc::<SG>(&v, None, &mut psg, 1, &mut rep, true);
                        }
                    }
                });
            }
            let mut rng = Rng::derive(cli.seed, &[99, shard]);
            for _ in 0..cli.get_u64("rand", 3) {
                let stable = rng.bool();
                let d = random_desc(&mut rng, 8, 20, stable);
                let live: Vec<usize> = (0..d.n).filter(|x| !d.removed.contains(x)).collect();
                let outs = [live[rng.usize_below(live.len())]];
                if stable {
                    run_desc::<SG>(&d, Some(&outs), &mut psg, 2, &mut rep, true);
                } else {
                    run_desc::<G>(&d, Some(&outs), &mut pg, 2, &mut rep, true);
                }
            }
        }
        other => panic!("unknown stage {}", other),
    }
    flush(&mut rep);
    checks::finish(&cli, rep, t0);
}
