#![cfg_attr(target_pointer_width = "32", allow(arithmetic_overflow))] // 2^32-sized probes exist only in the 64-bit stages
//! C06 — Bounded / Fixed ring buffers behave as FIFO queues / delay lines and are memory-safe.
//!
//! Reference-model monitor: a VecDeque stepped in lock-step with the real buffer. Pushed values
//! are unique increasing ids; slots that hold no live element are pre-filled with negative poison
//! values through from_raw_parts, so any observer that returns a negative value has exposed a
//! dead slot. After EVERY operation every observer (len/flags, get(i) for all i, iteration,
//! slices, raw parts) is compared with the model.
//!
//! Stages: `main` (native, exhaustive step relation + random histories over four storage kinds),
//! `miri` / `asan` (the same monitor at sanitizer-sized volume; run by the driver under
//! cargo miri / -Zsanitizer=address).

use dasp_ring_buffer::{Bounded, Fixed, SliceMut};
use std::cell::Cell;
use std::collections::VecDeque;
use std::sync::atomic::{AtomicBool, Ordering};
use std::time::Instant;
use vmon::{Cli, Report, Rng, J};

#[derive(Clone, Copy, Debug, PartialEq, Eq, Hash)]
enum Op {
    Push,
    Pop,
    Drain(usize),
    Get(usize),
    GetMut(usize),
    Idx(usize),
    IdxMut(usize),
    Iter,
    IterMut,
    Slices,
    SlicesMut,
    Extend(usize),
    SetFirst(usize),
    IterLoop,
}

fn enc_idx(i: usize) -> String {
    if i == usize::MAX {
        "max".into()
    } else if i == usize::MAX - 1 {
        "max1".into()
    } else if i == isize::MAX as usize {
        "imax".into()
    } else {
        i.to_string()
    }
}
fn dec_idx(s: &str) -> usize {
    match s {
        "max" => usize::MAX,
        "max1" => usize::MAX - 1,
        "imax" => isize::MAX as usize,
        _ => s.parse().unwrap(),
    }
}
fn enc_op(op: Op) -> String {
    match op {
        Op::Push => "P".into(),
        Op::Pop => "O".into(),
        Op::Drain(j) => format!("D{}", j),
        Op::Get(i) => format!("G{}", enc_idx(i)),
        Op::GetMut(i) => format!("M{}", enc_idx(i)),
        Op::Idx(i) => format!("X{}", enc_idx(i)),
        Op::IdxMut(i) => format!("Y{}", enc_idx(i)),
        Op::Iter => "I".into(),
        Op::IterMut => "J".into(),
        Op::Slices => "S".into(),
        Op::SlicesMut => "T".into(),
        Op::Extend(k) => format!("E{}", k),
        Op::SetFirst(i) => format!("F{}", enc_idx(i)),
        Op::IterLoop => "L".into(),
    }
}
fn dec_op(s: &str) -> Op {
    let (h, t) = s.split_at(1);
    match h {
        "P" => Op::Push,
        "O" => Op::Pop,
        "D" => Op::Drain(t.parse().unwrap()),
        "G" => Op::Get(dec_idx(t)),
        "M" => Op::GetMut(dec_idx(t)),
        "X" => Op::Idx(dec_idx(t)),
        "Y" => Op::IdxMut(dec_idx(t)),
        "I" => Op::Iter,
        "J" => Op::IterMut,
        "S" => Op::Slices,
        "T" => Op::SlicesMut,
        "E" => Op::Extend(t.parse().unwrap()),
        "F" => Op::SetFirst(dec_idx(t)),
        "L" => Op::IterLoop,
        _ => panic!("bad op {}", s),
    }
}
fn enc_ops(ops: &[Op]) -> String {
    ops.iter().map(|o| enc_op(*o)).collect::<Vec<_>>().join(",")
}
fn op_kind(op: Op) -> &'static str {
    match op {
        Op::Push => "push",
        Op::Pop => "pop",
        Op::Drain(_) => "drain",
        Op::Get(_) => "get",
        Op::GetMut(_) => "get_mut",
        Op::Idx(_) => "index",
        Op::IdxMut(_) => "index_mut",
        Op::Iter => "iter",
        Op::IterMut => "iter_mut",
        Op::Slices => "slices",
        Op::SlicesMut => "slices_mut",
        Op::Extend(_) => "extend",
        Op::SetFirst(_) => "set_first",
        Op::IterLoop => "iter_loop",
    }
}

/// `Extend` through iterators of four shapes: what an `extend` fast path may (not) trust is the
/// size hint. 0: exact hint; 1: no hint at all `(0, None)`; 2: a loose upper bound `(0, Some(n+1))`
/// (filter); 3: a looser one `(0, Some(n+3))` (take_while). The items delivered are always `vals`.
fn extend_with<E: Extend<i64>>(r: &mut E, vals: &[i64], shape: usize) {
    match shape % 4 {
        0 => r.extend(vals.iter().copied()),
        1 => {
            let mut it = vals.iter().copied();
            r.extend(std::iter::from_fn(move || it.next()))
        }
        2 => r.extend(vals.iter().copied().chain(std::iter::once(i64::MIN)).filter(|v| *v != i64::MIN)),
        _ => r.extend(vals.iter().copied().chain([i64::MIN; 3]).take_while(|v| *v != i64::MIN)),
    }
}

/// Cheap per-thread counters (a Report lookup costs milliseconds under Miri); flushed into the
/// Report by `flush_stats`.
#[derive(Default)]
struct Stats {
    evals: Cell<u64>,
    evictions: Cell<u64>,
    evict_wrapped: Cell<u64>,
    push_after_empty: Cell<u64>,
    partial_drain: Cell<u64>,
    first_wraps: Cell<u64>,
    push_after_set_first: Cell<u64>,
    histories: Cell<u64>,
}
thread_local! {
    static ST: Stats = Stats::default();
}
static LEAN: AtomicBool = AtomicBool::new(false);
fn lean() -> bool {
    LEAN.load(Ordering::Relaxed)
}
macro_rules! bump {
    ($f:ident) => {
        ST.with(|s| s.$f.set(s.$f.get() + 1))
    };
}
fn flush_stats(rep: &mut Report) {
    ST.with(|s| {
        rep.eval(s.evals.replace(0));
        rep.count("evictions", s.evictions.replace(0));
        rep.count("histories", s.histories.replace(0));
        rep.hit_n("eviction_on_wrapped_full_buffer", s.evict_wrapped.replace(0));
        rep.hit_n("push_after_pop_to_empty", s.push_after_empty.replace(0));
        rep.hit_n("partial_drain", s.partial_drain.replace(0));
        rep.hit_n("fixed_first_wraps_at_N", s.first_wraps.replace(0));
        rep.hit_n("fixed_push_after_set_first", s.push_after_set_first.replace(0));
    });
}

fn poison(slot: usize) -> i64 {
    -(1000 + slot as i64)
}

struct Ids(i64);
impl Ids {
    fn next(&mut self) -> i64 {
        self.0 += 1;
        self.0
    }
}

struct Case<'a> {
    kind: &'static str,
    store: &'static str,
    cap: usize,
    start: usize,
    len: usize,
    ops: &'a [Op],
    upto: usize,
}
impl<'a> Case<'a> {
    fn string(&self) -> String {
        format!("kind={};store={};cap={};start={};len={};ops={}", self.kind, self.store, self.cap, self.start, self.len, enc_ops(&self.ops[..=self.upto.min(self.ops.len().saturating_sub(1))]))
    }
}

fn classify(v: i64) -> &'static str {
    if v < 0 {
        "dead_slot_exposed"
    } else {
        "wrong_element"
    }
}

/// run an observer pass under a single catch_unwind (a panic inside an observer is a violation)
fn guarded(rep: &mut Report, kind: &str, case: &dyn Fn() -> String, f: impl FnOnce(&mut Report) -> bool) -> bool {
    let r = vmon::catch(std::panic::AssertUnwindSafe(|| f(&mut *rep)));
    match r {
        Ok(ok) => ok,
        Err(m) => {
            rep.violation(&format!("{}|observer|panic", kind), format!("an observer panicked: {}", m), case());
            false
        }
    }
}

// ------------------------------------------------------------------------------ Bounded
/// compare every observer of `rb` with the model; returns false on the first disagreement
fn observe_bounded<S: SliceMut<Element = i64>>(rb: &mut Option<Bounded<S>>, model: &VecDeque<i64>, cap: usize, base_ptr: Option<*const i64>, after: Op, rep: &mut Report, case: &dyn Fn() -> String) -> bool {
    let k = op_kind(after);
    // representation first: an invalid (start, len) must be reported before any other observer
    // runs on it (they would index out of bounds)
    {
        let taken = rb.take().unwrap();
        let (start, len, data) = unsafe { taken.into_raw_parts() };
        let mut ok = true;
        let mut msg = String::new();
        {
            let sl = dasp_ring_buffer::Slice::slice(&data);
            if !(start < cap) || len > cap || len != model.len() || sl.len() != cap {
                ok = false;
                msg = format!("raw parts start={} len={} storage_len={} (cap {} model len {})", start, len, sl.len(), cap, model.len());
            } else {
                for (i, m) in model.iter().enumerate() {
                    if sl[(start + i) % cap] != *m {
                        ok = false;
                        msg = format!("raw storage[(start {} + {}) % {}] = {}, model {}", start, i, cap, sl[(start + i) % cap], m);
                        break;
                    }
                }
                if let Some(p) = base_ptr {
                    if sl.as_ptr() != p {
                        ok = false;
                        msg = format!("backing storage moved: {:?} -> {:?}", p, sl.as_ptr());
                    }
                }
            }
        }
        if !ok {
            rep.violation(&format!("bounded|after_{}|raw_parts", k), msg, case());
            return false;
        }
        *rb = Some(Bounded::from_raw_parts(start, len, data));
    }
    let r = rb.as_ref().unwrap();
    macro_rules! fail {
        ($what:expr, $($fmt:tt)*) => {{
            rep.violation(&format!("bounded|after_{}|{}", k, $what), format!($($fmt)*), case());
            return false;
        }};
    }
    if r.len() != model.len() {
        fail!("len", "len() = {} model {}", r.len(), model.len());
    }
    if r.max_len() != cap {
        fail!("max_len", "max_len() = {} cap {}", r.max_len(), cap);
    }
    if r.is_empty() != model.is_empty() || r.is_full() != (model.len() == cap) {
        fail!("flags", "is_empty={} is_full={} model len {} cap {}", r.is_empty(), r.is_full(), model.len(), cap);
    }
    for i in 0..cap + 2 {
        let g = r.get(i).copied();
        if g != model.get(i).copied() {
            let what = match g {
                Some(v) => classify(v),
                None => "missing_element",
            };
            fail!(format!("get_{}", what), "get({}) = {:?}, model {:?} (model contents {:?})", i, g, model.get(i), model);
        }
    }
    if !r.iter().eq(model.iter()) {
        let it: Vec<i64> = r.iter().copied().collect();
        let bad = it.iter().zip(model.iter()).find(|(a, b)| a != b).map(|(a, _)| *a).unwrap_or(0);
        fail!(format!("iter_{}", if it.len() != model.len() { "wrong_length" } else { classify(bad) }), "iter() = {:?}, model {:?}", it, model);
    }
    let (s0, s1) = r.slices();
    if !s0.iter().chain(s1.iter()).eq(model.iter()) {
        fail!("slices", "slices() = {:?} ++ {:?}, model {:?}", s0, s1, model);
    }
    true
}

fn step_bounded<S: SliceMut<Element = i64>>(rb: &mut Option<Bounded<S>>, model: &mut VecDeque<i64>, cap: usize, op: Op, ids: &mut Ids, rep: &mut Report, case: &dyn Fn() -> String) -> bool {
    let r = rb.as_mut().unwrap();
    let k = op_kind(op);
    macro_rules! fail {
        ($what:expr, $($fmt:tt)*) => {{
            rep.violation(&format!("bounded|{}|{}", k, $what), format!($($fmt)*), case());
            return false;
        }};
    }
    let model_push = |model: &mut VecDeque<i64>, v: i64| -> Option<i64> {
        let ev = if model.len() == cap { model.pop_front() } else { None };
        model.push_back(v);
        ev
    };
    match op {
        Op::Push => {
            let v = ids.next();
            let got = vmon::catch(|| r.push(v));
            let want = model_push(model, v);
            match got {
                Ok(g) if g == want => {}
                Ok(g) => fail!("wrong_return", "push({}) = {:?}, model {:?}", v, g, want),
                Err(m) => fail!("panic", "push panicked: {}", m),
            }
            if want.is_some() {
                bump!(evictions);
            }
        }
        Op::Pop => {
            let got = vmon::catch(|| r.pop());
            let want = model.pop_front();
            match got {
                Ok(g) if g == want => {}
                Ok(g) => fail!(if let Some(v) = g { classify(v) } else { "missing" }, "pop() = {:?}, model {:?}", g, want),
                Err(m) => fail!("panic", "pop panicked: {}", m),
            }
        }
        Op::Drain(j) => {
            let got = vmon::catch(|| {
                let d = r.drain();
                let hint = (d.size_hint(), d.len());
                (hint, d.take(j).collect::<Vec<i64>>())
            });
            let before = model.len();
            let want: Vec<i64> = (0..j.min(model.len())).map(|_| model.pop_front().unwrap()).collect();
            match got {
                Ok((hint, g)) => {
                    if g != want {
                        fail!("wrong_items", "drain().take({}) = {:?}, model {:?}", j, g, want);
                    }
                    if hint != ((before, Some(before)), before) {
                        fail!("size_hint", "drain size_hint/len = {:?}, model {}", hint, before);
                    }
                }
                Err(m) => fail!("panic", "drain panicked: {}", m),
            }
        }
        Op::Get(i) => {
            let got = vmon::catch(|| r.get(i).copied());
            match got {
                Ok(g) if g == model.get(i).copied() => {}
                Ok(g) => fail!(if let Some(v) = g { classify(v) } else { "missing" }, "get({}) = {:?}, model {:?}", enc_idx(i), g, model.get(i)),
                Err(m) => fail!("panic", "get({}) panicked: {}", enc_idx(i), m),
            }
        }
        Op::GetMut(i) => {
            let v = ids.next();
            let got = vmon::catch(|| match r.get_mut(i) {
                Some(p) => {
                    let old = *p;
                    *p = v;
                    Some(old)
                }
                None => None,
            });
            let want = model.get(i).copied();
            if let Some(m) = model.get_mut(i) {
                *m = v;
            }
            match got {
                Ok(g) if g == want => {}
                Ok(g) => fail!(if let Some(v) = g { classify(v) } else { "missing" }, "get_mut({}) saw {:?}, model {:?}", enc_idx(i), g, want),
                Err(m) => fail!("panic", "get_mut({}) panicked: {}", enc_idx(i), m),
            }
        }
        Op::Idx(i) => {
            let got = vmon::catch(|| r[i]);
            match (got, model.get(i)) {
                (Ok(g), Some(m)) if g == *m => {}
                (Ok(g), m) => fail!(classify(g), "[{}] = {}, model {:?}", enc_idx(i), g, m),
                (Err(_), None) => {}
                (Err(e), Some(m)) => fail!("panic", "[{}] panicked ({}) but model has {}", enc_idx(i), e, m),
            }
        }
        Op::IdxMut(i) => {
            let v = ids.next();
            let got = vmon::catch(|| {
                let old = r[i];
                r[i] = v;
                old
            });
            let want = model.get(i).copied();
            if let Some(m) = model.get_mut(i) {
                *m = v;
            }
            match (got, want) {
                (Ok(g), Some(m)) if g == m => {}
                (Ok(g), m) => fail!(classify(g), "[{}] (mut) saw {}, model {:?}", enc_idx(i), g, m),
                (Err(_), None) => {}
                (Err(e), Some(m)) => fail!("panic", "[{}] (mut) panicked ({}) but model has {}", enc_idx(i), e, m),
            }
        }
        Op::Iter => {} // observers cover it
        Op::IterMut => {
            let mut seen = Vec::new();
            let mut news = Vec::new();
            for p in r.iter_mut() {
                seen.push(*p);
                let v = ids.next();
                *p = v;
                news.push(v);
            }
            if !seen.iter().eq(model.iter()) {
                fail!("wrong_items", "iter_mut() saw {:?}, model {:?}", seen, model);
            }
            for (m, v) in model.iter_mut().zip(news) {
                *m = v;
            }
        }
        Op::Slices => {}
        Op::SlicesMut => {
            let mut seen = Vec::new();
            let mut news = Vec::new();
            let (a, b) = r.slices_mut();
            for p in a.iter_mut().chain(b.iter_mut()) {
                seen.push(*p);
                let v = ids.next();
                *p = v;
                news.push(v);
            }
            if !seen.iter().eq(model.iter()) {
                fail!("wrong_items", "slices_mut() saw {:?}, model {:?}", seen, model);
            }
            for (m, v) in model.iter_mut().zip(news) {
                *m = v;
            }
        }
        Op::Extend(code) => {
            let (n, shape) = (code & 0xf_ffff, code >> 20);
            let vals: Vec<i64> = (0..n).map(|_| ids.next()).collect();
            if let Err(m) = vmon::catch(|| extend_with(r, &vals, shape)) {
                fail!("panic", "extend panicked: {}", m);
            }
            for v in vals {
                model_push(model, v);
            }
        }
        Op::SetFirst(_) | Op::IterLoop => {}
    }
    true
}

/// Run one history on a Bounded over storage `data` (already poisoned + live-filled).
fn run_bounded<S: SliceMut<Element = i64>>(store: &'static str, data: S, cap: usize, start: usize, len: usize, model0: &VecDeque<i64>, ops: &[Op], ids: &mut Ids, stable_ptr: bool, rep: &mut Report) -> bool {
    let base_ptr = if stable_ptr { Some(dasp_ring_buffer::Slice::slice(&data).as_ptr()) } else { None };
    let mut rb = Some(Bounded::from_raw_parts(start, len, data));
    let mut model = model0.clone();
    let mut full_wrapped_evict = false;
    for (n, &op) in ops.iter().enumerate() {
        let case = || Case { kind: "bounded", store, cap, start, len, ops, upto: n }.string();
        if n == 0 && !guarded(rep, "bounded", &case, |rep| observe_bounded(&mut rb, &model, cap, base_ptr, Op::Iter, rep, &case)) {
            return false;
        }
        let was_empty = model.is_empty();
        let was_full = model.len() == cap;
        if !step_bounded(&mut rb, &mut model, cap, op, ids, rep, &case) {
            return false;
        }
        if !guarded(rep, "bounded", &case, |rep| observe_bounded(&mut rb, &model, cap, base_ptr, op, rep, &case)) {
            return false;
        }
        bump!(evals);
        match op {
            Op::Push if was_full => full_wrapped_evict = true,
            Op::Push if was_empty && n > 0 => bump!(push_after_empty),
            Op::Drain(j) if j > 0 && !model.is_empty() => bump!(partial_drain),
            _ => {}
        }
    }
    if full_wrapped_evict && (start != 0 || ops.len() > cap) {
        bump!(evict_wrapped);
    }
    true
}

// ------------------------------------------------------------------------------ Fixed
fn observe_fixed<S: SliceMut<Element = i64>>(rb: &mut Option<Fixed<S>>, model: &VecDeque<i64>, n: usize, after: Op, rep: &mut Report, case: &dyn Fn() -> String) -> bool {
    let k = op_kind(after);
    // representation first: an invalid `first` must be reported before any other observer runs on
    // it (iter_loop() would skip ~2^64 elements, slices() would panic, push would write out of
    // bounds)
    {
        let taken = rb.take().unwrap();
        let (first, data) = taken.into_raw_parts();
        let mut msg = None;
        {
            let sl = dasp_ring_buffer::Slice::slice(&data);
            if !(first < n) || sl.len() != n {
                msg = Some(format!("raw parts first={} storage_len={} (N {})", first, sl.len(), n));
            } else {
                for i in 0..n {
                    if sl[(first + i) % n] != model[i] {
                        msg = Some(format!("raw storage[(first {} + {}) % {}] = {}, model {}", first, i, n, sl[(first + i) % n], model[i]));
                        break;
                    }
                }
            }
        }
        if let Some(m) = msg {
            rep.violation(&format!("fixed|after_{}|raw_parts", k), m, case());
            // cannot rebuild with an invalid `first`; stop this history
            return false;
        }
        *rb = Some(Fixed::from_raw_parts(first, data));
    }
    let r = rb.as_ref().unwrap();
    macro_rules! fail {
        ($what:expr, $($fmt:tt)*) => {{
            rep.violation(&format!("fixed|after_{}|{}", k, $what), format!($($fmt)*), case());
            return false;
        }};
    }
    if r.len() != n {
        fail!("len", "len() = {} N {}", r.len(), n);
    }
    for i in 0..2 * n + 1 {
        let g = *r.get(i);
        if g != model[i % n] {
            fail!("get_wrong_element", "get({}) = {}, model[{} % {}] = {} ({:?})", i, g, i, n, model[i % n], model);
        }
    }
    if !r.iter().eq(model.iter()) {
        let it: Vec<i64> = r.iter().copied().collect();
        fail!("iter", "iter() = {:?}, model {:?}", it, model);
    }
    let mut cnt = 0;
    for (i, v) in r.iter_loop().take(3 * n + 1).enumerate() {
        cnt += 1;
        if *v != model[i % n] {
            fail!("iter_loop", "iter_loop() item {} = {}, model {:?} cycled", i, v, model);
        }
    }
    if cnt != 3 * n + 1 {
        fail!("iter_loop", "iter_loop().take({}) yielded {}", 3 * n + 1, cnt);
    }
    let (s0, s1) = r.slices();
    if !s0.iter().chain(s1.iter()).eq(model.iter()) {
        fail!("slices", "slices() = {:?} ++ {:?}, model {:?}", s0, s1, model);
    }
    true
}

fn step_fixed<S: SliceMut<Element = i64>>(rb: &mut Option<Fixed<S>>, model: &mut VecDeque<i64>, n: usize, op: Op, ids: &mut Ids, rep: &mut Report, case: &dyn Fn() -> String) -> bool {
    let r = rb.as_mut().unwrap();
    let k = op_kind(op);
    macro_rules! fail {
        ($what:expr, $($fmt:tt)*) => {{
            rep.violation(&format!("fixed|{}|{}", k, $what), format!($($fmt)*), case());
            return false;
        }};
    }
    match op {
        Op::Push => {
            let v = ids.next();
            let got = vmon::catch(|| r.push(v));
            let want = model.pop_front().unwrap();
            model.push_back(v);
            match got {
                Ok(g) if g == want => {}
                Ok(g) => fail!("wrong_return", "push({}) = {}, model {}", v, g, want),
                Err(m) => fail!("panic", "push panicked: {}", m),
            }
        }
        Op::Get(i) | Op::Idx(i) => {
            let got = vmon::catch(|| if matches!(op, Op::Get(_)) { *r.get(i) } else { r[i] });
            match got {
                Ok(g) if g == model[i % n] => {}
                Ok(g) => fail!("wrong_element", "get/index({}) = {}, model[{} % {}] = {}", enc_idx(i), g, enc_idx(i), n, model[i % n]),
                Err(m) => fail!("panic", "get/index({}) panicked: {}", enc_idx(i), m),
            }
        }
        Op::GetMut(i) | Op::IdxMut(i) => {
            let v = ids.next();
            let got = vmon::catch(|| {
                let p = if matches!(op, Op::GetMut(_)) { r.get_mut(i) } else { &mut r[i] };
                let old = *p;
                *p = v;
                old
            });
            let want = model[i % n];
            model[i % n] = v;
            match got {
                Ok(g) if g == want => {}
                Ok(g) => fail!("wrong_element", "get_mut/index_mut({}) saw {}, model {}", enc_idx(i), g, want),
                Err(m) => fail!("panic", "get_mut/index_mut({}) panicked: {}", enc_idx(i), m),
            }
        }
        Op::SetFirst(i) => {
            if let Err(m) = vmon::catch(|| r.set_first(i)) {
                fail!("panic", "set_first({}) panicked: {}", enc_idx(i), m);
            }
            // set_first is specified on the *storage* index: the element at storage slot i % N
            // becomes index 0. The model is kept in logical order, so we need the current first.
            // Recover it from the rotation: new logical order = storage order rotated to slot i%N.
            // storage order = model rotated right by current first; tracked by the caller through
            // `ids`-independent bookkeeping below.
        }
        Op::IterMut | Op::SlicesMut => {
            let mut seen = Vec::new();
            let mut news = Vec::new();
            if matches!(op, Op::IterMut) {
                for p in r.iter_mut() {
                    seen.push(*p);
                    let v = ids.next();
                    *p = v;
                    news.push(v);
                }
            } else {
                let (a, b) = r.slices_mut();
                for p in a.iter_mut().chain(b.iter_mut()) {
                    seen.push(*p);
                    let v = ids.next();
                    *p = v;
                    news.push(v);
                }
            }
            if !seen.iter().eq(model.iter()) {
                fail!("wrong_items", "{} saw {:?}, model {:?}", k, seen, model);
            }
            for (m, v) in model.iter_mut().zip(news) {
                *m = v;
            }
        }
        Op::Extend(code) => {
            let (cnt, shape) = (code & 0xf_ffff, code >> 20);
            let vals: Vec<i64> = (0..cnt).map(|_| ids.next()).collect();
            if let Err(m) = vmon::catch(|| extend_with(r, &vals, shape)) {
                fail!("panic", "extend panicked: {}", m);
            }
            for v in vals {
                model.pop_front();
                model.push_back(v);
            }
        }
        Op::Iter | Op::IterLoop | Op::Slices => {}
        Op::Pop | Op::Drain(_) => {}
    }
    true
}

/// Fixed history. `model_first` tracks the storage slot of logical index 0 so set_first (which is
/// specified in storage coordinates) can be modelled.
fn run_fixed<S: SliceMut<Element = i64>>(store: &'static str, data: S, n: usize, first: usize, model0: &VecDeque<i64>, ops: &[Op], ids: &mut Ids, rep: &mut Report) -> bool {
    let mut rb = Some(Fixed::from_raw_parts(first, data));
    let mut model = model0.clone();
    let mut mfirst = first;
    let mut set_first_seen = false;
    for (k, &op) in ops.iter().enumerate() {
        let case = || Case { kind: "fixed", store, cap: n, start: first, len: n, ops, upto: k }.string();
        if k == 0 && !guarded(rep, "fixed", &case, |rep| observe_fixed(&mut rb, &model, n, Op::Iter, rep, &case)) {
            return false;
        }
        if !step_fixed(&mut rb, &mut model, n, op, ids, rep, &case) {
            return false;
        }
        match op {
            Op::Push => {
                mfirst = (mfirst + 1) % n;
                if mfirst == 0 {
                    bump!(first_wraps);
                }
                if set_first_seen {
                    bump!(push_after_set_first);
                }
            }
            Op::Extend(code) => {
                let c = code & 0xf_ffff;
                if c > 0 && (mfirst + c) / n > 0 {
                    bump!(first_wraps);
                }
                mfirst = (mfirst + c) % n;
            }
            Op::SetFirst(i) => {
                let nf = i % n;
                // rotate the logical view so that storage slot nf is index 0
                let rot = (nf + n - mfirst) % n;
                model.rotate_left(rot);
                mfirst = nf;
                set_first_seen = true;
            }
            _ => {}
        }
        if !guarded(rep, "fixed", &case, |rep| observe_fixed(&mut rb, &model, n, op, rep, &case)) {
            return false;
        }
        bump!(evals);
    }
    true
}

// ------------------------------------------------------------------------------ storage kinds
/// storage content for a Bounded state: poison everywhere, live slots get fresh ids
fn bounded_content(cap: usize, start: usize, len: usize, ids: &mut Ids) -> (Vec<i64>, VecDeque<i64>) {
    let mut v: Vec<i64> = (0..cap).map(poison).collect();
    let mut m = VecDeque::new();
    for i in 0..len {
        let id = ids.next();
        v[(start + i) % cap] = id;
        m.push_back(id);
    }
    (v, m)
}
fn fixed_content(n: usize, first: usize, ids: &mut Ids) -> (Vec<i64>, VecDeque<i64>) {
    let mut v = vec![0i64; n];
    let mut m = VecDeque::new();
    for i in 0..n {
        let id = ids.next();
        v[(first + i) % n] = id;
        m.push_back(id);
    }
    (v, m)
}

const STORES: [&str; 4] = ["array", "vec", "boxed", "mutslice"];
/// storage kinds of the Miri stage: additionally a box with uninitialised dead slots
const MIRI_STORES: [&str; 5] = ["array", "vec", "boxed", "mutslice", "uninit"];

fn with_array<const N: usize>(v: &[i64]) -> [i64; N] {
    let mut a = [0i64; N];
    a.copy_from_slice(v);
    a
}

fn dispatch_bounded(store: &'static str, content: Vec<i64>, cap: usize, start: usize, len: usize, model: &VecDeque<i64>, ops: &[Op], ids: &mut Ids, rep: &mut Report) -> bool {
    match store {
        "vec" => run_bounded(store, content, cap, start, len, model, ops, ids, true, rep),
        "boxed" => run_bounded(store, content.into_boxed_slice(), cap, start, len, model, ops, ids, true, rep),
        "mutslice" => {
            let mut c = content;
            run_bounded(store, &mut c[..], cap, start, len, model, ops, ids, true, rep)
        }
        "uninit" => {
            // Backing storage whose non-live slots are genuinely uninitialised (the documentation
            // of `Bounded::from_raw_parts` explicitly allows that). Only used under Miri, where a
            // typed read of such a slot is reported; the monitor itself only ever looks at live
            // slots.
            let mut b: Box<[std::mem::MaybeUninit<i64>]> = Box::new_uninit_slice(cap);
            for i in 0..len {
                let slot = (start + i) % cap;
                b[slot].write(content[slot]);
            }
            let b: Box<[i64]> = unsafe { b.assume_init() };
            run_bounded(store, b, cap, start, len, model, ops, ids, true, rep)
        }
        "array" => {
            macro_rules! arr {
                ($($n:literal),*) => { match cap { $($n => run_bounded(store, with_array::<$n>(&content), cap, start, len, model, ops, ids, false, rep),)* _ => run_bounded("vec", content, cap, start, len, model, ops, ids, true, rep) } };
            }
            arr!(1, 2, 3, 4, 5, 6, 7, 8, 16, 64)
        }
        _ => unreachable!(),
    }
}
fn dispatch_fixed(store: &'static str, content: Vec<i64>, n: usize, first: usize, model: &VecDeque<i64>, ops: &[Op], ids: &mut Ids, rep: &mut Report) -> bool {
    match store {
        "vec" => run_fixed(store, content, n, first, model, ops, ids, rep),
        "boxed" | "uninit" => run_fixed(store, content.into_boxed_slice(), n, first, model, ops, ids, rep),
        "mutslice" => {
            let mut c = content;
            run_fixed(store, &mut c[..], n, first, model, ops, ids, rep)
        }
        "array" => {
            macro_rules! arr {
                ($($n:literal),*) => { match n { $($n => run_fixed(store, with_array::<$n>(&content), n, first, model, ops, ids, rep),)* _ => run_fixed("vec", content, n, first, model, ops, ids, rep) } };
            }
            arr!(1, 2, 3, 4, 5, 6, 7, 8, 16, 64)
        }
        _ => unreachable!(),
    }
}

/// indices around the integer-width boundaries (a narrower intermediate type, e.g. a u32 fast
/// path, misbehaves exactly there): 2^k - d and 2^k + d for small d
fn boundary_indices(n: usize) -> Vec<usize> {
    if lean() {
        // interpreter-sized: only the 32-bit boundary (the 16-bit one in a 32-bit build)
        let p = 1usize << (usize::BITS / 2);
        return (0..=n + 1).flat_map(|d| [p - d, p + d]).collect();
    }
    vmon::edge::wide_usizes(n + 1).into_iter().filter(|x| *x > 200).collect()
}

fn bounded_alphabet(cap: usize) -> Vec<Op> {
    let mut v = vec![Op::Push, Op::Pop, Op::Iter, Op::IterMut, Op::Slices, Op::SlicesMut];
    for j in 0..=cap + 1 {
        v.push(Op::Drain(j));
    }
    let mut idx: Vec<usize> = (0..cap + 2).collect();
    idx.extend_from_slice(&[usize::MAX, usize::MAX - 1, isize::MAX as usize]);
    idx.extend(boundary_indices(cap));
    for i in idx {
        v.extend_from_slice(&[Op::Get(i), Op::GetMut(i), Op::Idx(i), Op::IdxMut(i)]);
    }
    for k in [0, 1, cap, cap + 1, 2 * cap + 1] {
        for shape in 0..4usize {
            v.push(Op::Extend(k | shape << 20));
        }
    }
    v
}
fn fixed_alphabet(n: usize) -> Vec<Op> {
    let mut v = vec![Op::Push, Op::Iter, Op::IterLoop, Op::IterMut, Op::Slices, Op::SlicesMut];
    let mut idx: Vec<usize> = (0..n + 2).collect();
    idx.extend_from_slice(&[2 * n, 3 * n + 1, usize::MAX, usize::MAX - 1, isize::MAX as usize]);
    idx.extend(boundary_indices(n));
    for i in idx {
        v.extend_from_slice(&[Op::Get(i), Op::GetMut(i), Op::Idx(i), Op::IdxMut(i), Op::SetFirst(i)]);
    }
    for k in [0, 1, n, n + 1, 2 * n + 1] {
        for shape in 0..4usize {
            v.push(Op::Extend(k | shape << 20));
        }
    }
    v
}

fn random_bounded_op(rng: &mut Rng, cap: usize, len: usize) -> Op {
    match rng.below(100) {
        0..=34 => Op::Push,
        35..=54 => Op::Pop,
        55..=59 => Op::Drain(rng.usize_below(cap + 2)),
        60..=67 => Op::Get(rand_index(rng, cap, len)),
        68..=73 => Op::GetMut(rand_index(rng, cap, len)),
        74..=79 => Op::Idx(rand_index(rng, cap, len)),
        80..=84 => Op::IdxMut(rand_index(rng, cap, len)),
        85..=87 => Op::Iter,
        88..=90 => Op::IterMut,
        91..=93 => Op::Slices,
        94..=96 => Op::SlicesMut,
        _ => Op::Extend(rng.usize_below(cap + 3) | rng.usize_below(4) << 20),
    }
}
fn random_fixed_op(rng: &mut Rng, n: usize) -> Op {
    match rng.below(100) {
        0..=39 => Op::Push,
        40..=49 => Op::Get(rand_index(rng, n, n)),
        50..=57 => Op::GetMut(rand_index(rng, n, n)),
        58..=63 => Op::Idx(rand_index(rng, n, n)),
        64..=69 => Op::IdxMut(rand_index(rng, n, n)),
        70..=79 => Op::SetFirst(rand_index(rng, n, n)),
        80..=83 => Op::Iter,
        84..=86 => Op::IterLoop,
        87..=89 => Op::IterMut,
        90..=92 => Op::Slices,
        93..=95 => Op::SlicesMut,
        _ => Op::Extend(rng.usize_below(n + 3) | rng.usize_below(4) << 20),
    }
}
fn rand_index(rng: &mut Rng, cap: usize, len: usize) -> usize {
    if rng.chance(1, 12) {
        let k = [8u32, 16, 24, 31, 32, 33, 48, 63][rng.usize_below(8)] % usize::BITS;
        let d = rng.usize_below(cap + 2);
        let m = 1 + rng.usize_below(3);
        return if rng.bool() { (1usize << k).wrapping_sub(d) } else { (1usize << k).wrapping_mul(m).wrapping_add(d) };
    }
    match rng.below(20) {
        0 => usize::MAX,
        1 => usize::MAX - rng.usize_below(3),
        2 => isize::MAX as usize,
        3 => cap + rng.usize_below(3),
        4 => usize::MAX / 2 + rng.usize_below(cap + 1),
        5 | 6 => len.saturating_sub(1),
        _ => rng.usize_below(cap + 1),
    }
}

fn nontrivial_hash(kind: u64, cap: usize, start: usize, len: usize, op: Op) -> u64 {
    use std::hash::{Hash, Hasher};
    let mut h = std::collections::hash_map::DefaultHasher::new();
    (kind, cap, start, len, op).hash(&mut h);
    h.finish()
}

/// exhaustive step relation: every state x every op
fn enumerate_steps(caps: std::ops::RangeInclusive<usize>, stores: &[&'static str], shard: (u64, u64), rep: &mut Report) {
    let mut ids = Ids(0);
    // enumeration items are dealt round-robin to shards (one shard = everything)
    let mut item = 0u64;
    let mut mine = move || {
        item += 1;
        item % shard.1 == shard.0
    };
    for cap in caps {
        let alpha = bounded_alphabet(cap);
        for start in 0..cap {
            for len in 0..=cap {
                for &op in &alpha {
                    for &store in stores {
                        if !mine() {
                            continue;
                        }
                        let (content, model) = bounded_content(cap, start, len, &mut ids);
                        dispatch_bounded(store, content, cap, start, len, &model, &[op], &mut ids, rep);
                    }
                    if !lean() && (start != 0 || (start + len >= cap)) {
                        rep.nontrivial(nontrivial_hash(0, cap, start, len, op));
                    }
                }
                // two-step sequences around the full/empty boundaries
                for &a in &[Op::Push, Op::Pop, Op::Drain(1), Op::Extend(cap)] {
                    for &b in &[Op::Push, Op::Pop, Op::Drain(cap), Op::Get(0), Op::IdxMut(cap - 1)] {
                        if !mine() {
                            continue;
                        }
                        let (content, model) = bounded_content(cap, start, len, &mut ids);
                        dispatch_bounded(stores[0], content, cap, start, len, &model, &[a, b, Op::Push], &mut ids, rep);
                    }
                }
            }
        }
        let falpha = fixed_alphabet(cap);
        for first in 0..cap {
            for &op in &falpha {
                for &store in stores {
                    if !mine() {
                        continue;
                    }
                    let (content, model) = fixed_content(cap, first, &mut ids);
                    dispatch_fixed(store, content, cap, first, &model, &[op], &mut ids, rep);
                }
                if !lean() && first != 0 {
                    rep.nontrivial(nontrivial_hash(1, cap, first, cap, op));
                }
            }
            // push N+1 times from every first: returns must be initial content then the pushed ids
            if mine() {
                let ops: Vec<Op> = std::iter::repeat(Op::Push).take(2 * cap + 1).collect();
                let (content, model) = fixed_content(cap, first, &mut ids);
                dispatch_fixed(stores[0], content, cap, first, &model, &ops, &mut ids, rep);
            }
            // set_first then pushes
            for sf in [0, 1, cap - 1, cap, cap + 1, usize::MAX] {
                if !mine() {
                    continue;
                }
                let mut ops = vec![Op::SetFirst(sf)];
                ops.extend(std::iter::repeat(Op::Push).take(cap + 1));
                let (content, model) = fixed_content(cap, first, &mut ids);
                dispatch_fixed(stores[0], content, cap, first, &model, &ops, &mut ids, rep);
            }
        }
    }
}

/// constructor contracts: from_raw_parts accepts exactly the valid states; empty storage panics
fn check_constructors(rep: &mut Report) {
    for cap in 0..=6usize {
        for start in 0..cap + 2 {
            for len in 0..cap + 2 {
                let valid = start < cap && len <= cap;
                let r = vmon::catch(|| {
                    let b = Bounded::from_raw_parts(start, len, vec![0i64; cap]);
                    (b.len(), b.max_len())
                });
                rep.eval(1);
                match (r, valid) {
                    (Ok((l, m)), true) if l == len && m == cap => {}
                    (Err(_), false) => {}
                    (r, _) => rep.violation("bounded|from_raw_parts|contract", format!("from_raw_parts(start {}, len {}, cap {}) -> {:?}, valid = {}", start, len, cap, r.map_err(|_| "panic"), valid), format!("kind=ctor;store=vec;cap={};start={};len={};ops=I", cap, start, len)),
                }
            }
            let valid = start < cap;
            let r = vmon::catch(|| Fixed::from_raw_parts(start, vec![0i64; cap]).len());
            rep.eval(1);
            match (r, valid) {
                (Ok(l), true) if l == cap => {}
                (Err(_), false) => {}
                (r, _) => rep.violation("fixed|from_raw_parts|contract", format!("Fixed::from_raw_parts(first {}, N {}) -> {:?}, valid = {}", start, cap, r.map_err(|_| "panic"), valid), format!("kind=ctor;store=vec;cap={};start={};len=0;ops=I", cap, start)),
            }
        }
    }
    // from / from_full / from_iter
    let r = vmon::catch(|| {
        let b = Bounded::from_full(vec![5i64, 6, 7]);
        let c: Bounded<Vec<i64>> = Bounded::from(vec![0i64; 4]);
        let f = Fixed::from(vec![1i64, 2, 3]);
        (b.iter().copied().collect::<Vec<_>>(), b.len(), c.len(), c.max_len(), f.iter().copied().collect::<Vec<_>>())
    });
    match r {
        Ok((bi, bl, cl, cm, fi)) if bi == vec![5, 6, 7] && bl == 3 && cl == 0 && cm == 4 && fi == vec![1, 2, 3] => {}
        other => rep.violation("ring|constructors|from", format!("{:?}", other), "kind=ctor;store=vec;cap=3;start=0;len=0;ops=I".to_string()),
    }
    rep.eval(1);
}

// ------------------------------------------------------------------ huge capacities (64-bit hosts)
/// Ring buffers over `vec![0u8; 2^32 + r]`: a capacity, a length, a start or an index that does
/// not fit 32 bits. The storage comes from calloc, so only the handful of pages the probe touches
/// are ever backed by memory. The model is sparse: slot -> value (default 0).
struct Sparse {
    cap: usize,
    slots: std::collections::HashMap<usize, u8>,
}
impl Sparse {
    fn get(&self, slot: usize) -> u8 {
        *self.slots.get(&slot).unwrap_or(&0)
    }
    fn set(&mut self, slot: usize, v: u8) {
        self.slots.insert(slot, v);
    }
    fn slot(&self, base: usize, i: usize) -> usize {
        ((base as u128 + i as u128) % self.cap as u128) as usize
    }
}

fn huge_indices(rng: &mut Rng, len: usize) -> usize {
    let wide = vmon::edge::wide_usizes(9);
    if rng.chance(1, 4) && len > 64 {
        // anywhere in the live range, biased to its upper half (start + index crosses the wrap)
        return len / 2 + rng.usize_below(len / 2);
    }
    match rng.below(8) {
        0 => len,
        1 => len.wrapping_sub(1),
        2 => len.wrapping_add(1 + rng.usize_below(3)),
        3 | 4 => wide[rng.usize_below(wide.len())],
        5 => (1usize << 32) + rng.usize_below(12),
        6 => (1usize << 32) - 1 - rng.usize_below(12),
        _ => rng.usize_below(12),
    }
}

/// one probe; returns false after the first violation
fn huge_probe(rep: &mut Report, seed: u64, r: usize, cfg: usize, n_ops: usize) -> bool {
    // r < 2^31: capacity 2^32 + r. Otherwise r IS the capacity (values between 2^31 and 2^32:
    // a sum of two positions then exceeds 32 bits although the capacity itself fits).
    let cap: usize = if r < (1usize << 31) { (1usize << 32) + r } else { r };
    let case = format!("kind=huge;seed={};r={};cfg={};n={}", seed, r, cfg, n_ops);
    let mut rng = Rng::derive(seed, &[66, r as u64, cfg as u64]);
    let mut ok = true;
    macro_rules! fail {
        ($sig:expr, $($a:tt)*) => {{
            rep.violation($sig, format!("capacity 2^32+{}: {}", r, format!($($a)*)), case.clone());
            ok = false;
        }};
    }
    // ---- Bounded
    let (start, len) = [(0usize, 0usize), (cap - 2, 0), (cap - 1, 1), (5, cap - 7), (cap - 3, cap), (cap - 9, 5), (7, cap / 2 + 11), (cap / 2 + 3, cap / 2 + 9), (cap - 100, cap - 50)][cfg % 9];
    let res = vmon::catch(|| {
        let mut data = vec![0u8; cap];
        let mut m = Sparse { cap, slots: Default::default() };
        // markers at the ends of the live region and around the 2^32 boundary
        for (k, i) in [0usize, 1, len.wrapping_sub(1), len.wrapping_sub(2), (1 << 32) - 6, (1 << 32) - 5, 1 << 32, (1 << 32) + 1, len / 2, len / 2 + 1, cap - start, (cap - start).wrapping_sub(1)].into_iter().enumerate() {
            if i < len {
                let s = m.slot(start, i);
                data[s] = 101 + k as u8;
                m.set(s, 101 + k as u8);
            }
        }
        let mut rb = Bounded::from_raw_parts(start, len, data);
        let (mut mstart, mut mlen) = (start, len);
        let mut next: u8 = 1;
        let mut errs: Vec<(String, String)> = Vec::new();
        for step in 0..n_ops {
            if !errs.is_empty() {
                break;
            }
            match rng.below(10) {
                0..=3 => {
                    let v = next;
                    next = next % 99 + 1;
                    let got = rb.push(v);
                    let want = if mlen == cap {
                        let old = m.get(mstart);
                        m.set(mstart, v);
                        mstart = (mstart + 1) % cap;
                        Some(old)
                    } else {
                        let s = m.slot(mstart, mlen);
                        m.set(s, v);
                        mlen += 1;
                        None
                    };
                    if got != want {
                        errs.push(("huge|bounded|push_result".into(), format!("step {}: push({}) returned {:?}, model {:?} (start {}, len {})", step, v, got, want, mstart, mlen)));
                    }

                }
                4 | 5 => {
                    let got = rb.pop();
                    let want = if mlen == 0 {
                        None
                    } else {
                        let v = m.get(mstart);
                        mstart = (mstart + 1) % cap;
                        mlen -= 1;
                        Some(v)
                    };
                    if got != want {
                        errs.push(("huge|bounded|pop_result".into(), format!("step {}: pop() returned {:?}, model {:?}", step, got, want)));
                    }

                }
                _ => {
                    let i = huge_indices(&mut rng, mlen);
                    let got = rb.get(i).copied();
                    let want = if i < mlen { Some(m.get(m.slot(mstart, i))) } else { None };
                    if got != want {
                        errs.push(("huge|bounded|get".into(), format!("step {}: get({}) = {:?}, model {:?} (start {}, len {})", step, i, got, want, mstart, mlen)));
                    }
                    if let (Some(x), true) = (rb.get_mut(i), i < mlen) {
                        *x = x.wrapping_add(1);
                        let s = m.slot(mstart, i);
                        let nv = m.get(s).wrapping_add(1);
                        m.set(s, nv);
                    }

                }
            }
            if rb.len() != mlen || rb.max_len() != cap || rb.is_empty() != (mlen == 0) || rb.is_full() != (mlen == cap) {
                errs.push(("huge|bounded|len_or_flags".into(), format!("step {}: len {} max_len {} empty {} full {}; model len {} cap {}", step, rb.len(), rb.max_len(), rb.is_empty(), rb.is_full(), mlen, cap)));
            }
            if mlen <= 64 {
                let got: Vec<u8> = rb.iter().copied().collect();
                let want: Vec<u8> = (0..mlen).map(|i| m.get(m.slot(mstart, i))).collect();
                if got != want {
                    errs.push(("huge|bounded|iter".into(), format!("step {}: iter() = {:?}, model {:?} (start {})", step, got, want, mstart)));
                }
            }
        }
        // representation: raw parts and the touched slots of the storage
        let (s, l, data) = unsafe { rb.into_raw_parts() };
        if (s, l) != (mstart, mlen) && !(mlen == 0 && l == 0) {
            errs.push(("huge|bounded|raw_parts".into(), format!("into_raw_parts = (start {}, len {}), model ({}, {})", s, l, mstart, mlen)));
        }
        if l != 0 || mlen != 0 {
            for (slot, v) in &m.slots {
                if data[*slot] != *v {
                    errs.push(("huge|bounded|storage_slot".into(), format!("storage[{}] = {}, model {}", slot, data[*slot], v)));
                    break;
                }
            }
        }
        errs
    });
    rep.eval(n_ops as u64);
    match res {
        Ok(errs) => {
            for (sig, d) in errs {
                fail!(&sig, "Bounded::from_raw_parts({}, {}, ..): {}", start, len, d);
            }
        }
        Err(msg) => fail!("huge|bounded|panic", "Bounded::from_raw_parts({}, {}, ..) history panicked: {}", start, len, msg),
    }
    // ---- Fixed
    let first0 = [0usize, 1, cap - 1, ((1usize << 32) - 1).min(cap - 2), (1usize << 32).min(cap - 3), 3, cap / 2 + 5, cap - 77][cfg % 8];
    let res = vmon::catch(|| {
        let mut data = vec![0u8; cap];
        let mut m = Sparse { cap, slots: Default::default() };
        for (k, s) in [0usize, 1, 2, cap - 1, cap - 2, (1 << 32) - 1, 1 << 32, (1 << 32) + 1, first0].into_iter().enumerate() {
            if s < cap {
                data[s] = 150 + k as u8;
                m.set(s, 150 + k as u8);
            }
        }
        let mut rb = Fixed::from_raw_parts(first0, data);
        let mut first = first0;
        let mut next: u8 = 1;
        let mut errs: Vec<(String, String)> = Vec::new();
        for step in 0..n_ops {
            if !errs.is_empty() {
                break;
            }
            match rng.below(10) {
                0..=3 => {
                    let v = next;
                    next = next % 99 + 1;
                    let got = rb.push(v);
                    let want = m.get(first);
                    m.set(first, v);
                    first = (first + 1) % cap;
                    if got != want {
                        errs.push(("huge|fixed|push_result".into(), format!("step {}: push({}) returned {}, model {} (first now {})", step, v, got, want, first)));
                    }

                }
                4 => {
                    let i = match rng.below(4) {
                        0 => cap - 1 - rng.usize_below(4),
                        1 => (1usize << 32) - 1 + rng.usize_below(3),
                        _ => rng.usize_below(6),
                    };
                    // set_first is absolute: slot index modulo the length
                    let i = if rng.chance(1, 5) { huge_indices(&mut rng, cap) } else { i };
                    rb.set_first(i);
                    first = i % cap;
                }
                _ => {
                    let i = huge_indices(&mut rng, cap);
                    let got = *rb.get(i);
                    let s = m.slot(first, i);
                    let want = m.get(s);
                    if got != want {
                        errs.push(("huge|fixed|get".into(), format!("step {}: get({}) = {}, model slot {} = {} (first {})", step, i, got, s, want, first)));
                    }
                    let x = rb.get_mut(i);
                    *x = x.wrapping_add(1);
                    m.set(s, want.wrapping_add(1));

                }
            }
            if rb.len() != cap {
                errs.push(("huge|fixed|len".into(), format!("step {}: len {} != {}", step, rb.len(), cap)));
            }
        }
        let (f, data) = rb.into_raw_parts();
        if f != first {
            errs.push(("huge|fixed|raw_parts".into(), format!("into_raw_parts first = {}, model {}", f, first)));
        }
        for (slot, v) in &m.slots {
            if data[*slot] != *v {
                errs.push(("huge|fixed|storage_slot".into(), format!("storage[{}] = {}, model {}", slot, data[*slot], v)));
                break;
            }
        }
        errs
    });
    rep.eval(n_ops as u64);
    match res {
        Ok(errs) => {
            for (sig, d) in errs {
                fail!(&sig, "Fixed::from_raw_parts({}, ..): {}", first0, d);
            }
        }
        Err(msg) => fail!("huge|fixed|panic", "Fixed::from_raw_parts({}, ..) history panicked: {}", first0, msg),
    }
    rep.hit("huge_capacity_probes");
    rep.nontrivial(vmon::hash_combine(0x4875, vmon::hash_combine(seed, (r * 64 + cfg) as u64)));
    ok
}

fn huge_probes(rep: &mut Report, seed: u64, n_cfg: usize, n_ops: usize) {
    if usize::BITS < 64 {
        rep.note("huge-capacity probes skipped: not a 64-bit host");
        return;
    }
    rep.oblige("huge_capacity_probes", 1);
    for cfg in 0..n_cfg {
        for r in [3usize, 8, (1 << 31) + 5, (1 << 32) - 1, 3 * (1 << 30) + 1] {
            if !huge_probe(rep, seed, r, cfg, n_ops) {
                return;
            }
        }
    }
}

/// The counterpart of the huge-capacity probes for a 32-BIT build: capacities on both sides of
/// 2^15 and 2^16 (where a sum or product of two positions first leaves 16 and 17 bits - half
/// of the machine word), real storage, every rotation from a boundary set, indices from a
/// boundary set; the position model is computed in u64.
fn half_word_probes(rep: &mut Report, seed: u64, shard: u64, nshards: u64) {
    rep.oblige("half_word_capacity_probes", 1);
    let caps = [(1usize << 15) + 1, 40_000, (1 << 16) - 1, 1 << 16, (1 << 16) + 1, 70_000];
    let mut item = 0u64;
    for &cap in &caps {
        item += 1;
        if item % nshards != shard {
            continue;
        }
        let case = format!("kind=halfword;cap={};seed={}", cap, seed);
        let mut rng = Rng::derive(seed, &[67, cap as u64]);
        let content: Vec<u32> = (0..cap as u32).map(|i| i.wrapping_mul(2_654_435_761) >> 7).collect();
        let firsts = [0usize, 1, cap - 1, cap - 2, cap / 2, cap / 2 + 1, (1 << 16) - 1, 1 << 15, rng.usize_below(cap), rng.usize_below(cap)];
        let mut evals = 0u64;
        let res = vmon::catch(std::panic::AssertUnwindSafe(|| -> Result<(), (String, String)> {
            // ---- Fixed
            for &first in firsts.iter().filter(|f| **f < cap) {
                let mut fx = Fixed::from_raw_parts(first, content.clone());
                let mut idx: Vec<usize> = vec![0, 1, cap - 1, cap - 2, cap / 2, cap - first, (cap - first).wrapping_sub(1), cap - first + 1, cap, cap + 1, 2 * cap - 1, (1 << 16) - 1, 1 << 16, (1 << 16) + 1];
                for d in 0..3usize {
                    idx.push(((1usize << 16) - first % (1 << 16)).wrapping_sub(d) % (4 * cap));
                    idx.push(((1usize << 16) - first % (1 << 16)) + d);
                    idx.push(rng.usize_below(2 * cap));
                }
                for &i in &idx {
                    let slot = ((first as u64 + (i as u64 % cap as u64)) % cap as u64) as usize;
                    let want = content[slot];
                    let got = *fx.get(i);
                    if got != want {
                        return Err(("halfword|fixed|get".into(), format!("Fixed N={} first={}: get({}) = {}, slot {} holds {}", cap, first, i, got, slot, want)));
                    }
                    if *fx.get_mut(i) != want || fx[i] != want {
                        return Err(("halfword|fixed|get_mut_or_index".into(), format!("Fixed N={} first={}: get_mut/[] at {} disagree with slot {}", cap, first, i, slot)));
                    }
                }
                // a push returns index 0 and the pushed element becomes index N-1
                let want0 = content[first];
                let got0 = fx.push(4_000_000_000);
                if got0 != want0 || *fx.get(cap - 1) != 4_000_000_000 || *fx.get(0) != content[(first + 1) % cap] {
                    return Err(("halfword|fixed|push".into(), format!("Fixed N={} first={}: push returned {} (index 0 held {}), newest {}, new oldest {}", cap, first, got0, want0, fx.get(cap - 1), fx.get(0))));
                }
                let (a, b) = fx.slices();
                if a.len() + b.len() != cap || a.first().copied() != Some(content[(first + 1) % cap]) {
                    return Err(("halfword|fixed|slices".into(), format!("Fixed N={} first={}: slices of {} + {} elements", cap, first, a.len(), b.len())));
                }
                fx.set_first(first + cap + 3);
                if *fx.get(0) != if (first + 3) % cap == first { 4_000_000_000 } else { content[(first + 3) % cap] } {
                    return Err(("halfword|fixed|set_first".into(), format!("Fixed N={}: set_first({}) then get(0) = {}", cap, first + cap + 3, fx.get(0))));
                }
                evals += idx.len() as u64 * 3 + 4;
            }
            // ---- Bounded
            for &start in firsts.iter().filter(|f| **f < cap).take(5) {
                for len in [cap, cap / 2 + 1, 3] {
                    let mut rb = Bounded::from_raw_parts(start, len, content.clone());
                    let at = |i: usize| content[((start as u64 + i as u64) % cap as u64) as usize];
                    for i in [0usize, 1, len - 1, len - 2, len / 2, (cap - start).min(len - 1), (cap - start).wrapping_sub(1).min(len - 1), ((1usize << 16) - start % (1 << 16)).min(len - 1)] {
                        if rb.get(i).copied() != Some(at(i)) || rb[i] != at(i) {
                            return Err(("halfword|bounded|get".into(), format!("Bounded cap={} start={} len={}: get({}) = {:?}, expected {}", cap, start, len, i, rb.get(i), at(i))));
                        }
                    }
                    if rb.get(len).is_some() || rb.len() != len || rb.is_full() != (len == cap) {
                        return Err(("halfword|bounded|len".into(), format!("Bounded cap={} start={} len={}: len() {}, is_full {}, get(len) {:?}", cap, start, len, rb.len(), rb.is_full(), rb.get(len))));
                    }
                    let (a, b) = rb.slices();
                    if a.len() + b.len() != len || a[0] != at(0) || b.last().or(a.last()).copied() != Some(at(len - 1)) {
                        return Err(("halfword|bounded|slices".into(), format!("Bounded cap={} start={} len={}: slices {} + {}", cap, start, len, a.len(), b.len())));
                    }
                    let evicted = rb.push(4_000_000_001);
                    let want = if len == cap { Some(at(0)) } else { None };
                    if evicted != want || rb.get(rb.len() - 1).copied() != Some(4_000_000_001) {
                        return Err(("halfword|bounded|push".into(), format!("Bounded cap={} start={} len={}: push returned {:?}, expected {:?}; newest {:?}", cap, start, len, evicted, want, rb.get(rb.len() - 1))));
                    }
                    let first_now = if len == cap { at(1) } else { at(0) };
                    if rb.pop() != Some(first_now) {
                        return Err(("halfword|bounded|pop".into(), format!("Bounded cap={} start={} len={}: pop after push is not the oldest", cap, start, len)));
                    }
                    evals += 16;
                }
            }
            Ok(())
        }));
        rep.eval(evals);
        match res {
            Ok(Ok(())) => rep.hit("half_word_capacity_probes"),
            Ok(Err((sig, d))) => rep.violation(&sig, d, case),
            Err(m) => rep.violation("halfword|panic", format!("capacity {}: panicked: {}", cap, m), case),
        }
    }
}

// ------------------------------------------------------------------ copies
/// clone() / clone_from() of a ring buffer mid-history
fn clone_conformance(rep: &mut Report, seed: u64) {
    let mut rng = Rng::derive(seed, &[62]);
    let mut n = 0;
    for cap in [1usize, 2, 5, 8] {
        let mkb = |v: u64| Bounded::from_raw_parts((v as usize + 1) % cap, 0, vec![-7i64; cap]);
        let stepb = |b: &mut Bounded<Vec<i64>>, i: u64| {
            let r = if i % 3 == 2 { b.pop() } else { b.push(i as i64 + 100) };
            (r, b.len(), b.get(0).copied(), b.iter().copied().fold(0i64, |a, x| a.wrapping_mul(31).wrapping_add(x)))
        };
        n += checks::cloneconf::check_clone_state("bounded", &format!("kind=clone;cap={}", cap), mkb, stepb, rep, &mut rng, 18, 3 * cap + 3, 2 * cap + 3);
        let mkf = |v: u64| Fixed::from_raw_parts((v as usize + 1) % cap, vec![-7i64; cap]);
        let stepf = |f: &mut Fixed<Vec<i64>>, i: u64| {
            if i % 7 == 6 {
                f.set_first(i as usize);
            }
            (f.push(i as i64 + 100), *f.get(i as usize), f.iter().copied().fold(0i64, |a, x| a.wrapping_mul(31).wrapping_add(x)))
        };
        n += checks::cloneconf::check_clone_state("fixed", &format!("kind=clone;cap={}", cap), mkf, stepf, rep, &mut rng, 18, 3 * cap + 3, 2 * cap + 3);
    }
    rep.eval(n);
    rep.hit_n("clone_conformance_scripts", n);
}

// ------------------------------------------------------------------ iterator protocol
/// `drain()` (the crate's own iterator type) and `iter()` from every small (cap, start, len)
/// state: nth / fold / count / last / skip / step_by / size_hint / len against plain next().
/// Each `drain()` instance gets its own leaked copy of the buffer (native stages only).
fn iterator_conformance(rep: &mut Report, seed: u64, max_cap: usize, scripts: usize) {
    let mut n = 0u64;
    let mut ids = Ids(1 << 40);
    for cap in 1..=max_cap {
        for start in 0..cap {
            for len in 0..=cap {
                let (content, _model) = bounded_content(cap, start, len, &mut ids);
                let mut rng = Rng::derive(seed, &[61, cap as u64, start as u64, len as u64]);
                let cs = format!("kind=iterconf;store=vec;cap={};start={};len={};ops=I", cap, start, len);
                let rb = Bounded::from_raw_parts(start, len, content.clone());
                n += checks::iterconf::check_iter("bounded_iter", &cs, || rb.iter(), rep, &mut rng, scripts);
                n += checks::iterconf::check_double_ended("bounded_iter", &cs, || rb.iter(), rep, &mut rng, scripts / 2);
                let mk = || Box::leak(Box::new(Bounded::from_raw_parts(start, len, content.clone()))).drain();
                n += checks::iterconf::check_iter("bounded_drain", &cs, mk, rep, &mut rng, scripts);
                n += checks::iterconf::check_exact_size("bounded_drain", &cs, mk, rep);
                let fx = Fixed::from_raw_parts(start, content.clone());
                n += checks::iterconf::check_iter("fixed_iter", &cs, || fx.iter(), rep, &mut rng, scripts / 2);
                rep.nontrivial(vmon::hash_combine(0x6974, (cap * 10_000 + start * 100 + len) as u64));
            }
        }
    }
    rep.eval(n);
    rep.hit_n("iterator_conformance_scripts", n);
}

fn random_histories(seed: u64, stage_tag: u64, n_hist: u64, max_cap: usize, max_len: usize, threads: usize, stores: &'static [&'static str], rep: &mut Report) {
    let reps = vmon::par_for(threads, n_hist, 16, |_| Report::new("C06", "w"), |rep, h| {
        let mut rng = Rng::derive(seed, &[6, stage_tag, h]);
        let mut ids = Ids((h as i64) << 20);
        let store = stores[rng.usize_below(stores.len())];
        let cap = if rng.chance(2, 3) { 1 + rng.usize_below(8.min(max_cap)) } else { 1 + rng.usize_below(max_cap) };
        let hist_len = 10 + rng.usize_below(max_len);
        if rng.bool() {
            let start = rng.usize_below(cap);
            let len = rng.usize_below(cap + 1);
            let mut ops = Vec::with_capacity(hist_len);
            // phase-biased generation so the queue rides the full and the empty boundary
            let mut approx_len = len;
            for i in 0..hist_len {
                let phase = (i / (cap.max(4))) % 3;
                let op = match phase {
                    0 if rng.chance(1, 2) => Op::Push,
                    1 if rng.chance(1, 2) => Op::Pop,
                    _ => random_bounded_op(&mut rng, cap, approx_len),
                };
                match op {
                    Op::Push => approx_len = (approx_len + 1).min(cap),
                    Op::Pop => approx_len = approx_len.saturating_sub(1),
                    _ => {}
                }
                ops.push(op);
            }
            let (content, model) = bounded_content(cap, start, len, &mut ids);
            dispatch_bounded(store, content, cap, start, len, &model, &ops, &mut ids, rep);
            for op in ops.iter().take(if lean() { 0 } else { 8 }) {
                if start != 0 {
                    rep.nontrivial(nontrivial_hash(0, cap, start, len, *op));
                }
            }
            if rep.want_sample() && h % 97 == 3 {
                rep.sample(J::obj().set("kind", J::s("bounded")).set("store", J::s(store)).set("cap", J::u(cap as u64)).set("start", J::u(start as u64)).set("len", J::u(len as u64)).set("ops", J::s(enc_ops(&ops[..ops.len().min(40)]))));
            }
        } else {
            let first = rng.usize_below(cap);
            let ops: Vec<Op> = (0..hist_len).map(|_| random_fixed_op(&mut rng, cap)).collect();
            let (content, model) = fixed_content(cap, first, &mut ids);
            dispatch_fixed(store, content, cap, first, &model, &ops, &mut ids, rep);
            for op in ops.iter().take(if lean() { 0 } else { 8 }) {
                if first != 0 {
                    rep.nontrivial(nontrivial_hash(1, cap, first, cap, *op));
                }
            }
            if rep.want_sample() && h % 97 == 5 {
                rep.sample(J::obj().set("kind", J::s("fixed")).set("store", J::s(store)).set("N", J::u(cap as u64)).set("first", J::u(first as u64)).set("ops", J::s(enc_ops(&ops[..ops.len().min(40)]))));
            }
        }
        bump!(histories);
        flush_stats(rep);
    });
    for r in reps {
        rep.merge(r);
    }
}

fn replay(case: &str, rep: &mut Report) {
    let m = vmon::cli::parse_case(case);
    if m["kind"] == "iterconf" {
        eprintln!("CASE {}", case);
        iterator_conformance(rep, 0, m["cap"].parse::<usize>().unwrap().max(1), 200);
        return;
    }
    if m["kind"] == "huge" {
        eprintln!("CASE {}", case);
        huge_probe(rep, m["seed"].parse().unwrap(), m["r"].parse().unwrap(), m["cfg"].parse().unwrap(), m["n"].parse().unwrap());
        return;
    }
    let cap: usize = m["cap"].parse().unwrap();
    let start: usize = m["start"].parse().unwrap();
    let len: usize = m["len"].parse().unwrap();
    let ops: Vec<Op> = m["ops"].split(',').filter(|s| !s.is_empty()).map(dec_op).collect();
    let store: &'static str = MIRI_STORES.iter().copied().find(|s| *s == m["store"]).unwrap_or("vec");
    let mut ids = Ids(0);
    eprintln!("CASE {}", case);
    match m["kind"].as_str() {
        "bounded" => {
            let (content, model) = bounded_content(cap, start, len, &mut ids);
            dispatch_bounded(store, content, cap, start, len, &model, &ops, &mut ids, rep);
        }
        "fixed" => {
            let (content, model) = fixed_content(cap, start, &mut ids);
            dispatch_fixed(store, content, cap, start, &model, &ops, &mut ids, rep);
        }
        _ => check_constructors(rep),
    }
}

fn main() {
    let cli = Cli::parse();
    let t0 = Instant::now();
    let mut rep = Report::new("C06", &cli.stage);
    if let Some(case) = &cli.case {
        replay(case, &mut rep);
        flush_stats(&mut rep);
        checks::finish(&cli, rep, t0);
    }
    for o in ["eviction_on_wrapped_full_buffer", "push_after_pop_to_empty", "partial_drain", "fixed_first_wraps_at_N", "fixed_push_after_set_first"] {
        rep.oblige(o, 1);
    }
    match cli.stage.as_str() {
        "main" | "release" => {
            let max_cap = cli.t(6, 8);
            enumerate_steps(1..=max_cap, &STORES, (0, 1), &mut rep);
            rep.exhaustive(format!("Bounded: every (cap 1..={}, start, len) x every operation of the alphabet (indices 0..cap+2 and usize::MAX, usize::MAX-1, isize::MAX) x 4 storage kinds; Fixed: every (N 1..={}, first) x every operation", max_cap, max_cap));
            check_constructors(&mut rep);
            huge_probes(&mut rep, cli.seed, cli.t(9, 45), cli.t(300, 3000));
            rep.oblige("clone_conformance_scripts", 1);
            clone_conformance(&mut rep, cli.seed);
            rep.oblige("iterator_conformance_scripts", 1);
            iterator_conformance(&mut rep, cli.seed, cli.t(6, 9), cli.t(24, 120));
            random_histories(cli.seed, 0, cli.t(20_000, 1_000_000), cli.t(64, 1000), cli.t(200, 600), cli.threads, &STORES, &mut rep);
        }
        "miri" => {
            LEAN.store(true, Ordering::Relaxed);
            // sanitizer-sized: the step enumeration for cap <= 3 is dealt round-robin to the shards
            enumerate_steps(1..=3, &MIRI_STORES, (cli.shard, cli.nshards), &mut rep);
            if cli.shard == 0 {
                check_constructors(&mut rep);
            }
            random_histories(cli.seed, 100 + cli.shard, cli.get_u64("hist", 40), 6, 30, 1, &MIRI_STORES, &mut rep);
            if usize::BITS < 64 {
                half_word_probes(&mut rep, cli.seed, cli.shard, cli.nshards);
            }
        }
        "asan" => {
            enumerate_steps(1..=4, &["vec", "boxed", "mutslice"], (0, 1), &mut rep);
            random_histories(cli.seed, 200, cli.t(20_000, 300_000), cli.t(64, 1000), 300, cli.threads, &["vec", "boxed", "mutslice"], &mut rep);
        }
        other => panic!("unknown stage {}", other),
    }
    flush_stats(&mut rep);
    checks::finish(&cli, rep, t0);
}
