//! C08 — rate converter positions and consumes source frames exactly by the rate ratio.
//!
//! The source yields frame i on pull i as a monotone ramp (frame value = i * step), so a Floor
//! output *is* a source index and a Linear output reveals the fractional position. Oracle: exact
//! position P_n = sum of ratios in double-double with a running bound eps_n on the one rounded
//! addition per output; pulled_n must lie in [floor(P-eps), floor(P+eps)]; for dyadic ratios
//! eps = 0 and every check is exact.

use checks::*;
use dasp_frame::Frame;
use dasp_interpolate::floor::Floor;
use dasp_interpolate::linear::Linear;
use dasp_sample::{Duplex, I24};
use dasp_signal::interpolate::Converter;
use dasp_signal::Signal;
use std::cell::Cell;
use std::rc::Rc;
use std::time::Instant;
use vmon::dd::DD;
use vmon::spec;
use vmon::{Cli, Report, Rng, J};

const U: f64 = 1.110_223_024_625_156_5e-16;

thread_local! {
    static EVALS: Cell<u64> = const { Cell::new(0) };
    static MULTI_PULL: Cell<u64> = const { Cell::new(0) };
    static NONDYADIC_CROSSINGS: Cell<u64> = const { Cell::new(0) };
    static EXH_R0: Cell<u64> = const { Cell::new(0) };
    static EXH_R1: Cell<u64> = const { Cell::new(0) };
    static EXH_BIG: Cell<u64> = const { Cell::new(0) };
    static PLUS_ONE: Cell<u64> = const { Cell::new(0) };
}
fn bump(c: &'static std::thread::LocalKey<Cell<u64>>) {
    c.with(|c| c.set(c.get() + 1));
}
fn add(c: &'static std::thread::LocalKey<Cell<u64>>, n: u64) {
    c.with(|c| c.set(c.get() + n));
}

/// ramp sample: exact value of frame i, channel c as f64 in the format's float view, plus the sample
#[allow(dead_code)]
trait Ramp: AnyS + Duplex<f64> {
    /// ramp step in LSB (ints) / as a float
    fn ramp(i: u64, c: usize) -> Self;
    /// "swing" content: neighbouring frames far apart (alternating sign, magnitude 0.5..0.95 of
    /// full scale) - exercises the blend arithmetic where deltas exceed half of full scale
    fn swing(i: u64, c: usize) -> Self;
    /// the float view (what to_sample::<f64>() must give): exact
    fn fview(self) -> f64;
    /// largest frame index the ramp can hold without saturating
    fn ramp_len() -> u64;
    /// one LSB in the float view (0 for float formats)
    fn lsb() -> f64;
}
macro_rules! ramp_int {
    ($($T:ty),*) => {$(
        impl Ramp for $T {
            fn ramp(i: u64, c: usize) -> Self {
                let f = <$T as IntS>::FMT;
                let k = (f.half() >> 11).max(1);
                let amp = (i as i128 * k + c as i128).min(f.half() - 1) - if f.bits >= 16 { f.half() / 2 } else { 0 };
                <$T as IntS>::from_raw(f.from_amp(amp.clamp(-f.half(), f.half() - 1)))
            }
            fn swing(i: u64, c: usize) -> Self {
                let f = <$T as IntS>::FMT;
                let h = f.half() as f64;
                let mag = 0.5 + 0.45 * ((vmon::rng::mix64(i * 31 + c as u64) % 1000) as f64 / 1000.0);
                let sign = if (i + c as u64) % 2 == 0 { 1.0 } else { -1.0 };
                let amp = (sign * mag * h) as i128;
                <$T as IntS>::from_raw(f.from_amp(amp.clamp(-(f.half() - 1), f.half() - 1)))
            }
            fn fview(self) -> f64 {
                spec::int_to_f64(<$T as IntS>::FMT, self.raw())
            }
            fn ramp_len() -> u64 {
                let f = <$T as IntS>::FMT;
                if f.bits >= 16 { 2040 } else { 120 }
            }
            fn lsb() -> f64 {
                spec::pow2(-((<$T as IntS>::FMT.bits - 1) as i32))
            }
        }
    )*};
}
ramp_int!(i16, u8, I24, i32);
fn swing_f(i: u64, c: usize) -> f64 {
    let mag = 0.5 + 0.45 * ((vmon::rng::mix64(i * 31 + c as u64) % 1000) as f64 / 1000.0);
    if (i + c as u64) % 2 == 0 {
        mag
    } else {
        -mag
    }
}
impl Ramp for f64 {
    fn ramp(i: u64, c: usize) -> Self {
        (i as f64 + c as f64 * 0.125) / 4096.0 - 0.25
    }
    fn swing(i: u64, c: usize) -> Self {
        swing_f(i, c)
    }
    fn fview(self) -> f64 {
        self
    }
    fn ramp_len() -> u64 {
        u64::MAX
    }
    fn lsb() -> f64 {
        0.0
    }
}
impl Ramp for f32 {
    fn ramp(i: u64, c: usize) -> Self {
        ((i % 8192) as f32 + c as f32 * 0.125) / 8192.0 - 0.25
    }
    fn swing(i: u64, c: usize) -> Self {
        swing_f(i, c) as f32
    }
    fn fview(self) -> f64 {
        self as f64
    }
    fn ramp_len() -> u64 {
        8000
    }
    fn lsb() -> f64 {
        0.0
    }
}

#[derive(Clone, Copy, PartialEq, Debug)]
enum Interp {
    Floor,
    Linear,
}

#[derive(Clone, Debug)]
enum Ratios {
    Const(f64),
    /// set through the converter's setters between outputs
    Setter(Rc<Vec<f64>>),
    /// through mul_hz with an instrumented control signal
    MulHz(Rc<Vec<f64>>),
}
impl Ratios {
    fn at(&self, k: usize) -> f64 {
        match self {
            Ratios::Const(r) => *r,
            Ratios::Setter(v) | Ratios::MulHz(v) => v[k.min(v.len() - 1)],
        }
    }
}

fn is_dyadic(r: f64) -> bool {
    let s = r * 1024.0;
    r < 1024.0 && s == s.trunc()
}

struct Model {
    p: DD,
    eps: f64,
    exact: bool,
    iv_hi: f64,
}

/// one converter run. `src_len` = total source frames (None = infinite); `n_out` outputs requested
/// (for finite sources the run continues until is_exhausted()).
fn run<F>(rep: &mut Report, fname: &'static str, interp: Interp, ratios: &Ratios, label: &str, src_len: Option<u64>, n_out: u64, ctor: u8) -> bool
where
    F: Frame + std::fmt::Debug + 'static,
    F::Sample: Ramp,
{
    let ctor_in = ctor;
    let case = || format!("fmt={};interp={:?};ratios={};len={};n={};ctor={}", fname, interp, label, src_len.map(|l| l as i64).unwrap_or(-1), n_out, ctor_in);
    macro_rules! fail {
        ($what:expr, $($fmt:tt)*) => {{
            rep.violation(&format!("converter|{:?}|{}", interp, $what), format!("{} {} len {:?}: {}", fname, label, src_len, format!($($fmt)*)), case());
            return false;
        }};
    }
    // ctor >= 10: same constructors, "swing" content instead of the ramp
    let swing = ctor >= 10;
    let ctor = ctor % 10;
    let frame_at = |i: u64| -> F {
        match src_len {
            Some(l) if i >= l => F::EQUILIBRIUM,
            _ if swing => F::from_fn(|c| <F::Sample as Ramp>::swing(i, c)),
            _ => F::from_fn(|c| <F::Sample as Ramp>::ramp(i, c)),
        }
    };
    let gen: fn(u64) -> F = if swing { |i| F::from_fn(|c| <F::Sample as Ramp>::swing(i, c)) } else { |i| F::from_fn(|c| <F::Sample as Ramp>::ramp(i, c)) };
    let probe = Probe::new();
    let mut src = match src_len {
        Some(l) => USource::generated(gen, l, probe.clone()),
        None => USource::infinite(gen, probe.clone()),
    };
    // priming, the documented way: pull the interpolator's initial frames from the source
    let prime: u64 = if interp == Interp::Floor { 1 } else { 2 };
    let a = src.next();
    let b = if prime == 2 { src.next() } else { a };
    let r0 = ratios.at(0);
    let ctl_probe = Probe::new();
    // R = frames the source still holds after priming
    let remaining: Option<u64> = src_len.map(|l| l.saturating_sub(prime));
    enum Conv<F: Frame>
    where
        F::Sample: Duplex<f64>,
    {
        F(Converter<USource<F>, Floor<F>>),
        L(Converter<USource<F>, Linear<F>>),
        MF(dasp_signal::MulHz<USource<F>, USource<f64>, Floor<F>>),
        ML(dasp_signal::MulHz<USource<F>, USource<f64>, Linear<F>>),
    }
    let mut conv: Conv<F> = match (interp, ratios) {
        (Interp::Floor, Ratios::MulHz(v)) => Conv::MF(src.mul_hz(Floor::new(a), USource::finite(v.clone(), ctl_probe.clone()))),
        (Interp::Linear, Ratios::MulHz(v)) => Conv::ML(src.mul_hz(Linear::new(a, b), USource::finite(v.clone(), ctl_probe.clone()))),
        (Interp::Floor, _) => Conv::F(match ctor {
            0 => Converter::scale_playback_hz(src, Floor::new(a), r0),
            1 => src.scale_hz(Floor::new(a), r0),
            2 => Converter::scale_sample_hz(src, Floor::new(a), 1.0 / r0),
            _ => src.from_hz_to_hz(Floor::new(a), r0 * 48_000.0, 48_000.0),
        }),
        (Interp::Linear, _) => Conv::L(match ctor {
            0 => Converter::scale_playback_hz(src, Linear::new(a, b), r0),
            1 => src.scale_hz(Linear::new(a, b), r0),
            2 => Converter::scale_sample_hz(src, Linear::new(a, b), 1.0 / r0),
            _ => Converter::from_hz_to_hz(src, Linear::new(a, b), r0 * 48_000.0, 48_000.0),
        }),
    };
    // ctor 2/3 compute the ratio with a rounding (1/(1/r), r*48000/48000): take the effective one
    let eff = |r: f64| -> f64 {
        match (ratios, ctor) {
            (Ratios::Const(_), 2) => 1.0 / (1.0 / r),
            (Ratios::Const(_), 3) => (r * 48_000.0) / 48_000.0,
            _ => r,
        }
    };
    let mut m = Model { p: DD::ZERO, eps: 0.0, exact: true, iv_hi: 0.0 };
    let mut n: u64 = 0;
    let mut outputs_until_exhausted: Option<u64> = None;
    let hard_cap = n_out.max(1) * 4 + 64;
    loop {
        // ---- exhaustion, before producing output n
        let pulls_before = probe.pulls() - prime;
        let is_ex = match &conv {
            Conv::F(c) => c.is_exhausted(),
            Conv::L(c) => c.is_exhausted(),
            Conv::MF(c) => c.is_exhausted(),
            Conv::ML(c) => c.is_exhausted(),
        };
        let p_lo = m.p.add_f(-m.eps).floor().to_f64();
        let p_hi = m.p.add_f(m.eps).floor().to_f64();
        if let Some(r) = remaining {
            let src_ex = pulls_before >= r;
            let need_lo = p_lo > pulls_before as f64; // certainly needs a pull
            let need_hi = p_hi > pulls_before as f64; // possibly needs a pull
            let ctl_ex = matches!(ratios, Ratios::MulHz(v) if n as usize >= v.len());
            let want_certain = (src_ex && need_lo) || ctl_ex;
            let want_possible = (src_ex && need_hi) || ctl_ex;
            if is_ex && !want_possible {
                fail!("exhausted_too_early", "before output {}: is_exhausted() = true but the source {} and position {:e} needs {} pulls (done {})", n, if src_ex { "is exhausted" } else { "still has frames" }, m.p.to_f64(), p_hi, pulls_before);
            }
            if !is_ex && want_certain {
                fail!("not_exhausted_when_source_is_and_next_output_needs_a_frame", "before output {}: is_exhausted() = false; source exhausted: {}, position {:e}, pulls done {}", n, src_ex, m.p.to_f64(), pulls_before);
            }
            if is_ex && outputs_until_exhausted.is_none() {
                outputs_until_exhausted = Some(n);
                match r {
                    0 => bump(&EXH_R0),
                    1 => bump(&EXH_R1),
                    _ => bump(&EXH_BIG),
                }
            }
            if is_ex && n >= n_out {
                break;
            }
        } else if is_ex {
            fail!("exhausted_on_infinite_source", "before output {}", n);
        }
        if n >= n_out && remaining.is_none() {
            break;
        }
        if n >= hard_cap {
            break;
        }
        // ---- ratio for this output
        let r_n = eff(ratios.at(n as usize));
        if let Ratios::Setter(_) = ratios {
            match &mut conv {
                Conv::F(c) => match n % 3 {
                    0 => c.set_playback_hz_scale(r_n),
                    1 => c.set_hz_to_hz(r_n * 2.0, 2.0),
                    _ => c.set_sample_hz_scale(1.0 / r_n),
                },
                Conv::L(c) => match n % 3 {
                    0 => c.set_playback_hz_scale(r_n),
                    1 => c.set_hz_to_hz(r_n * 2.0, 2.0),
                    _ => c.set_sample_hz_scale(1.0 / r_n),
                },
                _ => {}
            }
        }
        let r_n = if let Ratios::Setter(_) = ratios {
            match n % 3 {
                0 => r_n,
                1 => (r_n * 2.0) / 2.0,
                _ => 1.0 / (1.0 / r_n),
            }
        } else {
            r_n
        };
        // ---- produce
        let out: F = match &mut conv {
            Conv::F(c) => c.next(),
            Conv::L(c) => c.next(),
            Conv::MF(c) => c.next(),
            Conv::ML(c) => c.next(),
        };
        bump(&EVALS);
        let pulls = probe.pulls() - prime;
        if pulls - pulls_before >= 3 {
            bump(&MULTI_PULL);
        }
        if !m.exact {
            add(&NONDYADIC_CROSSINGS, pulls - pulls_before);
        }
        if (pulls as f64) < p_lo || (pulls as f64) > p_hi {
            let what = if (pulls as f64) > p_hi { "pulled_more_than_floor_of_position" } else { "pulled_fewer_than_floor_of_position" };
            fail!(what, "output {}: {} source frames pulled beyond priming, position P = {:e} (+- {:e}) allows [{}, {}]", n, pulls, m.p.to_f64(), m.eps, p_lo, p_hi);
        }
        if let Ratios::MulHz(v) = ratios {
            let want = (n + 1).min(v.len() as u64 + (n + 1 - (n + 1).min(v.len() as u64)));
            if ctl_probe.pulls() != n + 1 {
                fail!("control_signal_not_pulled_exactly_once_per_output", "after {} outputs the ratio signal was pulled {} times (expected {})", n + 1, ctl_probe.pulls(), want);
            }
        }
        // ---- the frame itself
        let left = frame_at(pulls);
        match interp {
            Interp::Floor => {
                if out != left {
                    fail!("wrong_source_frame", "output {}: {:?}, expected source frame #{} = {:?}", n, out, pulls, left);
                }
            }
            Interp::Linear => {
                let right = frame_at(pulls + 1);
                // fractional position interval
                let x_c = m.p.add_f(-(pulls as f64)).to_f64();
                let (x_lo, x_hi) = ((x_c - m.eps).max(0.0), (x_c + m.eps).min(1.0));
                for c in 0..F::CHANNELS {
                    let l = left.channel(c).unwrap().fview();
                    let r = right.channel(c).unwrap().fview();
                    let o = out.channel(c).unwrap().fview();
                    let lsb = <F::Sample as Ramp>::lsb();
                    let d = r - l;
                    let tol = 4.0 * U * l.abs().max(r.abs()) + d.abs() * 2.0 * m.eps + 1e-300 + if lsb > 0.0 { lsb * (1.0 + 1e-9) } else if <F::Sample as AnyS>::FLOAT_P == 24 { 6.0e-8 * l.abs().max(r.abs()) } else { 0.0 };
                    let (b0, b1) = (l + d * x_lo, l + d * x_hi);
                    let (lo, hi) = (b0.min(b1) - tol, b0.max(b1) + tol);
                    if !(o >= lo && o <= hi) {
                        fail!("not_the_straight_line_blend", "output {} channel {}: {:e}; frames #{} = {:e} and #{} = {:e} at fraction {:e} give {:e} (allowed [{:e}, {:e}])", n, c, o, pulls, l, pulls + 1, r, x_c, l + d * x_c, lo, hi);
                    }
                    if !(o >= l.min(r) - tol && o <= l.max(r) + tol) {
                        fail!("outside_the_two_frames", "output {} channel {}: {:e} not between {:e} and {:e}", n, c, o, l, r);
                    }
                }
                if m.exact && x_c == 0.0 && out != left {
                    fail!("integer_position_not_the_source_frame", "output {} at integer position {}: {:?} expected {:?}", n, pulls, out, left);
                }
            }
        }
        // ---- advance the model: iv' = fl(iv + r)
        if !is_dyadic(r_n) {
            m.exact = false;
        }
        let iv_hi = (m.p.add_f(-(pulls as f64)).to_f64() + m.eps).max(0.0);
        m.iv_hi = iv_hi;
        if !m.exact {
            m.eps = m.eps + U * (iv_hi + r_n) * (1.0 + 4.0 * U);
        }
        m.p = m.p.add_f(r_n);
        n += 1;
    }
    // ---- count law for constant ratios on finite sources
    if let (Some(rm), Ratios::Const(r), Some(cnt)) = (remaining, ratios, outputs_until_exhausted) {
        let r = eff(*r);
        let base = ((rm as f64 + 1.0) / r).ceil();
        let slack = if m.exact { 0.0 } else { 1.0 };
        if (cnt as f64) < base - slack || (cnt as f64) > base + 1.0 + slack {
            fail!("output_count", "constant ratio {:e} over a source with {} frames after priming yielded {} outputs before exhaustion, expected ceil((R+1)/r) = {} or one more", r, rm, cnt, base);
        }
        if cnt as f64 == base + 1.0 {
            bump(&PLUS_ONE);
        }
    }
    true
}

macro_rules! frame_types {
    ($m:ident) => {
        $m!("f64", f64);
        $m!("f32x2", [f32; 2]);
        $m!("i16", i16);
        $m!("u8x2", [u8; 2]);
        $m!("I24", I24);
        $m!("i32", i32);
    };
}
const FNAMES: [&str; 6] = ["f64", "f32x2", "i16", "u8x2", "I24", "i32"];

fn max_len_for(fname: &str) -> u64 {
    match fname {
        "u8x2" => 120,
        "f64" => u64::MAX,
        "f32x2" => 8000,
        _ => 2040,
    }
}

fn run_any(rep: &mut Report, fname: &str, interp: Interp, ratios: &Ratios, label: &str, src_len: Option<u64>, n_out: u64, ctor: u8) -> bool {
    let mut ok = true;
    macro_rules! go {
        ($name:expr, $F:ty) => {
            if fname == $name {
                ok = run::<$F>(rep, $name, interp, ratios, label, src_len, n_out, ctor);
            }
        };
    }
    let r = vmon::catch(std::panic::AssertUnwindSafe(|| {
        frame_types!(go);
    }));
    if let Err(m) = r {
        rep.violation(&format!("converter|{:?}|panic", interp), format!("{} {} len {:?} ctor {}: panicked: {}", fname, label, src_len, ctor, m), format!("fmt={};interp={:?};ratios={};len={};n={};ctor={}", fname, interp, label, src_len.map(|l| l as i64).unwrap_or(-1), n_out, ctor));
        return false;
    }
    ok
}

fn const_ratios() -> Vec<(String, f64)> {
    let mut v: Vec<(String, f64)> = Vec::new();
    for k in [0.125, 0.25, 0.5, 0.75, 1.0, 1.25, 1.5, 2.0, 2.5, 3.0, 4.0, 7.0, 1.0 / 1024.0, 3.0 / 1024.0, 1023.0 / 1024.0, 1025.0 / 1024.0] {
        v.push((format!("c{}", k), k));
    }
    for (n, k) in [("0.1", 0.1), ("third", 1.0 / 3.0), ("44k1_48k", 44_100.0 / 48_000.0), ("48k_44k1", 48_000.0 / 44_100.0), ("pi_2", std::f64::consts::FRAC_PI_2), ("1-ulp", 1.0 - 2.0 * U), ("1+ulp", 1.0 + 2.0 * U), ("1e-3", 1e-3), ("37.7", 37.7)] {
        v.push((format!("c{}", n), k));
    }
    v
}

fn varying(seed: u64, which: usize, n: usize) -> (String, Vec<f64>) {
    let mut rng = Rng::derive(seed, &[8, which as u64]);
    match which % 5 {
        0 => ("var_dyadic".into(), (0..n).map(|i| [0.5, 1.0, 0.25, 2.0, 1.5, 0.125][i % 6]).collect()),
        1 => ("var_random".into(), (0..n).map(|_| 0.05 + rng.f64() * 3.0).collect()),
        2 => ("var_sweep".into(), (0..n).map(|i| 0.25 + 2.0 * i as f64 / n as f64).collect()),
        3 => ("var_jumps".into(), (0..n).map(|i| if (i / 7) % 2 == 0 { 0.01 } else { 9.3 }).collect()),
        _ => ("var_dyadic_random".into(), (0..n).map(|_| (1 + rng.below(4096)) as f64 / 1024.0).collect()),
    }
}

fn flush(rep: &mut Report) {
    rep.eval(EVALS.with(|c| c.replace(0)));
    rep.hit_n("output_pulled_three_or_more_frames", MULTI_PULL.with(|c| c.replace(0)));
    rep.hit_n("integer_positions_crossed_with_non_dyadic_ratio", NONDYADIC_CROSSINGS.with(|c| c.replace(0)));
    rep.hit_n("exhaustion_with_R_0", EXH_R0.with(|c| c.replace(0)));
    rep.hit_n("exhaustion_with_R_1", EXH_R1.with(|c| c.replace(0)));
    rep.hit_n("exhaustion_with_R_large", EXH_BIG.with(|c| c.replace(0)));
    rep.hit_n("count_law_plus_one_cases", PLUS_ONE.with(|c| c.replace(0)));
}

// ------------------------------------------------------------------ ratio 1 as "equal rates"
/// `from_hz_to_hz(r, r)` and `set_hz_to_hz(r, r)` ARE ratio exactly 1, whatever r is: the source
/// must come through unchanged (floor: the frame itself; linear: the frame itself, fraction 0),
/// one pull per output, for thousands of frames. The setter is applied mid-stream at a whole
/// position (after running at ratio 1 through another route) and at a fractional one (after two
/// outputs at ratio 0.5, i.e. at P = 1.0: whole again), and the position must keep its value.
fn equal_rates(rep: &mut Report, seed: u64, n_rates: usize, frames: u64) {
    fn g(i: u64) -> f64 {
        i as f64 + 1.0
    }
    let mut rng = Rng::derive(seed, &[83]);
    let mut rates: Vec<f64> = vec![49.0, 11_000.0, 22_000.0, 44_100.0, 48_000.0, 1.0, 3.0, 0.1, 1e-3, 1e9, 7.0, 96_000.0, 12_345.678];
    for _ in 0..n_rates {
        rates.push(rng.f64_in(0.5, 200_000.0));
        rates.push((1 + rng.below(100_000)) as f64);
    }
    for (k, r) in rates.iter().enumerate() {
        let case = format!("live=2;seed={};rate={:e}", seed, r);
        let res = vmon::catch(std::panic::AssertUnwindSafe(|| -> Result<(), String> {
            for linear in [false, true] {
                for via_setter in [false, true] {
                    let probe = Probe::new();
                    let mut s = USource::infinite(g, probe.clone());
                    let (a, b) = (s.next(), if linear { s.next() } else { 0.0 });
                    let prime = probe.pulls();
                    macro_rules! run {
                        ($c:expr) => {{
                            let mut c = $c;
                            let mut want_idx = 0u64; // source frame index the next output must be
                            if via_setter {
                                // two outputs at ratio 0.5 (positions 0, 0.5), then equal rates at P = 1.0
                                let o0 = c.next();
                                let o1 = c.next();
                                let e1 = if linear { g(0) + 0.5 * (g(1) - g(0)) } else { g(0) };
                                if o0 != g(0) || o1 != e1 {
                                    return Err(format!("warm-up at ratio 0.5: {} {} expected {} {}", o0, o1, g(0), e1));
                                }
                                c.set_hz_to_hz(*r, *r);
                                want_idx = 1;
                            }
                            for n in 0..frames {
                                let got = c.next();
                                let want = g(want_idx + n);
                                if got != want {
                                    return Err(format!("{} via {}: output {} after the rates were made equal = {:e}, the source frame is {:e} (drift {:e})", if linear { "linear" } else { "floor" }, if via_setter { "set_hz_to_hz(r, r) at P = 1.0" } else { "from_hz_to_hz(r, r)" }, n, got, want, got - want));
                                }
                            }
                            let pulls = probe.pulls() - prime;
                            let want_pulls = want_idx + frames - 1;
                            if pulls != want_pulls {
                                return Err(format!("{} via {}: {} source frames pulled for {} outputs at ratio 1 (expected {})", if linear { "linear" } else { "floor" }, if via_setter { "setter" } else { "constructor" }, pulls, frames, want_pulls));
                            }
                        }};
                    }
                    match (linear, via_setter) {
                        (false, false) => run!(s.from_hz_to_hz(Floor::new(a), *r, *r)),
                        (true, false) => run!(s.from_hz_to_hz(Linear::new(a, b), *r, *r)),
                        (false, true) => run!(s.scale_hz(Floor::new(a), 0.5)),
                        (true, true) => run!(s.scale_hz(Linear::new(a, b), 0.5)),
                    }
                }
            }
            Ok(())
        }));
        match res {
            Ok(Ok(())) => {}
            Ok(Err(d)) => {
                rep.violation("converter|equal_rates|not_ratio_one", format!("rate {:e}: {}", r, d), case);
                return;
            }
            Err(m) => {
                rep.violation("converter|equal_rates|panic", format!("rate {:e}: {}", r, m), case);
                return;
            }
        }
        rep.eval(4 * frames);
        rep.nontrivial(vmon::hash_combine(0x6571, k as u64 ^ r.to_bits()));
        rep.hit("ratio_one_requested_as_equal_rates");
    }
}

// ------------------------------------------------------------------ a source that is fed later
/// Exhaustion reporting over a source whose own exhaustion is NOT sticky: a queue shared with the
/// harness, exhausted while empty, live again once fed (a channel; in-library: an up-sampling
/// converter past the end of its source). "Exhausted exactly when the source is exhausted and the
/// next output needs a further source frame" is a statement about the source NOW. Ratios are
/// dyadic, so "needs a further frame" (floor(n*r) > frames pulled so far) is decided exactly.
struct LiveSource {
    q: Rc<std::cell::RefCell<std::collections::VecDeque<f64>>>,
    pulls: Rc<Cell<u64>>,
}
impl Signal for LiveSource {
    type Frame = f64;
    fn next(&mut self) -> f64 {
        self.pulls.set(self.pulls.get() + 1);
        self.q.borrow_mut().pop_front().unwrap_or(0.0)
    }
    fn is_exhausted(&self) -> bool {
        self.q.borrow().is_empty()
    }
}
fn live_exhaustion(rep: &mut Report, seed: u64, n_hist: u64) {
    let mut revived = 0u64;
    for h in 0..n_hist {
        let mut rng = Rng::derive(seed, &[81, h]);
        let r = [0.5f64, 1.0, 1.5, 0.25, 2.0, 0.75, 3.0][rng.usize_below(7)];
        let linear = rng.bool();
        let steps = 20 + rng.usize_below(60);
        let feeds: Vec<usize> = (0..steps).map(|_| if rng.chance(1, 3) { rng.usize_below(5) } else { 0 }).collect();
        let case = format!("live=1;seed={};h={}", seed, h);
        let res = vmon::catch(std::panic::AssertUnwindSafe(|| -> Result<u64, String> {
            let q = Rc::new(std::cell::RefCell::new(std::collections::VecDeque::new()));
            let pulls = Rc::new(Cell::new(0u64));
            let mut id = 1.0f64;
            for _ in 0..3 {
                q.borrow_mut().push_back(id);
                id += 1.0;
            }
            let mut src = LiveSource { q: q.clone(), pulls: pulls.clone() };
            let (a, b) = (src.next(), if linear { src.next() } else { 0.0 });
            let prime = pulls.get();
            enum C {
                F(Converter<LiveSource, Floor<f64>>),
                L(Converter<LiveSource, Linear<f64>>),
            }
            let mut conv = if linear { C::L(src.scale_hz(Linear::new(a, b), r)) } else { C::F(src.scale_hz(Floor::new(a), r)) };
            let mut revived = 0u64;
            let mut was_exhausted = false;
            for (n, feed) in feeds.iter().enumerate() {
                for _ in 0..*feed {
                    q.borrow_mut().push_back(id);
                    id += 1.0;
                }
                let done = pulls.get() - prime;
                let need = (n as f64 * r).floor() as u64 > done;
                let want = need && q.borrow().is_empty();
                let got = match &conv {
                    C::F(c) => c.is_exhausted(),
                    C::L(c) => c.is_exhausted(),
                };
                if got != want {
                    return Err(format!("{} ratio {}: before output {} is_exhausted() = {} but the source {} ({} frames queued) and the next output {} a further frame (position {}, {} pulled)", if linear { "linear" } else { "floor" }, r, n, got, if q.borrow().is_empty() { "is exhausted" } else { "is NOT exhausted now" }, q.borrow().len(), if need { "needs" } else { "does not need" }, n as f64 * r, done));
                }
                if was_exhausted && !want && *feed > 0 {
                    revived += 1;
                }
                was_exhausted = want;
                match &mut conv {
                    C::F(c) => {
                        c.next();
                    }
                    C::L(c) => {
                        c.next();
                    }
                }
            }
            Ok(revived)
        }));
        match res {
            Ok(Ok(k)) => revived += k,
            Ok(Err(d)) => {
                rep.violation("converter|live_source|is_exhausted", d, case);
                return;
            }
            Err(m) => {
                rep.violation("converter|live_source|panic", m, case);
                return;
            }
        }
        rep.eval(steps as u64);
        rep.nontrivial(vmon::hash_combine(0x6c76, vmon::hash_combine(seed, h)));
    }
    rep.hit_n("source_fed_again_after_converter_reported_exhaustion", revived);
}

fn main() {
    let cli = Cli::parse();
    let t0 = Instant::now();
    let mut rep = Report::new("C08", &cli.stage);
    let consts = const_ratios();
    if let Some(cs) = &cli.case {
        let m = vmon::cli::parse_case(cs);
        if m.get("live").map(|s| s.as_str()) == Some("2") {
            equal_rates(&mut rep, cli.seed, 40, 3_000);
            flush(&mut rep);
            finish(&cli, rep, t0);
        }
        if m.contains_key("live") {
            live_exhaustion(&mut rep, m["seed"].parse().unwrap(), m["h"].parse::<u64>().unwrap() + 1);
            flush(&mut rep);
            finish(&cli, rep, t0);
        }
        let interp = if m["interp"] == "Floor" { Interp::Floor } else { Interp::Linear };
        let len: i64 = m["len"].parse().unwrap();
        let n: u64 = m["n"].parse().unwrap();
        let label = m["ratios"].clone();
        let ratios = if let Some((_, r)) = consts.iter().find(|(l, _)| *l == label) {
            Ratios::Const(*r)
        } else {
            let (kind, rest) = label.split_once(':').unwrap();
            let (which, seed) = rest.split_once(':').unwrap();
            let (_, v) = varying(seed.parse().unwrap(), which.parse().unwrap(), n as usize + 8);
            if kind == "setter" {
                Ratios::Setter(Rc::new(v))
            } else {
                Ratios::MulHz(Rc::new(v))
            }
        };
        run_any(&mut rep, &m["fmt"], interp, &ratios, &label, if len < 0 { None } else { Some(len as u64) }, n, m["ctor"].parse().unwrap());
        flush(&mut rep);
        finish(&cli, rep, t0);
    }
    rep.oblige("ratio_one_requested_as_equal_rates", 1);
    equal_rates(&mut rep, cli.seed, cli.t(40, 2_000), cli.t(3_000, 30_000));
    rep.oblige("source_fed_again_after_converter_reported_exhaustion", 1);
    live_exhaustion(&mut rep, cli.seed, cli.t(2_000, 1_000_000));
    rep.oblige("output_pulled_three_or_more_frames", 1);
    rep.oblige("integer_positions_crossed_with_non_dyadic_ratio", 1000);
    rep.oblige("exhaustion_with_R_0", 1);
    rep.oblige("exhaustion_with_R_1", 1);
    rep.oblige("exhaustion_with_R_large", 1);

    // ---- constant ratios x source lengths 0..=64 x interpolators x frame types
    let mut jobs: Vec<(usize, Interp, usize, Option<u64>, u8)> = Vec::new();
    let max_len = cli.t(24u64, 64u64);
    for (ri, _) in consts.iter().enumerate() {
        for interp in [Interp::Floor, Interp::Linear] {
            for fi in 0..6 {
                for len in 0..=max_len {
                    if cli.thorough() || (len + ri as u64 + fi as u64) % 3 == 0 || len <= 4 {
                        jobs.push((ri, interp, fi, Some(len), ((len + ri as u64) % 4) as u8));
                    }
                    // large swings between neighbouring frames
                    if (len + ri as u64) % 5 == 0 || (cli.thorough() && len % 2 == 0) {
                        jobs.push((ri, interp, fi, Some(len), 10 + ((len + ri as u64) % 4) as u8));
                    }
                }
                jobs.push((ri, interp, fi, None, 0));
                jobs.push((ri, interp, fi, None, 10));
            }
        }
    }
    let n_out_inf = cli.t(400u64, 4_000u64);
    let reps = vmon::par_for(cli.threads, jobs.len() as u64, 32, |_| Report::new("C08", "w"), |rep, i| {
        let (ri, interp, fi, len, ctor) = jobs[i as usize];
        let (label, r) = &consts[ri];
        let f = FNAMES[fi];
        let n_out = match len {
            Some(_) => 0, // run until exhausted
            None => ((n_out_inf as f64).min((max_len_for(f).min(2000) as f64 - 4.0) / r.max(1e-3))) as u64,
        };
        if *r < 0.01 && len.is_some() && len.unwrap() > 8 {
            return; // would take tens of thousands of outputs; covered by the infinite run
        }
        run_any(rep, f, interp, &Ratios::Const(*r), label, len, n_out, ctor);
        rep.nontrivial(vmon::hash_combine(vmon::hash_str(label) ^ fi as u64, vmon::hash_combine(len.map(|l| l + 1).unwrap_or(0), interp as u64)));
        flush(rep);
    });
    for r in reps {
        rep.merge(r);
    }
    rep.exhaustive(format!("{} constant ratios (16 dyadic, 9 non-dyadic) x source lengths 0..={} (every length thorough, 1/3 quick) + infinite x {{floor, linear}} x 6 frame types x 4 constructors", consts.len(), max_len));

    // ---- varying ratios: setters and mul_hz
    let n_var = cli.t(300u64, 2_000_000u64);
    let reps = vmon::par_for(cli.threads, n_var, 4, |_| Report::new("C08", "w"), |rep, i| {
        let mut rng = Rng::derive(cli.seed, &[88, i]);
        let which = rng.usize_below(5);
        let n = 50 + rng.usize_below(300);
        let vseed = cli.seed.wrapping_add(i);
        let (name, v) = varying(vseed, which, n + 8);
        let interp = if rng.bool() { Interp::Floor } else { Interp::Linear };
        let f = FNAMES[rng.usize_below(6)];
        let total: f64 = v.iter().take(n).sum();
        if total + 8.0 > max_len_for(f) as f64 {
            return;
        }
        let setter = rng.bool();
        let ratios = if setter { Ratios::Setter(Rc::new(v)) } else { Ratios::MulHz(Rc::new(v)) };
        let label = format!("{}:{}:{}", if setter { "setter" } else { "mulhz" }, which, vseed);
        let len = if rng.chance(1, 3) { None } else { Some(rng.below((total as u64).max(4) + 6)) };
        let _ = name;
        run_any(rep, f, interp, &ratios, &label, len, n as u64, if rng.chance(1, 3) { 10 } else { 0 });
        rep.nontrivial(vmon::hash_combine(vmon::hash_str(&label), vmon::hash_str(f)));
        if rep.want_sample() && i % 61 == 0 {
            rep.sample(J::obj().set("frame_type", J::s(f)).set("interpolator", J::s(format!("{:?}", interp))).set("ratios", J::s(label)).set("source_len", J::i(len.map(|l| l as i64).unwrap_or(-1))).set("outputs", J::u(n as u64)));
        }
        flush(rep);
    });
    for r in reps {
        rep.merge(r);
    }

    // ---- long runs for drift (f64 frames hold an unbounded ramp)
    let long = cli.t(200_000u64, 20_000_000u64);
    for (label, r) in [("c44k1_48k", 44_100.0 / 48_000.0), ("c0.1", 0.1), ("cpi_2", std::f64::consts::FRAC_PI_2), ("c1+ulp", 1.0 + 2.0 * U), ("c0.75", 0.75)] {
        run_any(&mut rep, "f64", Interp::Linear, &Ratios::Const(r), label, None, long, 0);
        run_any(&mut rep, "f64", Interp::Floor, &Ratios::Const(r), label, None, long, 0);
    }
    flush(&mut rep);
    finish(&cli, rep, t0);
}
