//! C04 — signal adaptors are pointwise, lock-step, one source frame per output frame.
//!
//! Event-log / reference-interpreter monitor: real adaptor trees over instrumented leaves
//! (pull-counting sources with index-identifying frames); a tree interpreter evaluates the same
//! expression on the recorded leaf frames. Checked per output: root frame == interpreter, every
//! leaf pulled exactly max(0, n - delay above it) times, inspect closures saw exactly the frames
//! that flowed through them; and that a borrowed signal resumes where an adaptor left off.

use checks::tree::*;
use checks::*;
use dasp_frame::Frame;
use dasp_sample::{FromSample, Sample, I24};
use dasp_signal::Signal;
use std::cell::Cell;
use std::time::Instant;
use vmon::{Cli, Report, Rng, J};

thread_local! {
    static EVALS: Cell<u64> = const { Cell::new(0) };
    static RESUMES: Cell<u64> = const { Cell::new(0) };
    static DIFF_LEN: Cell<u64> = const { Cell::new(0) };
}
fn bump(c: &'static std::thread::LocalKey<Cell<u64>>) {
    c.with(|c| c.set(c.get() + 1));
}

fn lens_str(l: &[Option<u64>]) -> String {
    l.iter().map(|x| x.map(|v| v.to_string()).unwrap_or("inf".into())).collect::<Vec<_>>().join(".")
}

/// Run one tree for `n_out` outputs. `resume` = Some((kind, m)): additionally wrap the built signal
/// by reference in one more adaptor for m outputs, drop it, and check the signal resumes.
fn run_tree<F>(rep: &mut Report, fname: &'static str, node: &Node, lens: &[Option<u64>], n_out: u64, resume: Option<(&'static str, u64)>) -> bool
where
    F: Frame + std::fmt::Debug + 'static,
    F::Sample: AnyS,
    <F::Sample as Sample>::Signed: AnyS,
    <F::Sample as Sample>::Float: AnyS + FromSample<f64>,
    F::Signed: 'static,
    F::Float: 'static,
{
    let case = || format!("fmt={};tree={};lens={};n={};resume={}", fname, node.encode(), lens_str(lens), n_out, resume.map(|(k, m)| format!("{}:{}", k, m)).unwrap_or("none".into()));
    let leaves: Vec<LeafSpec> = lens.iter().map(|l| LeafSpec { len: *l, probe: Probe::new() }).collect();
    let r = vmon::catch(std::panic::AssertUnwindSafe(|| -> Result<(), (String, String)> {
        let mut logs = Vec::new();
        let mut sig: Dyn<F> = build::<F>(node, &leaves, &mut logs);
        let check_pulls = |n: u64, what: &str| -> Result<(), (String, String)> {
            let mut exp = Vec::new();
            expected_pulls(node, n, &mut exp);
            for (j, want) in exp {
                let got = leaves[j].probe.pulls();
                if got != want {
                    let w = if got > want { "source_pulled_more_than_once_per_output" } else { "source_not_pulled" };
                    return Err((format!("{}|{}", what, w), format!("after {} outputs leaf {} was pulled {} times, expected {}", n, j, got, want)));
                }
            }
            Ok(())
        };
        let mut produced = 0u64;
        let resume_at = resume.map(|_| n_out / 2);
        while produced < n_out {
            if Some(produced) == resume_at {
                let (kind, m) = resume.unwrap();
                // wrap by reference, take m outputs, drop the adaptor
                let wrapper = unary(kind, Node::Leaf(0), 1);
                let mut pulled_from_sig = 0u64;
                {
                    let by_ref: &mut Dyn<F> = sig.by_ref();
                    // the wrapper's "leaf 0" is our whole signal so far: build it by hand
                    let mut ad: Dyn<F> = wrap_ref::<F>(&wrapper, by_ref);
                    for k in 0..m {
                        let got = ad.next();
                        // expected: wrapper applied to the frame the inner tree yields next
                        let delay = if let Node::Delay(_, d) = &wrapper { *d as u64 } else { 0 };
                        let want: F = if k < delay {
                            F::EQUILIBRIUM
                        } else {
                            let inner: F = eval::<F>(node, produced + pulled_from_sig, &leaves);
                            pulled_from_sig += 1;
                            apply_wrapper::<F>(&wrapper, inner)
                        };
                        if got != want {
                            return Err(("by_ref|wrong_frame".into(), format!("borrowed {} output {}: got {:?}, expected {:?}", kind, k, got, want)));
                        }
                        bump(&EVALS);
                    }
                }
                produced += pulled_from_sig;
                check_pulls(produced, "by_ref")?;
                bump(&RESUMES);
                // falls through: the next frame taken from `sig` below must be frame `produced`
            }
            let got = sig.next();
            let want: F = eval::<F>(node, produced, &leaves);
            if got != want {
                return Err((format!("{}|frame_not_pointwise", node.kind()), format!("output {}: got {:?}, interpreter says {:?}", produced, got, want)));
            }
            produced += 1;
            bump(&EVALS);
            check_pulls(produced, node.kind())?;
        }
        // inspect closures saw exactly the frames of their child, in order, and as many as flowed
        let mut counts = Vec::new();
        inspect_counts(node, produced, &mut counts);
        for ((child_enc, log), want_n) in logs.iter().zip(counts) {
            let child = Node::decode(child_enc);
            let seen = log.borrow();
            if seen.len() as u64 != want_n {
                return Err(("inspect|wrong_number_of_calls".into(), format!("inspect over {} was called {} times in {} outputs, expected {}", child_enc, seen.len(), produced, want_n)));
            }
            for (k, f) in seen.iter().enumerate() {
                let want: F = eval::<F>(&child, k as u64, &leaves);
                if *f != want {
                    return Err(("inspect|saw_wrong_frame".into(), format!("inspect over {} saw {:?} as its frame {}, expected {:?}", child_enc, f, k, want)));
                }
            }
        }
        Ok(())
    }));
    match r {
        Ok(Ok(())) => true,
        Ok(Err((sig, detail))) => {
            rep.violation(&format!("adaptor|{}", sig), format!("{} tree {} lens {}: {}", fname, node.encode(), lens_str(lens), detail), case());
            false
        }
        Err(m) => {
            rep.violation(&format!("adaptor|{}|panic", node.kind()), format!("{} tree {} lens {}: panicked: {}", fname, node.encode(), lens_str(lens), m), case());
            false
        }
    }
}

/// wrap a borrowed signal in one unary adaptor
fn wrap_ref<'a, F>(wrapper: &Node, s: &'a mut Dyn<F>) -> Dyn<F>
where
    F: Frame + 'static,
    F::Sample: AnyS,
    <F::Sample as Sample>::Signed: AnyS,
    <F::Sample as Sample>::Float: AnyS + FromSample<f64>,
    F::Signed: 'static,
    F::Float: 'static,
{
    // SAFETY-free trick: Dyn needs 'static, so we move the borrowed signal behind a raw pointer
    // only for the duration of the enclosing block (the wrapper is dropped before `s` is used
    // again). The pointer wrapper forwards next()/is_exhausted() like `&mut S` does.
    struct Borrowed<F>(*mut Dyn<F>);
    impl<F: Frame> Signal for Borrowed<F> {
        type Frame = F;
        fn next(&mut self) -> F {
            // goes through dasp's `impl Signal for &mut S`
            let mut r: &mut Dyn<F> = unsafe { &mut *self.0 };
            Signal::next(&mut r)
        }
        fn is_exhausted(&self) -> bool {
            let r: &mut Dyn<F> = unsafe { &mut *self.0 };
            Signal::is_exhausted(&r)
        }
    }
    let b = Borrowed(s as *mut Dyn<F>);
    type Sg<F> = <<F as Frame>::Sample as Sample>::Signed;
    type Fl<F> = <<F as Frame>::Sample as Sample>::Float;
    match wrapper {
        Node::ScaleAmp(_, g) => Dyn::new(b.scale_amp(<Fl<F> as FromSample<f64>>::from_sample_(*g))),
        Node::OffsetAmp(_, o) => Dyn::new(b.offset_amp(amp_sample::<Sg<F>>(*o))),
        Node::ClipAmp(_, t) => Dyn::new(b.clip_amp(amp_sample::<Sg<F>>(*t))),
        Node::Delay(_, k) => Dyn::new(b.delay(*k)),
        Node::Map(_, _) => Dyn::new(b.map(|x: F| x)),
        Node::Inspect(_) => Dyn::new(b.inspect(|_x: &F| {})),
        _ => Dyn::new(b.map(|x: F| x)),
    }
}
fn apply_wrapper<F>(wrapper: &Node, x: F) -> F
where
    F: Frame,
    F::Sample: AnyS,
    <F::Sample as Sample>::Signed: AnyS,
    <F::Sample as Sample>::Float: AnyS + FromSample<f64>,
{
    type Sg<F> = <<F as Frame>::Sample as Sample>::Signed;
    type Fl<F> = <<F as Frame>::Sample as Sample>::Float;
    match wrapper {
        Node::ScaleAmp(_, g) => x.scale_amp(<Fl<F> as FromSample<f64>>::from_sample_(*g)),
        Node::OffsetAmp(_, o) => x.offset_amp(amp_sample::<Sg<F>>(*o)),
        Node::ClipAmp(_, t) => F::from_fn(|ch| clip_expected::<F::Sample>(*x.channel(ch).unwrap(), *t)),
        _ => x,
    }
}

const RESUME_KINDS: [&str; 6] = ["scale_amp", "offset_amp", "clip_amp", "delay", "map", "inspect"];

macro_rules! frame_types {
    ($m:ident) => {
        $m!("f64", f64);
        $m!("f32x2", [f32; 2]);
        $m!("i16x3", [i16; 3]);
        $m!("u8x2", [u8; 2]);
        $m!("I24x1", [I24; 1]);
        $m!("u32x4", [u32; 4]);
        // wider than the 32 channels the crate documentation speaks of: [S; N] is a Frame for every N
        $m!("i16x40", [i16; 40]);
    };
}

fn run_any(rep: &mut Report, fname: &str, node: &Node, lens: &[Option<u64>], n_out: u64, resume: Option<(&'static str, u64)>) -> bool {
    let mut out = true;
    macro_rules! go {
        ($name:expr, $F:ty) => {
            if fname == $name {
                out = run_tree::<$F>(rep, $name, node, lens, n_out, resume);
            }
        };
    }
    frame_types!(go);
    out
}

const FNAMES: [&str; 7] = ["f64", "f32x2", "i16x3", "u8x2", "I24x1", "u32x4", "i16x40"];

fn tree_hash(fname: &str, node: &Node) -> u64 {
    vmon::hash_combine(vmon::hash_str(fname), vmon::hash_str(&node.encode()))
}

fn flush(rep: &mut Report) {
    rep.eval(EVALS.with(|c| c.replace(0)));
    rep.hit_n("by_ref_resumes", RESUMES.with(|c| c.replace(0)));
    rep.hit_n("leaves_of_different_lengths", DIFF_LEN.with(|c| c.replace(0)));
}

// ------------------------------------------------------------------ concrete stacks, re-wrapped mid-stream
// tree.rs builds every level behind `Box<dyn Signal>`, so a provided trait method that a concrete
// adaptor type overrides (say `Signal::delay` on `Delay<S>`, to merge nested delays) is never
// selected there, and a signal is only ever wrapped when it is fresh. Here the inner adaptor is a
// CONCRETE type over the leaf, is pulled m times (m = 0, 1, 3), and is then moved BY VALUE into
// the outer adaptor - for every ordered pair of the nine unary adaptors. The outer adaptor must
// behave as if it had been given a fresh signal whose frames are the inner one's remaining frames.
type CF = [i16; 2];
const STACK_KINDS: [&str; 9] = ["map", "scale_amp", "offset_amp", "clip_amp", "delay", "inspect", "scale_amp_per_channel", "offset_amp_per_channel", "delay0"];
fn stack_node(kind: &str) -> Node {
    let l = Box::new(Node::Leaf(0));
    match kind {
        "map" => Node::Map(l, 1),
        "scale_amp" => Node::ScaleAmp(l, 0.5),
        "offset_amp" => Node::OffsetAmp(l, 4),
        "clip_amp" => Node::ClipAmp(l, 4),
        "delay" => Node::Delay(l, 2),
        "delay0" => Node::Delay(l, 0),
        "inspect" => Node::Inspect(l),
        "scale_amp_per_channel" => Node::ScaleAmpPerChannel(l, 0.5),
        _ => Node::OffsetAmpPerChannel(l, 4),
    }
}
/// the outer adaptor's pointwise function (delays and inspect are the identity on frames)
fn stack_pointwise(kind: &str, x: CF) -> CF {
    match kind {
        "map" | "scale_amp" => x.scale_amp(0.5f32),
        "offset_amp" => x.offset_amp(amp_sample::<i16>(4)),
        "clip_amp" => CF::from_fn(|ch| clip_expected::<i16>(x[ch], 4)),
        "scale_amp_per_channel" => CF::from_fn(|ch| Sample::mul_amp(x[ch], pc_gain(0.5, ch) as f32)),
        "offset_amp_per_channel" => CF::from_fn(|ch| Sample::add_amp(x[ch], amp_sample::<i16>(pc_offset(4, ch)))),
        _ => x,
    }
}
macro_rules! wrap_concrete {
    (map, $s:expr) => {
        $s.map(|x: CF| x.scale_amp(0.5f32))
    };
    (scale_amp, $s:expr) => {
        $s.scale_amp(0.5f32)
    };
    (offset_amp, $s:expr) => {
        $s.offset_amp(amp_sample::<i16>(4))
    };
    (clip_amp, $s:expr) => {
        $s.clip_amp(amp_sample::<i16>(4))
    };
    (delay, $s:expr) => {
        $s.delay(2)
    };
    (delay0, $s:expr) => {
        $s.delay(0)
    };
    (inspect, $s:expr) => {
        $s.inspect(|_x: &CF| {})
    };
    (scale_amp_per_channel, $s:expr) => {
        $s.scale_amp_per_channel([pc_gain(0.5, 0) as f32, pc_gain(0.5, 1) as f32])
    };
    (offset_amp_per_channel, $s:expr) => {
        $s.offset_amp_per_channel([amp_sample::<i16>(pc_offset(4, 0)), amp_sample::<i16>(pc_offset(4, 1))])
    };
}
macro_rules! stack_pair {
    ($rep:expr, $inner:ident, $outer:ident) => {{
        let (ik, ok) = (stringify!($inner), stringify!($outer));
        for m in [0u64, 1, 3] {
            let case = format!("stack=1;inner={};outer={};m={}", ik, ok, m);
            let leaves = vec![LeafSpec { len: None, probe: Probe::new() }];
            let inner_node = stack_node(ik);
            let k_outer: u64 = if ok == "delay" { 2 } else { 0 };
            let r = vmon::catch(std::panic::AssertUnwindSafe(|| -> Result<(), (String, String)> {
                let base: Dyn<CF> = build::<CF>(&Node::Leaf(0), &leaves, &mut Vec::new());
                let mut a = wrap_concrete!($inner, base);
                for i in 0..m {
                    let (got, want): (CF, CF) = (a.next(), eval::<CF>(&inner_node, i, &leaves));
                    if got != want {
                        return Err((format!("{}|frame_not_pointwise", ik), format!("output {}: got {:?}, interpreter says {:?}", i, got, want)));
                    }
                }
                let mut b = wrap_concrete!($outer, a);
                let n_out = 12u64;
                for j in 0..n_out {
                    let got: CF = b.next();
                    let want: CF = if j < k_outer { CF::EQUILIBRIUM } else { stack_pointwise(ok, eval::<CF>(&inner_node, m + j - k_outer, &leaves)) };
                    if got != want {
                        return Err(("stack|rewrapped_by_value|frame_not_pointwise".into(), format!("{} pulled {} times, then moved into {}: output {} = {:?}, expected {:?}", ik, m, ok, j, got, want)));
                    }
                    bump(&EVALS);
                }
                let mut exp = Vec::new();
                expected_pulls(&inner_node, m + n_out - k_outer, &mut exp);
                for (j, want) in exp {
                    if leaves[j].probe.pulls() != want {
                        return Err(("stack|rewrapped_by_value|source_pull_count".into(), format!("{} pulled {} times, then moved into {}: after {} more outputs the leaf was pulled {} times, expected {}", ik, m, ok, n_out, leaves[j].probe.pulls(), want)));
                    }
                }
                Ok(())
            }));
            match r {
                Ok(Ok(())) => {}
                Ok(Err((sig, d))) => $rep.violation(&format!("adaptor|{}", sig), d, case),
                Err(msg) => $rep.violation("adaptor|stack|rewrapped_by_value|panic", format!("{} pulled {} times, then moved into {}: panicked: {}", ik, m, ok, msg), case),
            }
            $rep.hit("concrete_adaptor_pairs_rewrapped_mid_stream");
            $rep.nontrivial(vmon::hash_combine(vmon::hash_str(ik), vmon::hash_combine(vmon::hash_str(ok), m)));
        }
    }};
}
macro_rules! all_stack_pairs {
    ($rep:expr; $($k:ident),*) => { all_stack_pairs!(@outer $rep; [$($k),*]; $($k),*) };
    (@outer $rep:expr; $all:tt; $($o:ident),*) => { $( all_stack_pairs!(@inner $rep; $o; $all); )* };
    (@inner $rep:expr; $o:ident; [$($i:ident),*]) => { $( stack_pair!($rep, $i, $o); )* };
}
fn concrete_stacks(rep: &mut Report) {
    let _ = STACK_KINDS;
    all_stack_pairs!(rep; map, scale_amp, offset_amp, clip_amp, delay, inspect, scale_amp_per_channel, offset_amp_per_channel, delay0);
}

// ------------------------------------------------------------------ a user-defined sample format
// `Sample` is an open trait. `Sm8` is an 8-bit SIGN-MAGNITUDE format (bit 7 = sign, bits 0..6 =
// magnitude; the family of G.711 bytes), defined purely through the public conversion traits as a
// relabelling of i8: Signed = i8, Float = f32, every conversion goes through the i8 amplitude. Its
// raw codes are NOT ordered like its amplitudes. Whatever an adaptor does to frames of Sm8 must be
// the relabelled result of what it does to the i8 frames of the same amplitudes.
#[derive(Copy, Clone, Debug, PartialEq, PartialOrd)]
struct Sm8(u8);
fn sm_encode(v: i8) -> Sm8 {
    if v < 0 {
        Sm8(0x80 | core::cmp::min(-(v as i16), 127) as u8)
    } else {
        Sm8(v as u8)
    }
}
fn sm_decode(s: Sm8) -> i8 {
    let m = (s.0 & 0x7f) as i8;
    if s.0 & 0x80 != 0 {
        -m
    } else {
        m
    }
}
impl FromSample<Sm8> for i8 {
    fn from_sample_(s: Sm8) -> Self {
        sm_decode(s)
    }
}
impl FromSample<i8> for Sm8 {
    fn from_sample_(s: i8) -> Self {
        sm_encode(s)
    }
}
impl FromSample<Sm8> for f32 {
    fn from_sample_(s: Sm8) -> Self {
        sm_decode(s).to_sample()
    }
}
impl FromSample<f32> for Sm8 {
    fn from_sample_(s: f32) -> Self {
        sm_encode(s.to_sample())
    }
}
impl Sample for Sm8 {
    type Signed = i8;
    type Float = f32;
    const EQUILIBRIUM: Self = Sm8(0);
}
fn user_defined_format(rep: &mut Report, seed: u64) {
    let mut rng = Rng::derive(seed, &[44]);
    // amplitudes within +-60 so that offsets and sums stay in range; -128 has no Sm8 code
    let amps: Vec<[i8; 2]> = (0..64).map(|i| if i < 6 { [[0, 1], [10, -10], [50, -50], [51, -51], [-3, 60], [-60, 20]][i] } else { [rng.range_i64(-60, 60) as i8, rng.range_i64(-60, 60) as i8] }).collect();
    let other: Vec<[i8; 2]> = (0..64).map(|_| [rng.range_i64(-40, 40) as i8, rng.range_i64(-40, 40) as i8]).collect();
    let gains: Vec<[f32; 2]> = (0..64).map(|i| [[0.5, -0.5], [1.0, 0.25], [0.0, -1.0]][i % 3]).collect();
    let enc = |v: &Vec<[i8; 2]>| -> Vec<[Sm8; 2]> { v.iter().map(|f| [sm_encode(f[0]), sm_encode(f[1])]).collect() };
    let n = amps.len();
    macro_rules! pair {
        ($name:expr, |$s:ident, $o:ident| $e:expr) => {{
            let case = format!("custom=1;op={}", $name);
            let r = vmon::catch(std::panic::AssertUnwindSafe(|| -> Result<(), String> {
                #[allow(unused_variables)]
                let a: Vec<[i8; 2]> = {
                    let ($s, $o) = (dasp_signal::from_iter(amps.clone()), dasp_signal::from_iter(other.clone()));
                    $e
                }
                .take(n)
                .collect();
                #[allow(unused_variables)]
                let b: Vec<[Sm8; 2]> = {
                    let ($s, $o) = (dasp_signal::from_iter(enc(&amps)), dasp_signal::from_iter(other.clone()));
                    $e
                }
                .take(n)
                .collect();
                for k in 0..n {
                    let d = [sm_decode(b[k][0]), sm_decode(b[k][1])];
                    if d != a[k] {
                        return Err(format!("output {}: amplitudes {:?} (codes {:?}) but the same adaptor on i8 frames of the same amplitudes gives {:?} (input amplitudes {:?})", k, d, b[k], a[k], amps[k]));
                    }
                }
                Ok(())
            }));
            match r {
                Ok(Ok(())) => {}
                Ok(Err(d)) => rep.violation(&format!("adaptor|user_defined_sample_format|{}", $name), format!("{} over [Sm8; 2] (8-bit sign-magnitude): {}", $name, d), case),
                Err(m) => rep.violation(&format!("adaptor|user_defined_sample_format|{}|panic", $name), m, case),
            }
            rep.hit("adaptors_over_a_user_defined_sample_format");
            rep.eval(2 * n as u64);
        }};
    }
    for t in [50i8, 1, 127, 0] {
        pair!(format!("clip_amp({})", t), |s, o| s.clip_amp(t));
    }
    pair!("scale_amp(0.5)", |s, o| s.scale_amp(0.5f32));
    pair!("scale_amp(-1.0)", |s, o| s.scale_amp(-1.0f32));
    pair!("offset_amp(4)", |s, o| s.offset_amp(4i8));
    pair!("offset_amp(-7)", |s, o| s.offset_amp(-7i8));
    pair!("add_amp", |s, o| s.add_amp(o));
    pair!("mul_amp", |s, o| s.mul_amp(dasp_signal::from_iter(gains.clone())));
    pair!("scale_amp_per_channel", |s, o| s.scale_amp_per_channel([0.5f32, -0.25]));
    pair!("offset_amp_per_channel", |s, o| s.offset_amp_per_channel([3i8, -5]));
    pair!("delay(2).clip_amp(20)", |s, o| s.delay(2).clip_amp(20i8));
}

// ------------------------------------------------------------------ copies
/// clone() / clone_from() of stateful adaptors mid-stream (a delay part-way through its silence)
fn clone_conformance(rep: &mut Report, seed: u64) {
    fn g(i: u64) -> [i16; 2] {
        [(i % 200) as i16 * 64 - 3000, 17 - (i % 50) as i16 * 32]
    }
    let mut rng = Rng::derive(seed, &[42]);
    let mut n = 0;
    let mk = |v: u64| USource::infinite(g, Probe::new()).delay(3 + 2 * v as usize);
    let step = |s: &mut dasp_signal::Delay<USource<[i16; 2]>>, _i: u64| (s.next(), s.is_exhausted());
    n += checks::cloneconf::check_clone_state("delay", "stack=0;clone=1", mk, step, rep, &mut rng, 24, 9, 8);
    let mk2 = |v: u64| USource::generated(g, 12, Probe::new()).delay(2).scale_amp(0.5f32).delay(1 + v as usize);
    n += checks::cloneconf::check_clone_state("delay_scale_delay", "stack=0;clone=1", mk2, |s, _i| (s.next(), s.is_exhausted()), rep, &mut rng, 24, 9, 12);
    rep.eval(n);
    rep.hit_n("clone_conformance_scripts", n);
}

// ------------------------------------------------------------------ long runs past 2^32 frames
/// One adaptor value driven for 2^32 + 2^12 frames: any per-call counter kept in 32 bits wraps
/// inside the run, any 64-bit one does not. Source frame n is `((n % 4093) + 1) / 8192` (exact in
/// f64, never zero, so silence is distinguishable); every output frame is compared with the pointwise function of
/// the source frame(s) it must come from and the source pull count is checked at the end.
/// Each adaptor runs on its own thread; cost is a few ns per frame.
fn long_runs(rep: &mut Report, threads: usize, frames: u64) {
    fn src(n: u64) -> f64 {
        ((n % 4093) + 1) as f64 / 8192.0
    }
    fn source(pulls: std::rc::Rc<Cell<u64>>) -> impl Signal<Frame = f64> {
        dasp_signal::gen_mut(move || {
            let n = pulls.get();
            pulls.set(n + 1);
            src(n)
        })
    }
    const KINDS: [&str; 11] = ["delay(3)", "delay(3).map", "map", "scale_amp", "offset_amp", "clip_amp", "inspect", "add_amp", "mul_amp", "zip_map", "delay(1).add_amp(delay(2))"];
    let reps = vmon::par_for(threads, KINDS.len() as u64, 1, |_| Report::new("C04", "w"), |rep, i| {
        let kind = KINDS[i as usize];
        let case = format!("long=1;kind={};frames={}", i, frames);
        let r = vmon::catch(std::panic::AssertUnwindSafe(|| -> Result<(), String> {
            let (pa, pb) = (std::rc::Rc::new(Cell::new(0u64)), std::rc::Rc::new(Cell::new(0u64)));
            let seen = std::rc::Rc::new(Cell::new(0u64));
            let seen2 = seen.clone();
            // (signal, expected(n), expected pulls of source a after `frames` outputs, of source b)
            let (mut sig, want, pulls_a, pulls_b): (Box<dyn Signal<Frame = f64>>, Box<dyn Fn(u64) -> f64>, u64, u64) = match i {
                0 => (Box::new(source(pa.clone()).delay(3)), Box::new(|n| if n < 3 { 0.0 } else { src(n - 3) }), frames - 3, 0),
                1 => (Box::new(source(pa.clone()).delay(3).map(|x: f64| x * 2.0)), Box::new(|n| if n < 3 { 0.0 } else { src(n - 3) * 2.0 }), frames - 3, 0),
                2 => (Box::new(source(pa.clone()).map(|x: f64| x + 1.0)), Box::new(|n| src(n) + 1.0), frames, 0),
                3 => (Box::new(source(pa.clone()).scale_amp(0.5)), Box::new(|n| src(n) * 0.5), frames, 0),
                4 => (Box::new(source(pa.clone()).offset_amp(0.25)), Box::new(|n| src(n) + 0.25), frames, 0),
                5 => (Box::new(source(pa.clone()).clip_amp(0.25)), Box::new(|n| src(n).min(0.25)), frames, 0),
                6 => (Box::new(source(pa.clone()).inspect(move |_x: &f64| seen2.set(seen2.get() + 1))), Box::new(src), frames, 0),
                7 => (Box::new(source(pa.clone()).add_amp(source(pb.clone()))), Box::new(|n| src(n) + src(n)), frames, frames),
                8 => (Box::new(source(pa.clone()).mul_amp(source(pb.clone()))), Box::new(|n| src(n) * src(n)), frames, frames),
                9 => (Box::new(source(pa.clone()).zip_map(source(pb.clone()), |a: f64, b: f64| a - 0.5 * b)), Box::new(|n| src(n) - 0.5 * src(n)), frames, frames),
                _ => (Box::new(source(pa.clone()).delay(1).add_amp(source(pb.clone()).delay(2))), Box::new(|n| (if n < 1 { 0.0 } else { src(n - 1) }) + (if n < 2 { 0.0 } else { src(n - 2) })), frames - 1, frames - 2),
            };
            for n in 0..frames {
                let got = sig.next();
                let w = want(n);
                if got != w {
                    return Err(format!("output {} = {:e}, expected {:e} (sources pulled {} / {} times so far)", n, got, w, pa.get(), pb.get()));
                }
            }
            if pa.get() != pulls_a || pb.get() != pulls_b {
                return Err(format!("after {} outputs the sources were pulled {} / {} times, expected {} / {}", frames, pa.get(), pb.get(), pulls_a, pulls_b));
            }
            if i == 6 && seen.get() != frames {
                return Err(format!("inspect closure ran {} times in {} outputs", seen.get(), frames));
            }
            Ok(())
        }));
        match r {
            Ok(Ok(())) => {}
            Ok(Err(d)) => rep.violation(&format!("adaptor|long_run|{}", kind), format!("{} driven for {} frames: {}", kind, frames, d), case),
            Err(m) => rep.violation(&format!("adaptor|long_run|{}|panic", kind), format!("{} driven for {} frames: panicked: {}", kind, frames, m), case),
        }
        rep.eval(frames);
        rep.nontrivial_by_construction(1);
        rep.hit("adaptors_driven_past_2_pow_32_frames");
    });
    for r in reps {
        rep.merge(r);
    }
}

fn main() {
    let cli = Cli::parse();
    let t0 = Instant::now();
    let mut rep = Report::new("C04", &cli.stage);
    if let Some(cs) = &cli.case {
        let m = vmon::cli::parse_case(cs);
        if m.contains_key("custom") {
            user_defined_format(&mut rep, cli.seed);
            flush(&mut rep);
            finish(&cli, rep, t0);
        }
        if m.contains_key("stack") {
            concrete_stacks(&mut rep);
            flush(&mut rep);
            finish(&cli, rep, t0);
        }
        if m.contains_key("long") {
            long_runs(&mut rep, cli.threads, m["frames"].parse().unwrap());
            flush(&mut rep);
            finish(&cli, rep, t0);
        }
        let node = Node::decode(&m["tree"]);
        let lens: Vec<Option<u64>> = m["lens"].split('.').map(|x| if x == "inf" { None } else { Some(x.parse().unwrap()) }).collect();
        let resume = if m["resume"] == "none" {
            None
        } else {
            let (k, mm) = m["resume"].split_once(':').unwrap();
            Some((RESUME_KINDS.iter().copied().find(|x| *x == k).unwrap(), mm.parse().unwrap()))
        };
        run_any(&mut rep, &m["fmt"], &node, &lens, m["n"].parse().unwrap(), resume);
        flush(&mut rep);
        finish(&cli, rep, t0);
    }
    if cli.stage == "main" && usize::BITS >= 64 {
        rep.oblige("adaptors_driven_past_2_pow_32_frames", 11);
        long_runs(&mut rep, cli.threads, (1u64 << 32) + (1 << 12));
    }
    // "miri32": a 32-BIT build of dasp executed by the interpreter (usize 32 bits wide):
    // interpreter-sized, every single adaptor with every parameter variant, a seventh of the
    // pairs and a few random trees, dealt to the shards, frame types in rotation
    let lean32 = cli.stage == "miri32";
    if lean32 {
        rep.note(format!("usize::BITS = {} in this stage", usize::BITS));
        if usize::BITS == 32 {
            rep.hit("ran_with_32_bit_usize");
        }
        rep.oblige("ran_with_32_bit_usize", 1);
        rep.oblige("trees_run_as_a_32_bit_build", 1);
    } else {
        rep.oblige("clone_conformance_scripts", 1);
        clone_conformance(&mut rep, cli.seed);
        rep.oblige("adaptors_over_a_user_defined_sample_format", 1);
        user_defined_format(&mut rep, cli.seed);
        rep.oblige("concrete_adaptor_pairs_rewrapped_mid_stream", 243);
        concrete_stacks(&mut rep);
        rep.oblige("by_ref_resumes", 1);
        rep.oblige("leaves_of_different_lengths", 1);
        rep.oblige("adaptor_kinds_at_depth_1", 12);
        rep.oblige("adaptor_pairs", 100);
    }

    // ---- every single adaptor and every ordered pair of adaptors, every variant, every frame type
    let mut systematic: Vec<(Node, Vec<Option<u64>>)> = Vec::new();
    let unary_variants = |k: &str| -> usize {
        match k {
            "map" => 3,
            "scale_amp" => 5,
            "offset_amp" => 4,
            "clip_amp" => 5,
            "delay" => 10,
            "scale_amp_per_channel" | "offset_amp_per_channel" => 3,
            _ => 1,
        }
    };
    for k in UNARY_KINDS {
        for v in 0..unary_variants(k) {
            systematic.push((unary(k, Node::Leaf(0), v), vec![None]));
            systematic.push((unary(k, Node::Leaf(0), v), vec![Some(5)]));
        }
        rep.hit("adaptor_kinds_at_depth_1");
    }
    for k in BINARY_KINDS {
        for v in 0..3 {
            systematic.push((binary(k, Node::Leaf(0), Node::Leaf(1), v), vec![None, None]));
            systematic.push((binary(k, Node::Leaf(0), Node::Leaf(1), v), vec![Some(3), Some(9)]));
            systematic.push((binary(k, Node::Leaf(0), Node::Leaf(1), v), vec![Some(9), Some(3)]));
        }
        rep.hit("adaptor_kinds_at_depth_1");
    }
    for outer in UNARY_KINDS {
        for inner in UNARY_KINDS {
            for v in 0..3 {
                systematic.push((unary(outer, unary(inner, Node::Leaf(0), v), v + 1), vec![None]));
            }
            rep.hit("adaptor_pairs");
        }
        for inner in BINARY_KINDS {
            for v in 0..3 {
                systematic.push((unary(outer, binary(inner, Node::Leaf(0), Node::Leaf(1), v), v), vec![None, Some(7)]));
            }
            rep.hit("adaptor_pairs");
        }
    }
    for outer in BINARY_KINDS {
        for ia in UNARY_KINDS {
            for ib in UNARY_KINDS {
                systematic.push((binary(outer, unary(ia, Node::Leaf(0), 0), unary(ib, Node::Leaf(1), 1), 1), vec![None, None]));
                rep.hit("adaptor_pairs");
            }
        }
        for inner in BINARY_KINDS {
            systematic.push((binary(outer, binary(inner, Node::Leaf(0), Node::Leaf(1), 0), Node::Leaf(2), 2), vec![None, Some(6), None]));
            rep.hit("adaptor_pairs");
        }
    }
    systematic.retain(|(n, _)| n.max_bound(LEAF_AMP) < 0.95);
    let n_sys = systematic.len();
    if lean32 {
        for (i, (node, lens)) in systematic.iter().enumerate() {
            if i as u64 % cli.nshards != cli.shard || (node.n_adaptors() > 1 && (i / cli.nshards as usize) % 7 != 0) {
                continue;
            }
            let f = FNAMES[i % FNAMES.len()];
            run_any(&mut rep, f, node, lens, 12, if i % 3 == 0 { Some((RESUME_KINDS[i % RESUME_KINDS.len()], 1 + (i as u64 % 5))) } else { None });
            rep.hit("trees_run_as_a_32_bit_build");
            flush(&mut rep);
        }
        for i in 0..cli.t(6u64, 20u64) {
            let mut rng = Rng::derive(cli.seed, &[3204, cli.shard, i]);
            let (node, nl) = random_bounded_tree(&mut rng, 3, 4);
            let lens: Vec<Option<u64>> = (0..nl).map(|_| if rng.chance(1, 3) { Some(rng.below(12)) } else { None }).collect();
            run_any(&mut rep, FNAMES[rng.usize_below(FNAMES.len())], &node, &lens, 10, None);
            rep.hit("trees_run_as_a_32_bit_build");
            flush(&mut rep);
        }
        finish(&cli, rep, t0);
    }
    let reps = vmon::par_for(cli.threads, n_sys as u64, 8, |_| Report::new("C04", "w"), |rep, i| {
        let (node, lens) = &systematic[i as usize];
        for f in FNAMES {
            run_any(rep, f, node, lens, 24, None);
            for (ri, rk) in RESUME_KINDS.iter().enumerate() {
                if (i as usize + ri) % 6 == 0 {
                    run_any(rep, f, node, lens, 16, Some((rk, 1 + (i % 5))));
                }
            }
            if node.n_adaptors() >= 2 || f != "f64" {
                rep.nontrivial(tree_hash(f, node));
            }
            if lens.iter().filter_map(|l| *l).collect::<std::collections::BTreeSet<_>>().len() >= 2 {
                bump(&DIFF_LEN);
            }
        }
        flush(rep);
    });
    for r in reps {
        rep.merge(r);
    }
    rep.exhaustive(format!("every adaptor kind alone and every ordered pair of adaptor kinds (unary/unary, unary/binary, binary/unary x unary, binary/binary), parameter variants, x 6 frame types: {} trees", n_sys));

    // ---- random deeper trees
    let depth = cli.t(4, 6);
    let n_rand = cli.t(10_000u64, 5_000_000u64);
    let reps = vmon::par_for(cli.threads, n_rand, 32, |_| Report::new("C04", "w"), |rep, i| {
        let mut rng = Rng::derive(cli.seed, &[4, i]);
        let (node, nl) = random_bounded_tree(&mut rng, depth, 5);
        let lens: Vec<Option<u64>> = (0..nl).map(|_| if rng.chance(1, 3) { Some(rng.below(40)) } else { None }).collect();
        let f = FNAMES[rng.usize_below(7)];
        let n_out = 8 + rng.below(56);
        let resume = if rng.chance(1, 4) { Some((RESUME_KINDS[rng.usize_below(6)], 1 + rng.below(6))) } else { None };
        run_any(rep, f, &node, &lens, n_out, resume);
        if node.n_adaptors() >= 2 || f != "f64" {
            rep.nontrivial(tree_hash(f, &node));
        }
        if rep.want_sample() && i % 997 == 0 {
            rep.sample(J::obj().set("frame_type", J::s(f)).set("tree", J::s(node.encode())).set("leaf_lengths", J::s(lens_str(&lens))).set("outputs", J::u(n_out)));
        }
        flush(rep);
    });
    for r in reps {
        rep.merge(r);
    }
    flush(&mut rep);
    finish(&cli, rep, t0);
}
