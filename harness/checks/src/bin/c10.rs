#![cfg_attr(target_pointer_width = "32", allow(arithmetic_overflow))] // 2^32-sized probes exist only in the 64-bit stages
//! C10 — sample<->frame slice views are lossless, in-place and total; slice ops are safe.
//!
//! Oracle: direct indexing (frame i, channel c == sample i*N+c), pointer and length identity,
//! allocator counters around the boxed conversions, element-wise Frame ops for the in-place
//! functions. Stages: `main` (native, all N in 1..=32 x L x 6 formats x shared/mutable/boxed),
//! `miri` / `asan` (same monitor; aliasing, out-of-bounds and leak detection).

use checks::*;
use dasp_frame::Frame;
use dasp_sample::I24;
use dasp_slice::{
    FromBoxedFrameSlice, FromBoxedSampleSlice, FromFrameSlice, FromFrameSliceMut, FromSampleSlice, FromSampleSliceMut, ToBoxedFrameSlice, ToBoxedSampleSlice, ToFrameSlice, ToFrameSliceMut, ToSampleSlice,
    ToSampleSliceMut,
};
use std::cell::Cell;
use std::time::Instant;
use vmon::{alloc, Cli, Report, J};

#[global_allocator]
static A: alloc::CountingAlloc = alloc::CountingAlloc;

thread_local! {
    static EVALS: Cell<u64> = const { Cell::new(0) };
    static SOME: Cell<u64> = const { Cell::new(0) };
    static NONE: Cell<u64> = const { Cell::new(0) };
    static BOXED_FAIL: Cell<u64> = const { Cell::new(0) };
    static HUGE: Cell<u64> = const { Cell::new(0) };
}
fn bump(c: &'static std::thread::LocalKey<Cell<u64>>) {
    c.with(|c| c.set(c.get() + 1));
}

fn case(fmt: &str, n: usize, l: usize, mode: &str) -> String {
    format!("what=view;fmt={};n={};l={};mode={}", fmt, n, l, mode)
}

/// All view checks for one (format S, width N, length L).
fn check_views<S, const N: usize>(l: usize, rep: &mut Report)
where
    S: AnyS,
    [S; N]: Frame<Sample = S>,
    for<'a> &'a [S]: ToFrameSlice<'a, [S; N]> + FromFrameSlice<'a, [S; N]>,
    for<'a> &'a [[S; N]]: FromSampleSlice<'a, S> + ToSampleSlice<'a, S>,
    for<'a> &'a mut [S]: ToFrameSliceMut<'a, [S; N]> + FromFrameSliceMut<'a, [S; N]>,
    for<'a> &'a mut [[S; N]]: FromSampleSliceMut<'a, S> + ToSampleSliceMut<'a, S>,
    Box<[S]>: ToBoxedFrameSlice<[S; N]> + FromBoxedFrameSlice<[S; N]>,
    Box<[[S; N]]>: FromBoxedSampleSlice<S> + ToBoxedSampleSlice<S>,
{
    let divisible = l % N == 0;
    let samples: Vec<S> = (0..l as u64).map(S::nth).collect();
    let fname = S::NAME;
    macro_rules! fail {
        ($mode:expr, $what:expr, $($fmt:tt)*) => {{
            rep.violation(&format!("view|{}|{}", $mode, $what), format!("fmt {} N {} L {}: {}", fname, N, l, format!($($fmt)*)), case(fname, N, l, $mode));
            return;
        }};
    }

    // ---------------- shared: four routes samples -> frames
    {
        let s: &[S] = &samples[..];
        let routes: [Option<&[[S; N]]>; 4] = [
            ToFrameSlice::to_frame_slice(s),
            dasp_slice::to_frame_slice(s),
            <&[[S; N]] as FromSampleSlice<S>>::from_sample_slice(s),
            dasp_slice::from_sample_slice::<&[[S; N]], S>(s),
        ];
        for (ri, r) in routes.iter().enumerate() {
            match r {
                Some(frames) => {
                    if !divisible {
                        fail!("shared", "some_when_not_divisible", "route {} returned Some", ri);
                    }
                    if frames.len() != l / N {
                        fail!("shared", "wrong_len", "route {} len {} expected {}", ri, frames.len(), l / N);
                    }
                    if l > 0 && frames.as_ptr() as usize != s.as_ptr() as usize {
                        fail!("shared", "not_same_memory", "route {} ptr {:?} vs {:?}", ri, frames.as_ptr(), s.as_ptr());
                    }
                    for (i, f) in frames.iter().enumerate() {
                        for c in 0..N {
                            if !f[c].same(samples[i * N + c]) {
                                fail!("shared", "wrong_content", "route {} frame {} channel {} = {:?}, sample[{}] = {:?}", ri, i, c, f[c], i * N + c, samples[i * N + c]);
                            }
                        }
                    }
                    // inverse: frames -> samples is pointer- and length-identical
                    let back: [&[S]; 4] = [ToSampleSlice::to_sample_slice(*frames), dasp_slice::to_sample_slice(*frames), <&[S] as FromFrameSlice<[S; N]>>::from_frame_slice(*frames), dasp_slice::from_frame_slice::<&[S], [S; N]>(*frames)];
                    for (bi, b) in back.iter().enumerate() {
                        if b.len() != l || (l > 0 && b.as_ptr() != s.as_ptr()) {
                            fail!("shared", "inverse_not_identity", "back route {} len {} ptr {:?} (orig len {} ptr {:?})", bi, b.len(), b.as_ptr(), l, s.as_ptr());
                        }
                    }
                    bump(&SOME);
                }
                None => {
                    if divisible {
                        fail!("shared", "none_when_divisible", "route {} returned None", ri);
                    }
                    bump(&NONE);
                }
            }
            bump(&EVALS);
        }
    }

    // ---------------- mutable: write through the view, read back through the original (and v.v.)
    for route in 0..4 {
        let mut buf = samples.clone();
        let orig_ptr = buf.as_ptr() as usize;
        let got_some;
        {
            let s: &mut [S] = &mut buf[..];
            let r: Option<&mut [[S; N]]> = match route {
                0 => ToFrameSliceMut::to_frame_slice_mut(s),
                1 => dasp_slice::to_frame_slice_mut(s),
                2 => <&mut [[S; N]] as FromSampleSliceMut<S>>::from_sample_slice_mut(s),
                _ => dasp_slice::from_sample_slice_mut::<&mut [[S; N]], S>(s),
            };
            got_some = r.is_some();
            if let Some(frames) = r {
                if !divisible {
                    fail!("mutable", "some_when_not_divisible", "route {}", route);
                }
                if frames.len() != l / N || (l > 0 && frames.as_ptr() as usize != orig_ptr) {
                    fail!("mutable", "wrong_len_or_ptr", "route {} len {} ptr {:?}", route, frames.len(), frames.as_ptr());
                }
                // read, then overwrite every channel through the view
                for (i, f) in frames.iter_mut().enumerate() {
                    for c in 0..N {
                        if !f[c].same(samples[i * N + c]) {
                            fail!("mutable", "wrong_content", "route {} frame {} channel {}", route, i, c);
                        }
                        f[c] = S::nth(1000 + (i * N + c) as u64);
                    }
                }
                // inverse on the mutable view
                let back: &mut [S] = if route % 2 == 0 { ToSampleSliceMut::to_sample_slice_mut(frames) } else { dasp_slice::from_frame_slice_mut::<&mut [S], [S; N]>(frames) };
                if back.len() != l || (l > 0 && back.as_ptr() as usize != orig_ptr) {
                    fail!("mutable", "inverse_not_identity", "route {} len {} ptr {:?}", route, back.len(), back.as_ptr());
                }
                if l > 0 {
                    // and a write through the inverse view
                    back[l - 1] = S::nth(5000);
                }
            } else if divisible {
                fail!("mutable", "none_when_divisible", "route {}", route);
            }
        }
        // read back through the original storage
        if got_some {
            for k in 0..l {
                let want = if k == l - 1 { S::nth(5000) } else { S::nth(1000 + k as u64) };
                if !buf[k].same(want) {
                    fail!("mutable", "write_not_visible", "route {} sample {} = {:?} expected {:?}", route, k, buf[k], want);
                }
            }
        } else {
            for k in 0..l {
                if !buf[k].same(samples[k]) {
                    fail!("mutable", "modified_on_failure", "route {} sample {}", route, k);
                }
            }
        }
        bump(&EVALS);
    }

    // ---------------- boxed: allocation reused on success, released on failure
    for route in 0..2 {
        let boxed: Box<[S]> = samples.clone().into_boxed_slice();
        let ptr = boxed.as_ptr() as usize;
        let before = alloc::snap();
        let r: Option<Box<[[S; N]]>> = if route == 0 { ToBoxedFrameSlice::to_boxed_frame_slice(boxed) } else { dasp_slice::from_boxed_sample_slice::<Box<[[S; N]]>, S>(boxed) };
        let d = alloc::snap().since(&before);
        match r {
            Some(frames) => {
                if !divisible {
                    fail!("boxed", "some_when_not_divisible", "route {}", route);
                }
                if !d.is_zero_traffic() {
                    fail!("boxed", "allocation_not_reused", "route {} heap traffic during conversion: {:?}", route, d);
                }
                if frames.len() != l / N || (l > 0 && frames.as_ptr() as usize != ptr) {
                    fail!("boxed", "wrong_len_or_ptr", "route {} len {} ptr {:?} (orig {:x})", route, frames.len(), frames.as_ptr(), ptr);
                }
                for (i, f) in frames.iter().enumerate() {
                    for c in 0..N {
                        if !f[c].same(samples[i * N + c]) {
                            fail!("boxed", "wrong_content", "route {} frame {} channel {}", route, i, c);
                        }
                    }
                }
                // and back: frames -> samples, same allocation, no traffic
                let before = alloc::snap();
                let back: Box<[S]> = if route == 0 { ToBoxedSampleSlice::to_boxed_sample_slice(frames) } else { dasp_slice::from_boxed_frame_slice::<Box<[S]>, [S; N]>(frames) };
                let d2 = alloc::snap().since(&before);
                if !d2.is_zero_traffic() || back.len() != l || (l > 0 && back.as_ptr() as usize != ptr) {
                    fail!("boxed", "inverse_not_identity", "route {} len {} ptr {:?} traffic {:?}", route, back.len(), back.as_ptr(), d2);
                }
                for k in 0..l {
                    if !back[k].same(samples[k]) {
                        fail!("boxed", "inverse_wrong_content", "route {} sample {}", route, k);
                    }
                }
                let before = alloc::snap();
                drop(back);
                let d3 = alloc::snap().since(&before);
                let bytes = (l * std::mem::size_of::<S>()) as i64;
                if l > 0 && (d3.deallocs != 1 || d3.live_bytes != -bytes) {
                    fail!("boxed", "final_drop_mismatch", "route {} dropping the round-tripped box: {:?} (expected 1 dealloc of {} bytes)", route, d3, bytes);
                }
            }
            None => {
                if divisible {
                    fail!("boxed", "none_when_divisible", "route {}", route);
                }
                bump(&BOXED_FAIL);
                // a failed conversion must have released the allocation it consumed
                let bytes = (l * std::mem::size_of::<S>()) as i64;
                if d.deallocs != 1 || d.live_bytes != -bytes || d.allocs != 0 {
                    fail!("boxed", "failed_conversion_leaks", "route {} heap delta across failed conversion {:?}; expected exactly one dealloc of {} bytes", route, d, bytes);
                }
            }
        }
        bump(&EVALS);
    }
    // frames -> samples starting from frames (always succeeds), incl. empty
    {
        let nf = l / N.max(1);
        let frames: Vec<[S; N]> = (0..nf).map(|i| <[S; N]>::from_fn(|c| S::nth((i * N + c) as u64))).collect();
        let fs: &[[S; N]] = &frames[..];
        let flat: &[S] = ToSampleSlice::to_sample_slice(fs);
        if flat.len() != nf * N || (nf > 0 && flat.as_ptr() as usize != fs.as_ptr() as usize) {
            fail!("shared", "frames_to_samples", "len {} ptr {:?}", flat.len(), flat.as_ptr());
        }
        for k in 0..nf * N {
            if !flat[k].same(S::nth(k as u64)) {
                fail!("shared", "frames_to_samples_content", "sample {}", k);
            }
        }
        let again: Option<&[[S; N]]> = ToFrameSlice::to_frame_slice(flat);
        match again {
            Some(a) if a.len() == nf && (nf == 0 || a.as_ptr() == fs.as_ptr()) => {}
            _ => fail!("shared", "frames_to_samples_to_frames", "not the identity"),
        }
        let bf: Box<[[S; N]]> = frames.clone().into_boxed_slice();
        let p = bf.as_ptr() as usize;
        let before = alloc::snap();
        let bs: Box<[S]> = bf.to_boxed_sample_slice();
        let d = alloc::snap().since(&before);
        if !d.is_zero_traffic() || bs.len() != nf * N || (nf > 0 && bs.as_ptr() as usize != p) {
            fail!("boxed", "frames_to_samples", "len {} traffic {:?}", bs.len(), d);
        }
        bump(&EVALS);
    }
}

// ------------------------------------------------------------------------- in-place slice ops
fn check_inplace(rep: &mut Report) {
    type FA = [i16; 2];
    type FF = [f32; 2];
    let mk_a = |n: usize, off: u64| -> Vec<FA> { (0..n).map(|i| [i16::distinct(off + 2 * i as u64), i16::distinct(off + 2 * i as u64 + 1)]).collect() };
    let mk_f = |n: usize, off: u64| -> Vec<FF> { (0..n).map(|i| [f32::distinct(off + 2 * i as u64), f32::distinct(off + 2 * i as u64 + 1)]).collect() };
    let mk_u = |n: usize, off: u64| -> Vec<[u8; 3]> { (0..n).map(|i| <[u8; 3]>::from_fn(|c| u8::distinct(off + (3 * i + c) as u64))).collect() };
    let mk_m = |n: usize, off: u64| -> Vec<I24> { (0..n).map(|i| I24::distinct(off + i as u64)).collect() };
    for la in 0..=9usize {
        // single-slice ops
        {
            let mut a = mk_a(la, 0);
            dasp_slice::equilibrium(&mut a);
            if a.iter().any(|f| *f != FA::EQUILIBRIUM) {
                rep.violation("inplace|equilibrium|wrong", format!("la {}", la), format!("what=inplace;op=equilibrium;la={};lb=0", la));
            }
            let mut u = mk_u(la, 7);
            dasp_slice::equilibrium(&mut u);
            if u.iter().any(|f| *f != [128u8; 3]) {
                rep.violation("inplace|equilibrium|wrong_unsigned", format!("la {}", la), format!("what=inplace;op=equilibrium;la={};lb=0", la));
            }
            let mut a = mk_a(la, 3);
            let orig = a.clone();
            let mut calls = 0;
            dasp_slice::map_in_place(&mut a, |f| {
                calls += 1;
                f.offset_amp(5)
            });
            if calls != la || a.iter().zip(&orig).any(|(x, o)| *x != o.offset_amp(5)) {
                rep.violation("inplace|map_in_place|wrong", format!("la {} calls {}", la, calls), format!("what=inplace;op=map;la={};lb=0", la));
            }
            rep.eval(3);
        }
        for lb in 0..=9usize {
            let c = |op: &str| format!("what=inplace;op={};la={};lb={}", op, la, lb);
            // each op: (name, run) on fresh data; equal lengths -> exact result, else panic + untouched
            // write
            {
                let mut a = mk_a(la, 0);
                let b = mk_a(lb, 100);
                let before = a.clone();
                let r = vmon::catch(|| dasp_slice::write(&mut a, &b));
                judge(rep, "write", la, lb, r, &a, &before, &b.iter().take(la).cloned().collect::<Vec<_>>(), &c("write"));
            }
            // zip_map_in_place
            {
                let mut a = mk_f(la, 0);
                let b = mk_a(lb, 50);
                let before = a.clone();
                let want: Vec<FF> = before.iter().zip(&b).map(|(x, y)| [x[0] + y[1] as f32, x[1] - y[0] as f32]).collect();
                let r = vmon::catch(|| dasp_slice::zip_map_in_place(&mut a, &b, |x, y| [x[0] + y[1] as f32, x[1] - y[0] as f32]));
                judge(rep, "zip_map_in_place", la, lb, r, &a, &before, &want, &c("zip_map"));
            }
            // zip_map_in_place between frame types of DIFFERENT channel counts (2 vs 4 and 2 vs
            // mono): what must match is the number of frames, whatever the sample counts are
            {
                let mut a = mk_f(la, 0);
                let b: Vec<[i16; 4]> = (0..lb).map(|i| <[i16; 4]>::from_fn(|c| i16::distinct((4 * i + c) as u64 + 70))).collect();
                let before = a.clone();
                let want: Vec<FF> = before.iter().zip(&b).map(|(x, y)| [x[0] + y[3] as f32, x[1] - y[2] as f32]).collect();
                let r = vmon::catch(|| dasp_slice::zip_map_in_place(&mut a, &b, |x, y| [x[0] + y[3] as f32, x[1] - y[2] as f32]));
                judge(rep, "zip_map_in_place_2ch_with_4ch", la, lb, r, &a, &before, &want, &c("zip_map24"));
                let mut a = mk_f(la, 0);
                let b: Vec<i16> = (0..lb).map(|i| i16::distinct(i as u64 + 90)).collect();
                let before = a.clone();
                let want: Vec<FF> = before.iter().zip(&b).map(|(x, y)| [x[0] + *y as f32, x[1]]).collect();
                let r = vmon::catch(|| dasp_slice::zip_map_in_place(&mut a, &b, |x, y| [x[0] + y as f32, x[1]]));
                judge(rep, "zip_map_in_place_2ch_with_mono", la, lb, r, &a, &before, &want, &c("zip_map21"));
            }
            // add_in_place (unsigned destination, signed source: re-centred addition)
            {
                let mut a = mk_u(la, 0);
                let b: Vec<[i8; 3]> = (0..lb).map(|i| <[i8; 3]>::from_fn(|c| i8::distinct((3 * i + c) as u64 + 9))).collect();
                let before = a.clone();
                let want: Vec<[u8; 3]> = before.iter().zip(&b).map(|(x, y)| x.add_amp(*y)).collect();
                let r = vmon::catch(|| dasp_slice::add_in_place(&mut a, &b));
                judge(rep, "add_in_place", la, lb, r, &a, &before, &want, &c("add"));
            }
            // add_in_place on mono custom-type frames
            {
                let mut a = mk_m(la, 0);
                let b = mk_m(lb, 40);
                let before = a.clone();
                let want: Vec<I24> = before.iter().zip(&b).map(|(x, y)| Frame::add_amp(*x, *y)).collect();
                let r = vmon::catch(|| dasp_slice::add_in_place(&mut a, &b));
                judge(rep, "add_in_place_mono", la, lb, r, &a, &before, &want, &c("add_mono"));
            }
            // add_in_place_with_amp_per_channel
            {
                let mut a = mk_a(la, 0);
                let b = mk_a(lb, 60);
                let amp: FF = [0.5, -0.25];
                let before = a.clone();
                let want: Vec<FA> = before.iter().zip(&b).map(|(x, y)| x.add_amp(y.mul_amp(amp))).collect();
                let r = vmon::catch(|| dasp_slice::add_in_place_with_amp_per_channel(&mut a, &b, amp));
                judge(rep, "add_in_place_with_amp_per_channel", la, lb, r, &a, &before, &want, &c("add_amp"));
            }
            rep.eval(5);
            if la != lb {
                rep.nontrivial(vmon::hash_combine(0x1a, (la * 16 + lb) as u64));
            }
        }
    }
    // long slices whose source is BLOCK-SPARSE: runs of exactly silent frames (aligned to 8 ... 128
    // frames, leading / alternating / in the middle) between runs of signal, as a mixer sees them.
    // An operation that skips or batches silent blocks must still land every frame where it belongs.
    // (interpreter-sized selection under Miri)
    let (ls, bss): (&[usize], &[usize]) = if cfg!(miri) { (&[130], &[64]) } else { (&[65, 128, 130, 200, 257, 1000], &[8, 16, 32, 64, 128]) };
    for &l in ls {
        for &bs in bss {
            for phase in 0..3usize {
                let silent = |i: usize| match phase {
                    0 => (i / bs) % 2 == 0,
                    1 => (i / bs) % 2 == 1,
                    _ => (i / bs) == 1 || (i / bs) == 2,
                };
                let cs = format!("what=inplace;op=sparse;la={};lb={}", l, bs * 10 + phase);
                {
                    let mut a = mk_u(l, 0);
                    let b: Vec<[i8; 3]> = (0..l).map(|i| if silent(i) { [0i8; 3] } else { <[i8; 3]>::from_fn(|c| i8::distinct((3 * i + c) as u64 + 9)) }).collect();
                    let before = a.clone();
                    let want: Vec<[u8; 3]> = before.iter().zip(&b).map(|(x, y)| x.add_amp(*y)).collect();
                    let r = vmon::catch(|| dasp_slice::add_in_place(&mut a, &b));
                    judge(rep, "add_in_place_block_sparse_source", l, l, r, &a, &before, &want, &cs);
                }
                {
                    let mut a = mk_a(l, 0);
                    let b: Vec<FA> = mk_a(l, 60).into_iter().enumerate().map(|(i, f)| if silent(i) { [0i16; 2] } else { f }).collect();
                    let amp: FF = [0.5, -0.25];
                    let before = a.clone();
                    let want: Vec<FA> = before.iter().zip(&b).map(|(x, y)| x.add_amp(y.mul_amp(amp))).collect();
                    let r = vmon::catch(|| dasp_slice::add_in_place_with_amp_per_channel(&mut a, &b, amp));
                    judge(rep, "add_in_place_with_amp_block_sparse_source", l, l, r, &a, &before, &want, &cs);
                    let mut a = mk_a(l, 0);
                    let before = a.clone();
                    let r = vmon::catch(|| dasp_slice::write(&mut a, &b));
                    judge(rep, "write_block_sparse_source", l, l, r, &a, &before, &b, &cs);
                    let mut a = mk_a(l, 0);
                    let before = a.clone();
                    let want: Vec<FA> = before.iter().zip(&b).map(|(x, y)| [x[0].wrapping_sub(y[1]), y[0]]).collect();
                    let r = vmon::catch(|| dasp_slice::zip_map_in_place(&mut a, &b, |x: FA, y: FA| [x[0].wrapping_sub(y[1]), y[0]]));
                    judge(rep, "zip_map_in_place_block_sparse_source", l, l, r, &a, &before, &want, &cs);
                }
                rep.eval(4);
                rep.hit("block_sparse_long_slices");
            }
        }
        rep.nontrivial(vmon::hash_combine(0x1b, l as u64));
    }
    // Float destinations end up with the element-wise result BIT for bit - the sign of a zero
    // included. The destination starts out numerically EQUAL to what will be written but with the
    // signs of its zeros flipped (polarity-inverted silence), so "nothing to do, it already
    // compares equal" and "the source block is silent, skip it" both leave wrong bits behind.
    let flip = |x: f32| if x == 0.0 { -x } else { x };
    let bits = |v: &[FF]| -> Vec<[u32; 2]> { v.iter().map(|f| [f[0].to_bits(), f[1].to_bits()]).collect() };
    for &l in ls.iter().chain([1usize, 7, 64].iter()) {
        for variant in 0..4usize {
            let cs = format!("what=inplace;op=zero_sign;la={};lb={}", l, variant);
            let src: Vec<FF> = (0..l)
                .map(|i| match (i / 3 + variant) % 4 {
                    0 => [0.0, -0.0],
                    1 => [-0.0, if variant == 3 { 0.5 } else { 0.0 }],
                    2 => [if variant >= 2 { f32::distinct(i as u64) } else { 0.0 }, 0.0],
                    _ => [-0.0, -0.0],
                })
                .collect();
            let dst0: Vec<FF> = src.iter().map(|f| [flip(f[0]), flip(f[1])]).collect();
            // write
            let mut a = dst0.clone();
            let r = vmon::catch(|| dasp_slice::write(&mut a, &src));
            if r.is_err() || bits(&a) != bits(&src) {
                let k = (0..l).find(|k| bits(&a[*k..*k + 1]) != bits(&src[*k..*k + 1]));
                rep.violation("inplace|write|not_bit_exact", format!("L {} variant {}: destination numerically equal to the source beforehand (zero signs flipped); after write frame {:?} holds {:?}, source {:?} ({:?})", l, variant, k, k.map(|k| a[k]), k.map(|k| src[k]), r.err()), &cs);
                return;
            }
            // add_in_place of an (all-zero-valued) source: -0.0 + +0.0 is +0.0
            let mut a = dst0.clone();
            let want: Vec<FF> = dst0.iter().zip(&src).map(|(x, y)| x.add_amp(*y)).collect();
            let r = vmon::catch(|| dasp_slice::add_in_place(&mut a, &src));
            if r.is_err() || bits(&a) != bits(&want) {
                rep.violation("inplace|add_in_place|not_bit_exact", format!("L {} variant {}: result differs in bits from the per-frame sum ({:?})", l, variant, r.err()), &cs);
                return;
            }
            // zip_map_in_place with a closure returning its second argument
            let mut a = dst0.clone();
            let r = vmon::catch(|| dasp_slice::zip_map_in_place(&mut a, &src, |_x: FF, y: FF| y));
            if r.is_err() || bits(&a) != bits(&src) {
                rep.violation("inplace|zip_map_in_place|not_bit_exact", format!("L {} variant {}: |_, y| y did not leave the source's bits ({:?})", l, variant, r.err()), &cs);
                return;
            }
            rep.eval(3);
            rep.hit("destination_equal_up_to_zero_signs");
        }
    }
}

fn judge<F: PartialEq + std::fmt::Debug>(rep: &mut Report, op: &str, la: usize, lb: usize, r: Result<(), String>, after: &[F], before: &[F], want: &[F], case: &str) {
    if la == lb {
        match r {
            Ok(()) if after == want => {}
            Ok(()) => rep.violation(&format!("inplace|{}|wrong_result", op), format!("la=lb={}: got {:?} expected {:?}", la, after, want), case),
            Err(m) => rep.violation(&format!("inplace|{}|spurious_panic", op), format!("la=lb={}: {}", la, m), case),
        }
    } else {
        match r {
            Err(_) if after == before => rep.hit("length_mismatch_refused_untouched"),
            Err(_) => rep.violation(&format!("inplace|{}|modified_before_panic", op), format!("la {} lb {}: destination changed: {:?} -> {:?}", la, lb, before, after), case),
            Ok(()) => rep.violation(&format!("inplace|{}|no_panic_on_length_mismatch", op), format!("la {} lb {}: returned normally, destination {:?}", la, lb, after), case),
        }
    }
}

// ------------------------------------------------------------------ huge slices (64-bit hosts)
/// View conversions over an i8 buffer of 2^32 + d samples: the length does not fit 32 bits, so a
/// divisibility test or a frame count computed in a narrower type goes wrong exactly here. The
/// buffer comes from calloc (only the pages holding the markers are touched).
fn huge_views_n<const N: usize>(buf: &mut Vec<i8>, rep: &mut Report)
where
    [i8; N]: Frame<Sample = i8>,
    for<'a> &'a [i8]: ToFrameSlice<'a, [i8; N]>,
    for<'a> &'a [[i8; N]]: ToSampleSlice<'a, i8>,
    for<'a> &'a mut [i8]: ToFrameSliceMut<'a, [i8; N]>,
    Box<[i8]>: ToBoxedFrameSlice<[i8; N]>,
    Box<[[i8; N]]>: ToBoxedSampleSlice<i8>,
{
    let l = buf.len();
    let divisible = l % N == 0;
    let cs = || case("i8", N, l, "huge");
    let (p0, last) = (buf.as_ptr() as usize, buf[l - 1]);
    bump(&EVALS);
    // shared
    match dasp_slice::to_frame_slice::<&[i8], [i8; N]>(&buf[..]) {
        Some(fr) if divisible => {
            if fr.len() != l / N || fr.as_ptr() as usize != p0 {
                rep.violation("view|huge|shared|wrong_length_or_pointer", format!("N {} L {}: {} frames at {:#x}, expected {} at {:#x}", N, l, fr.len(), fr.as_ptr() as usize, l / N, p0), cs());
                return;
            }
            if fr[l / N - 1][N - 1] != last || fr[0][0] != buf[0] {
                rep.violation("view|huge|shared|wrong_content", format!("N {} L {}: last frame last channel {}, last sample {}", N, l, fr[l / N - 1][N - 1], last), cs());
                return;
            }
            let back = dasp_slice::to_sample_slice(fr);
            if back.len() != l || back.as_ptr() as usize != p0 {
                rep.violation("view|huge|shared|roundtrip", format!("N {} L {}: back to {} samples", N, l, back.len()), cs());
                return;
            }
            bump(&SOME);
        }
        None if !divisible => bump(&NONE),
        Some(fr) => {
            rep.violation("view|huge|shared|some_for_indivisible_length", format!("N {} does not divide L {} but to_frame_slice returned {} frames", N, l, fr.len()), cs());
            return;
        }
        None => {
            rep.violation("view|huge|shared|none_for_divisible_length", format!("N {} divides L {} but to_frame_slice returned None", N, l), cs());
            return;
        }
    }
    // mutable
    match dasp_slice::to_frame_slice_mut::<&mut [i8], [i8; N]>(&mut buf[..]) {
        Some(fr) if divisible => {
            if fr.len() != l / N || fr.as_ptr() as usize != p0 {
                rep.violation("view|huge|mutable|wrong_length_or_pointer", format!("N {} L {}: {} frames, expected {}", N, l, fr.len(), l / N), cs());
                return;
            }
            let nf = fr.len();
            fr[nf - 1][N - 1] = fr[nf - 1][N - 1].wrapping_add(1);
            if buf[l - 1] != last.wrapping_add(1) {
                rep.violation("view|huge|mutable|write_not_visible", format!("N {} L {}: write through the last frame did not reach sample L-1", N, l), cs());
                return;
            }
            buf[l - 1] = last;
            bump(&SOME);
        }
        None if !divisible => bump(&NONE),
        other => {
            rep.violation("view|huge|mutable|wrong_option", format!("N {} L {} (divisible: {}): to_frame_slice_mut returned {}", N, l, divisible, if other.is_some() { "Some" } else { "None" }), cs());
            return;
        }
    }
    if usize::BITS < 64 && l > (1 << 29) {
        // 32-bit interpreter stage: no second allocation of this size in the address space
        HUGE.with(|c| c.set(c.get() + 1));
        return;
    }
    // boxed (the box is consumed; a fresh calloc'd one per attempt)
    let mut bx: Box<[i8]> = vec![0i8; l].into_boxed_slice();
    bx[l - 1] = 77;
    let bp = bx.as_ptr() as usize;
    match dasp_slice::to_boxed_frame_slice::<Box<[i8]>, [i8; N]>(bx) {
        Some(fr) if divisible => {
            if fr.len() != l / N || fr.as_ptr() as usize != bp || fr[l / N - 1][N - 1] != 77 {
                rep.violation("view|huge|boxed|wrong_length_pointer_or_content", format!("N {} L {}: {} frames, expected {}", N, l, fr.len(), l / N), cs());
                return;
            }
            let back: Box<[i8]> = dasp_slice::to_boxed_sample_slice(fr);
            if back.len() != l || back.as_ptr() as usize != bp || back[l - 1] != 77 {
                rep.violation("view|huge|boxed|roundtrip", format!("N {} L {}: back to {} samples", N, l, back.len()), cs());
                return;
            }
            bump(&SOME);
        }
        None if !divisible => {
            bump(&NONE);
            bump(&BOXED_FAIL);
        }
        other => {
            rep.violation("view|huge|boxed|wrong_option", format!("N {} L {} (divisible: {}): to_boxed_frame_slice returned {}", N, l, divisible, if other.is_some() { "Some" } else { "None" }), cs());
            return;
        }
    }
    HUGE.with(|c| c.set(c.get() + 1));
}

fn huge_views(rep: &mut Report, lens: &[usize]) {
    for &l in lens {
        let r = vmon::catch(std::panic::AssertUnwindSafe(|| {
            let mut buf = vec![0i8; l];
            buf[0] = 11;
            buf[l - 1] = 22;
            buf[l - 2] = 33;
            macro_rules! w {
                ($n:literal) => {
                    huge_views_n::<$n>(&mut buf, rep);
                };
            }
            // a selection of widths (each instantiation is compiled three times over)
            w!(1);
            w!(2);
            w!(3);
            w!(5);
            w!(6);
            w!(7);
            w!(12);
            w!(24);
            w!(31);
            w!(32);
        }));
        if let Err(m) = r {
            rep.violation("view|huge|panic", format!("L {}: panicked: {}", l, m), case("i8", 0, l, "huge"));
        }
        rep.nontrivial(vmon::hash_combine(0x4876, l as u64));
    }
}

fn flush(rep: &mut Report) {
    rep.eval(EVALS.with(|c| c.replace(0)));
    rep.hit_n("views_some", SOME.with(|c| c.replace(0)));
    rep.hit_n("views_none", NONE.with(|c| c.replace(0)));
    rep.hit_n("boxed_failed_conversions", BOXED_FAIL.with(|c| c.replace(0)));
    let h = HUGE.with(|c| c.replace(0));
    if h > 0 {
        rep.hit_n("huge_slice_views", h);
    }
}

/// run the view checks for format S over a set of widths and a length range
macro_rules! views_for {
    ($S:ty, $rep:expr, $lmax:expr, $filter:expr, $lean:expr) => {{
        macro_rules! w {
            ($n:literal) => {
                if $filter($n) {
                    let lmax: usize = $lmax($n);
                    for l in 0..=lmax {
                        eprint_case(<$S as AnyS>::NAME, $n, l, $lean);
                        if let Err(m) = vmon::catch(std::panic::AssertUnwindSafe(|| check_views::<$S, $n>(l, $rep))) {
                            $rep.violation("view|panic", format!("fmt {} N {} L {}: panicked: {}", <$S as AnyS>::NAME, $n, l, m), case(<$S as AnyS>::NAME, $n, l, "all"));
                        }
                        if !$lean && (l % $n != 0 || $n >= 3) {
                            $rep.nontrivial(vmon::hash_combine(vmon::hash_str(<$S as AnyS>::NAME), ($n * 100_000 + l) as u64));
                        }
                    }
                }
            };
        }
        checks::for_widths!(w);
    }};
}

fn eprint_case(fmt: &str, n: usize, l: usize, lean: bool) {
    // under a sanitizer the driver attributes a report to the last CASE line printed
    if lean {
        eprintln!("CASE {}", case(fmt, n, l, "all"));
    }
}

fn main() {
    let cli = Cli::parse();
    let t0 = Instant::now();
    let mut rep = Report::new("C10", &cli.stage);
    // self-test of the allocation monitor (positive and negative control)
    {
        let (_, d0) = alloc::measure(|| 1 + 1);
        let (v, d1) = alloc::measure(|| vec![1u8; 100]);
        drop(v);
        if !d0.is_zero_traffic() || d1.allocs != 1 {
            rep.note("allocator self-test failed");
            rep.oblige("allocator_selftest", 1);
        } else {
            rep.hit("allocator_selftest");
        }
    }
    if let Some(cs) = &cli.case {
        let m = vmon::cli::parse_case(cs);
        if m["what"] == "inplace" {
            check_inplace(&mut rep);
        } else if m["mode"] == "huge" {
            huge_views(&mut rep, &[m["l"].parse().unwrap()]);
        } else {
            let n: usize = m["n"].parse().unwrap();
            let l: usize = m["l"].parse().unwrap();
            let f = m["fmt"].clone();
            macro_rules! one {
                ($S:ty) => {
                    if f == <$S as AnyS>::NAME {
                        views_for!($S, &mut rep, |_n: usize| l, |nn: usize| nn == n, false);
                    }
                };
            }
            // replay runs lengths 0..=l of that width
            one!(i8);
            one!(i16);
            one!(I24);
            one!(f32);
            one!(f64);
            one!(u64);
        }
        flush(&mut rep);
        finish(&cli, rep, t0);
    }
    rep.oblige("views_some", 1);
    rep.oblige("views_none", 1);
    rep.oblige("boxed_failed_conversions", 1);
    match cli.stage.as_str() {
        "main" | "release" => {
            let k = cli.t(3usize, 8usize);
            let extra = cli.t(2usize, 5usize);
            views_for!(i8, &mut rep, |n: usize| k * n + extra, |_n: usize| true, false);
            views_for!(i16, &mut rep, |n: usize| k * n + extra, |_n: usize| true, false);
            views_for!(I24, &mut rep, |n: usize| k * n + extra, |_n: usize| true, false);
            views_for!(f32, &mut rep, |n: usize| k * n + extra, |_n: usize| true, false);
            views_for!(f64, &mut rep, |n: usize| k * n + extra, |_n: usize| true, false);
            views_for!(u64, &mut rep, |n: usize| k * n + extra, |_n: usize| true, false);
            if cli.thorough() {
                // long slices
                for l in [9_973usize, 10_000, 10_080, 65_536, 65_537] {
                    check_views::<i16, 2>(l, &mut rep);
                    check_views::<f32, 6>(l, &mut rep);
                    check_views::<I24, 7>(l, &mut rep);
                    check_views::<u64, 32>(l, &mut rep);
                }
            }
            if usize::BITS >= 64 {
                // lengths of 2^32 + d (every residue for the widths up to 32), 2^33 + d in thorough
                rep.oblige("huge_slice_views", 1);
                let mut lens: Vec<usize> = (0..cli.t(7usize, 33usize)).map(|d| (1usize << 32) + d).collect();
                lens.push((1usize << 32) - 1);
                if cli.thorough() {
                    lens.extend((0..8).map(|d| (1usize << 33) + d));
                    lens.push((1usize << 32) + (1 << 31) + 5);
                }
                huge_views(&mut rep, &lens);
            }
            rep.oblige("length_mismatch_refused_untouched", 1);
            rep.oblige("block_sparse_long_slices", 1);
            check_inplace(&mut rep);
            rep.exhaustive(format!("every N in 1..=32 x every L in 0..={}N+{} x formats {{i8,i16,I24,f32,f64,u64}} x shared/mutable/boxed, all call routes; in-place ops for all length pairs <= 9", k, extra));
            rep.sample(J::obj().set("fmt", J::s("I24")).set("N", J::u(3)).set("L", J::u(7)).set("expect", J::s("None (3 does not divide 7); boxed: one dealloc of 28 bytes")));
            rep.sample(J::obj().set("fmt", J::s("f32")).set("N", J::u(32)).set("L", J::u(64)).set("expect", J::s("Some(2 frames), same pointer, frame[1][5] == sample[37]")));
        }
        "miri" | "asan" => {
            let lean = cli.stage == "miri";
            // widths dealt to shards; lengths 0..=2N+1
            let shard = cli.shard as usize;
            let ns = cli.nshards as usize;
            let quick_set = [1usize, 2, 3, 7, 32];
            let thorough = cli.thorough();
            let sel = move |n: usize| (thorough || quick_set.contains(&n) || !lean) && n % ns == shard % ns;
            views_for!(i16, &mut rep, |n: usize| 2 * n + 1, sel, lean);
            if !lean || thorough {
                views_for!(f64, &mut rep, |n: usize| n + 1, sel, lean);
                views_for!(I24, &mut rep, |n: usize| 2 * n + 1, sel, lean);
            }
            if !lean {
                views_for!(i8, &mut rep, |n: usize| 4 * n + 3, sel, lean);
            }
            if shard == 0 {
                rep.oblige("length_mismatch_refused_untouched", 1);
                check_inplace(&mut rep);
            }
            if lean && usize::BITS < 64 {
                // a 32-BIT build (stage miri32): the counterpart of the 2^32 + d lengths of the
                // 64-bit stages - one-byte samples, lengths from 2^27 up to the largest slice the
                // interpreter's 32-bit address space affords (1.5 * 2^30), multiples of every width and near misses, dealt to
                // the shards (zeroed allocations are cheap for the interpreter)
                rep.oblige("huge_slice_views", 1);
                // (the interpreter does not hand freed addresses out again reliably: the lengths of
                // one shard, boxed copies included, stay below 3 GiB in sum)
                let all: [usize; 10] = [1 << 27, (1 << 27) + 96, 3 << 26, 1 << 28, 3 << 27, (1 << 29) + 1, 5 << 27, 3 << 28, 1 << 30, 3 << 29];
                let lens: Vec<usize> = all.iter().copied().enumerate().filter(|(i, _)| i % ns == shard % ns).map(|(_, l)| l).collect();
                huge_views(&mut rep, &lens);
            }
        }
        other => panic!("unknown stage {}", other),
    }
    flush(&mut rep);
    finish(&cli, rep, t0);
}
