//! C15 — custom-width integer sample types never silently leave their range.
//!
//! Oracle: i128 modular arithmetic. The same binary is built twice by the driver: with debug
//! assertions ("fast" profile: overflow must panic) and without (stock release: result must be
//! the exact result wrapped modulo 2^bits). In both, inner() of anything returned is in range.

use dasp_sample::types::{I11, I20, I24, I48, U11, U20, U24, U48};
use std::fmt::Debug;
use std::ops::{Add, Mul, Neg, Sub};
use std::time::Instant;
use vmon::{Cli, Report, Rng, J};

trait Cust: Copy + Debug + Ord + Add<Output = Self> + Sub<Output = Self> + Mul<Output = Self> + Send + Sync + 'static {
    const NAME: &'static str;
    const BITS: u32;
    const SIGNED: bool;
    const REP_BITS: u32;
    fn try_new(v: i128) -> Option<Self>;
    fn from_rep(v: i128) -> Self;
    fn unchecked(v: i128) -> Self;
    fn inner128(self) -> i128;
    fn consts() -> (i128, i128, i128); // MIN, MAX, EQUILIBRIUM as exported by the module
    fn lo() -> i128 {
        if Self::SIGNED {
            -(1i128 << (Self::BITS - 1))
        } else {
            0
        }
    }
    fn hi() -> i128 {
        if Self::SIGNED {
            (1i128 << (Self::BITS - 1)) - 1
        } else {
            (1i128 << Self::BITS) - 1
        }
    }
    fn wrap(x: i128) -> i128 {
        let total = 1i128 << Self::BITS;
        (x - Self::lo()).rem_euclid(total) + Self::lo()
    }
    fn in_range(x: i128) -> bool {
        x >= Self::lo() && x <= Self::hi()
    }
}

macro_rules! impl_cust {
    ($T:ident, $m:ident, $Rep:ty, $bits:expr, $signed:expr) => {
        impl Cust for $T {
            const NAME: &'static str = stringify!($T);
            const BITS: u32 = $bits;
            const SIGNED: bool = $signed;
            const REP_BITS: u32 = <$Rep>::BITS;
            fn try_new(v: i128) -> Option<Self> {
                $T::new(v as $Rep)
            }
            fn from_rep(v: i128) -> Self {
                $T::from(v as $Rep)
            }
            fn unchecked(v: i128) -> Self {
                $T::new_unchecked(v as $Rep)
            }
            fn inner128(self) -> i128 {
                self.inner() as i128
            }
            fn consts() -> (i128, i128, i128) {
                use dasp_sample::types::$m;
                ($m::MIN.inner() as i128, $m::MAX.inner() as i128, $m::EQUILIBRIUM.inner() as i128)
            }
        }
    };
}
impl_cust!(I11, i11, i16, 11, true);
impl_cust!(U11, u11, i16, 11, false);
impl_cust!(I20, i20, i32, 20, true);
impl_cust!(U20, u20, i32, 20, false);
impl_cust!(I24, i24, i32, 24, true);
impl_cust!(U24, u24, i32, 24, false);
impl_cust!(I48, i48, i64, 48, true);
impl_cust!(U48, u48, i64, 48, false);

const ASSERTIONS: bool = cfg!(debug_assertions);

#[derive(Clone, Copy, Debug, PartialEq)]
enum Op {
    Add,
    Sub,
    Mul,
}

fn check_binop<T: Cust>(op: Op, a: i128, b: i128, rep: &mut Report) {
    let (x, y) = (T::unchecked(a), T::unchecked(b));
    let exact = match op {
        Op::Add => a + b,
        Op::Sub => a - b,
        Op::Mul => a * b,
    };
    let got = vmon::catch(|| match op {
        Op::Add => x + y,
        Op::Sub => x - y,
        Op::Mul => x * y,
    });
    let mode = if ASSERTIONS { "assertions_on" } else { "assertions_off" };
    let case = || format!("type={};op={:?};a={};b={}", T::NAME, op, a, b);
    match got {
        Ok(v) => {
            let r = v.inner128();
            if !T::in_range(r) {
                rep.violation(&format!("{}|{:?}|out_of_range|{}", T::NAME, op, mode), format!("{} {:?} {} = {} outside [{}, {}]", a, op, b, r, T::lo(), T::hi()), case());
            } else if ASSERTIONS {
                if !T::in_range(exact) {
                    rep.violation(&format!("{}|{:?}|no_panic_on_overflow|{}", T::NAME, op, mode), format!("{} {:?} {} returned {} although the exact result {} overflows", a, op, b, r, exact), case());
                } else if r != exact {
                    rep.violation(&format!("{}|{:?}|wrong_value|{}", T::NAME, op, mode), format!("{} {:?} {} = {}, expected {}", a, op, b, r, exact), case());
                }
            } else if r != T::wrap(exact) {
                rep.violation(&format!("{}|{:?}|wrong_wrap|{}", T::NAME, op, mode), format!("{} {:?} {} = {}, expected wrap({}) = {}", a, op, b, r, exact, T::wrap(exact)), case());
            }
        }
        Err(msg) => {
            if !ASSERTIONS {
                rep.violation(&format!("{}|{:?}|panic|{}", T::NAME, op, mode), format!("{} {:?} {} panicked without debug assertions: {}", a, op, b, msg), case());
            } else if T::in_range(exact) {
                rep.violation(&format!("{}|{:?}|spurious_panic|{}", T::NAME, op, mode), format!("{} {:?} {} panicked ({}) although exact result {} is in range", a, op, b, msg, exact), case());
            } else {
                rep.count("overflow_panics_observed", 1);
            }
        }
    }
    rep.eval(1);
}

fn check_neg<T: Cust + Neg<Output = T>>(a: i128, rep: &mut Report) {
    let x = T::unchecked(a);
    let exact = -a;
    let got = vmon::catch(|| -x);
    let mode = if ASSERTIONS { "assertions_on" } else { "assertions_off" };
    let case = || format!("type={};op=Neg;a={};b=0", T::NAME, a);
    match got {
        Ok(v) => {
            let r = v.inner128();
            if !T::in_range(r) {
                rep.violation(&format!("{}|Neg|out_of_range|{}", T::NAME, mode), format!("-({}) = {} outside [{}, {}]", a, r, T::lo(), T::hi()), case());
            } else if ASSERTIONS && !T::in_range(exact) {
                rep.violation(&format!("{}|Neg|no_panic_on_overflow|{}", T::NAME, mode), format!("-({}) returned {}", a, r), case());
            } else if ASSERTIONS && r != exact {
                rep.violation(&format!("{}|Neg|wrong_value|{}", T::NAME, mode), format!("-({}) = {}", a, r), case());
            } else if !ASSERTIONS && r != T::wrap(exact) {
                rep.violation(&format!("{}|Neg|wrong_wrap|{}", T::NAME, mode), format!("-({}) = {}, expected {}", a, r, T::wrap(exact)), case());
            }
        }
        Err(msg) => {
            if !ASSERTIONS || T::in_range(exact) {
                rep.violation(&format!("{}|Neg|unexpected_panic|{}", T::NAME, mode), format!("-({}) panicked: {}", a, msg), case());
            } else {
                rep.count("overflow_panics_observed", 1);
            }
        }
    }
    rep.eval(1);
}

fn check_ctor<T: Cust>(v: i128, rep: &mut Report) {
    // v must fit the backing integer
    let n = T::try_new(v);
    let want_some = T::in_range(v);
    match n {
        Some(x) if want_some && x.inner128() == v => {}
        None if !want_some => {}
        other => rep.violation(&format!("{}|new|wrong", T::NAME), format!("new({}) = {:?}, in range: {}", v, other.map(|x| x.inner128()), want_some), format!("type={};op=New;a={};b=0", T::NAME, v)),
    }
    match vmon::catch(|| T::from_rep(v)) {
        Ok(f) => {
            if f.inner128() != T::wrap(v) {
                rep.violation(&format!("{}|from_rep|wrong_wrap", T::NAME), format!("From({}) = {}, expected {}", v, f.inner128(), T::wrap(v)), format!("type={};op=From;a={};b=0", T::NAME, v));
            }
        }
        Err(m) => rep.violation(&format!("{}|from_rep|panic", T::NAME), format!("From({}) panicked: {}", v, m), format!("type={};op=From;a={};b=0", T::NAME, v)),
    }
    rep.eval(2);
}

fn check_ord<T: Cust>(a: i128, b: i128, rep: &mut Report) {
    let (x, y) = (T::unchecked(a), T::unchecked(b));
    if x.cmp(&y) != a.cmp(&b) || (x == y) != (a == b) || x.partial_cmp(&y) != Some(a.cmp(&b)) || (x < y) != (a < b) {
        rep.violation(&format!("{}|ord|disagrees_with_numeric", T::NAME), format!("cmp({}, {})", a, b), format!("type={};op=Ord;a={};b={}", T::NAME, a, b));
    }
    rep.eval(1);
}

thread_local! {
    static TARGETED: std::cell::Cell<u64> = const { std::cell::Cell::new(0) };
}
static DICT: std::sync::OnceLock<vmon::dict::Dict> = std::sync::OnceLock::new();

/// structured in-range operand set
fn structured<T: Cust>() -> Vec<i128> {
    let mut v = Vec::new();
    let eq = if T::SIGNED { 0 } else { 1i128 << (T::BITS - 1) };
    let mut push = |x: i128| {
        if T::in_range(x) {
            v.push(x)
        }
    };
    for d in 0..=6 {
        push(T::lo() + d);
        push(T::hi() - d);
        push(eq + d);
        push(eq - d);
        push(d);
        push(-d);
    }
    for k in 0..T::BITS {
        for d in -2..=2 {
            push((1i128 << k) + d);
            push(-(1i128 << k) + d);
            push(eq + (1i128 << k) + d);
            push(eq - (1i128 << k) + d);
        }
    }
    // numeric literals of the crate's own source (magic-value special cases), in-range re-basings
    for x in DICT.get_or_init(|| vmon::dict::harvest("/repo", &["dasp_sample"])).ints_for(T::lo(), T::hi(), T::BITS) {
        push(x);
    }
    // square-root neighbourhood (products that just fit / just overflow)
    let s = ((T::hi() as f64).sqrt()) as i128;
    for d in -3..=3 {
        push(s + d);
        push(-(s + d));
    }
    v.sort_unstable();
    v.dedup();
    v
}

fn run_type<T: Cust>(cli: &Cli, rep: &mut Report) {
    let (mn, mx, eq) = T::consts();
    let want_eq = if T::SIGNED { 0 } else { 1i128 << (T::BITS - 1) };
    if mn != T::lo() || mx != T::hi() || eq != want_eq {
        rep.violation(&format!("{}|consts", T::NAME), format!("MIN/MAX/EQUILIBRIUM = {}/{}/{}", mn, mx, eq), format!("type={};op=Consts;a=0;b=0", T::NAME));
    }
    rep.hit("types_exercised");
    let seed = cli.seed;
    let threads = cli.threads;
    if T::BITS == 11 {
        // exhaustive: all 2048^2 operand pairs x 3 ops; all From<i16> inputs
        let n = 1u64 << 11;
        let reps = vmon::par_for(threads, n, 8, |_| Report::new("C15", "w"), |rep, i| {
            let a = T::lo() + i as i128;
            for j in 0..n {
                let b = T::lo() + j as i128;
                check_binop::<T>(Op::Add, a, b, rep);
                check_binop::<T>(Op::Sub, a, b, rep);
                check_binop::<T>(Op::Mul, a, b, rep);
                check_ord::<T>(a, b, rep);
            }
            rep.nontrivial_by_construction(3 * n);
        });
        for r in reps {
            rep.merge(r);
        }
        for v in i16::MIN as i128..=i16::MAX as i128 {
            check_ctor::<T>(v, rep);
        }
        rep.nontrivial_by_construction(65536);
        rep.exhaustive(format!("{}: all 2048^2 operand pairs x (+,-,*) and ordering; all 65536 i16 inputs to new()/From", T::NAME));
    } else {
        let s = structured::<T>();
        let reps = vmon::par_for(threads, s.len() as u64, 4, |_| Report::new("C15", "w"), |rep, i| {
            let a = s[i as usize];
            for &b in &s {
                check_binop::<T>(Op::Add, a, b, rep);
                check_binop::<T>(Op::Sub, a, b, rep);
                check_binop::<T>(Op::Mul, a, b, rep);
                check_ord::<T>(a, b, rep);
                rep.nontrivial(vmon::hash_combine(vmon::hash_str(T::NAME), vmon::hash_combine(a as u64, b as u64)));
            }
        });
        for r in reps {
            rep.merge(r);
        }
        // Result-targeted operands (boundary analysis on the OUTPUT): the second operand is
        // solved for so that the exact result is congruent, modulo 2^BITS, to a chosen boundary
        // residue (MAX, MIN, MAX-1, MIN+1, 0, -1, 1, equilibrium +-1) while the first operand is
        // random over all magnitudes: for `*`, b = t * a^-1 (mod 2^BITS) for odd a - the exact
        // product is then that residue any number of periods away; for `+`/`-`, b = t -+ a.
        {
            let n_targeted = cli.t(40_000u64, 4_000_000u64);
            let reps = vmon::par_for(threads, 32, 1, |_| Report::new("C15", "w"), |rep, shard| {
                let mut rng = Rng::derive(seed, &[151, T::BITS as u64, T::SIGNED as u64, shard]);
                let m: i128 = 1i128 << T::BITS;
                let eq = if T::SIGNED { 0 } else { m / 2 };
                let targets = [T::hi(), T::lo(), T::hi() - 1, T::lo() + 1, 0, -1, 1, eq, eq - 1, eq + 1, T::hi() / 2, T::hi() - 2];
                let into_range = |x: i128| -> i128 {
                    let mut r = x.rem_euclid(m);
                    if r > T::hi() {
                        r -= m;
                    }
                    r
                };
                for _ in 0..n_targeted / 32 {
                    // a: random magnitude class (bit length), random sign where the type has one
                    let bits = 1 + rng.usize_below(T::BITS as usize - 1) as u32;
                    let mut a = (rng.range_i128(0, (1i128 << bits) - 1) | (1i128 << (bits - 1))) | 1;
                    if T::SIGNED && rng.bool() {
                        a = -a;
                    }
                    if !T::in_range(a) {
                        continue;
                    }
                    let t = targets[rng.usize_below(targets.len())];
                    // inverse of the odd a modulo 2^BITS (Newton iteration, doubling the precision)
                    let am = a.rem_euclid(m) as u128;
                    let mask = (m as u128) - 1;
                    let mut inv: u128 = am;
                    for _ in 0..7 {
                        inv = inv.wrapping_mul(2u128.wrapping_sub(am.wrapping_mul(inv))) & mask;
                    }
                    let b_mul = into_range(((t.rem_euclid(m) as u128).wrapping_mul(inv) & mask) as i128);
                    if T::in_range(b_mul) {
                        check_binop::<T>(Op::Mul, a, b_mul, rep);
                        check_binop::<T>(Op::Mul, b_mul, a, rep);
                        TARGETED.with(|c| c.set(c.get() + 1));
                    }
                    let b_add = into_range(t - a);
                    if T::in_range(b_add) {
                        check_binop::<T>(Op::Add, a, b_add, rep);
                    }
                    let b_sub = into_range(a - t);
                    if T::in_range(b_sub) {
                        check_binop::<T>(Op::Sub, a, b_sub, rep);
                    }
                    rep.nontrivial(vmon::hash_combine(vmon::hash_str(T::NAME), vmon::hash_combine(a as u64, (t as u64).rotate_left(29))));
                }
                let n = TARGETED.with(|c| c.replace(0));
                if n > 0 {
                    rep.hit_n("products_congruent_to_a_range_boundary", n);
                }
            });
            for r in reps {
                rep.merge(r);
            }
        }
        let n_rand = cli.t(300_000u64, 100_000_000u64);
        let reps = vmon::par_for(threads, 64, 1, |_| Report::new("C15", "w"), |rep, shard| {
            let mut rng = Rng::derive(seed, &[15, T::BITS as u64, T::SIGNED as u64, shard]);
            for _ in 0..n_rand / 64 {
                let a = rng.range_i128(T::lo(), T::hi());
                // mix: uniform partner, small partner (products that stay in range), near-inverse
                let b = match rng.below(4) {
                    0 => rng.range_i128(T::lo(), T::hi()),
                    1 => rng.range_i128(-1000, 1000).clamp(T::lo(), T::hi()),
                    2 => {
                        let lim = if a == 0 { T::hi() } else { (T::hi() / a.abs().max(1)).max(1) };
                        rng.range_i128(-lim - 2, lim + 2).clamp(T::lo(), T::hi())
                    }
                    _ => (T::hi() - a).clamp(T::lo(), T::hi()) + rng.range_i128(-2, 2).clamp(T::lo() - (T::hi() - a).clamp(T::lo(), T::hi()), T::hi() - (T::hi() - a).clamp(T::lo(), T::hi())),
                };
                let op = [Op::Add, Op::Sub, Op::Mul][rng.usize_below(3)];
                check_binop::<T>(op, a, b, rep);
                check_ord::<T>(a, b, rep);
                rep.nontrivial(vmon::hash_combine(vmon::hash_str(T::NAME), vmon::hash_combine(a as u64, (b as u64).rotate_left(17) ^ op as u64)));
            }
        });
        for r in reps {
            rep.merge(r);
        }
        // constructors: structured values of the backing integer (incl. its extremes) + random
        let rep_min = -(1i128 << (T::REP_BITS - 1));
        let rep_max = (1i128 << (T::REP_BITS - 1)) - 1;
        let mut vals: Vec<i128> = s.clone();
        for d in 0..=4 {
            vals.extend_from_slice(&[rep_min + d, rep_max - d, T::lo() - 1 - d, T::hi() + 1 + d]);
        }
        for k in 1..=6i128 {
            let total = 1i128 << T::BITS;
            vals.extend_from_slice(&[T::hi() + k * total, T::lo() - k * total, k * total, -k * total, k * total - 1]);
        }
        let mut rng = Rng::derive(seed, &[16, T::BITS as u64, T::SIGNED as u64]);
        for _ in 0..cli.t(20_000, 200_000) {
            vals.push(rng.range_i128(rep_min, rep_max));
            vals.push(rng.range_i128(T::lo() * 3, T::hi() * 3).clamp(rep_min, rep_max));
        }
        for v in vals {
            if v >= rep_min && v <= rep_max {
                check_ctor::<T>(v, rep);
            }
        }
    }
}

fn run_neg<T: Cust + Neg<Output = T>>(cli: &Cli, rep: &mut Report) {
    rep.hit("neg_types_exercised");
    if T::BITS == 11 {
        for a in T::lo()..=T::hi() {
            check_neg::<T>(a, rep);
        }
        rep.nontrivial_by_construction(2048);
        rep.exhaustive(format!("{}: all 2048 negations", T::NAME));
    } else {
        for a in structured::<T>() {
            check_neg::<T>(a, rep);
        }
        let mut rng = Rng::derive(cli.seed, &[17, T::BITS as u64]);
        for _ in 0..cli.t(100_000, 2_000_000) {
            check_neg::<T>(rng.range_i128(T::lo(), T::hi()), rep);
        }
    }
    // negating MIN is the one overflowing input: make sure it was seen
    check_neg::<T>(T::lo(), rep);
    rep.hit("negation_of_MIN_observed");
}

macro_rules! widening {
    ($rep:ident, $D:ident; $($S:ident : $srcmin:expr, $srcmax:expr, $mk:expr, $val:expr);* $(;)?) => {$(
        {
            // every source value if the source has <= 2^20 values, else structured + strided
            let (lo, hi): (i128, i128) = ($srcmin, $srcmax);
            let span = hi - lo + 1;
            let step = if span <= (1 << 21) { 1 } else { (span / (1 << 20)).max(1) | 1 };
            let mut v = lo;
            let mut n = 0u64;
            while v <= hi {
                let s = $mk(v);
                let d: $D = $D::from(s);
                if d.inner128() != $val(s) || !<$D as Cust>::in_range(d.inner128()) {
                    $rep.violation(&format!("{}|from_{}|value_not_preserved", stringify!($D), stringify!($S)), format!("{}::from({}({})) = {}", stringify!($D), stringify!($S), v, d.inner128()), format!("type={};op=Widen;a={};b=0", stringify!($D), v));
                }
                n += 1;
                v += step;
            }
            for v in [lo, hi, (lo + hi) / 2, lo + 1, hi - 1] {
                let s = $mk(v);
                let d: $D = $D::from(s);
                if d.inner128() != $val(s) {
                    $rep.violation(&format!("{}|from_{}|value_not_preserved", stringify!($D), stringify!($S)), format!("{}::from({}({})) = {}", stringify!($D), stringify!($S), v, d.inner128()), format!("type={};op=Widen;a={};b=0", stringify!($D), v));
                }
            }
            $rep.eval(n + 5);
            $rep.hit("widening_from_impls");
            $rep.nontrivial_by_construction(n.saturating_sub(3));
        }
    )*};
}

fn run_widening(rep: &mut Report) {
    let p = |v: i128| v; // identity helpers for primitive sources
    let _ = p;
    macro_rules! prim {
        ($t:ty) => {
            (<$t>::MIN as i128, <$t>::MAX as i128, (|v: i128| v as $t), (|s: $t| s as i128))
        };
    }
    macro_rules! cust {
        ($t:ident) => {
            (<$t as Cust>::lo(), <$t as Cust>::hi(), (|v: i128| <$t as Cust>::unchecked(v)), (|s: $t| s.inner128()))
        };
    }
    macro_rules! w {
        ($D:ident; $($S:ident = $k:ident),*) => {$(
            { let (lo, hi, mk, val) = $k!($S); widening!(rep, $D; $S: lo, hi, mk, val); }
        )*};
    }
    w!(I11; i8 = prim, u8 = prim);
    w!(I20; i8 = prim, I11 = cust, i16 = prim, u8 = prim, U11 = cust, u16 = prim);
    w!(I24; i8 = prim, i16 = prim, I20 = cust, u8 = prim, u16 = prim, U20 = cust);
    w!(I48; i8 = prim, i16 = prim, I20 = cust, I24 = cust, i32 = prim, u8 = prim, u16 = prim, U20 = cust, U24 = cust, u32 = prim);
    w!(U11; u8 = prim);
    w!(U20; u8 = prim, u16 = prim);
    w!(U24; u8 = prim, u16 = prim, U20 = cust);
    w!(U48; u8 = prim, u16 = prim, U20 = cust, U24 = cust, u32 = prim);
}

fn main() {
    let cli = Cli::parse();
    let t0 = Instant::now();
    let mut rep = Report::new("C15", &cli.stage);

    if let Some(case) = &cli.case {
        let m = vmon::cli::parse_case(case);
        let a: i128 = m["a"].parse().unwrap();
        let b: i128 = m["b"].parse().unwrap();
        macro_rules! go {
            ($($T:ident),*) => {$(
                if m["type"] == stringify!($T) {
                    match m["op"].as_str() {
                        "Add" => check_binop::<$T>(Op::Add, a, b, &mut rep),
                        "Sub" => check_binop::<$T>(Op::Sub, a, b, &mut rep),
                        "Mul" => check_binop::<$T>(Op::Mul, a, b, &mut rep),
                        "Ord" => check_ord::<$T>(a, b, &mut rep),
                        "New" | "From" => check_ctor::<$T>(a, &mut rep),
                        _ => {}
                    }
                }
            )*};
        }
        go!(I11, U11, I20, U20, I24, U24, I48, U48);
        if m["op"] == "Neg" {
            match m["type"].as_str() {
                "I11" => check_neg::<I11>(a, &mut rep),
                "I24" => check_neg::<I24>(a, &mut rep),
                "I48" => check_neg::<I48>(a, &mut rep),
                _ => {}
            }
        }
        if m["op"] == "Widen" {
            run_widening(&mut rep);
        }
        checks::finish(&cli, rep, t0);
    }

    if cli.stage == "miri32" {
        // A 32-BIT build of dasp, executed by the interpreter (usize narrower than the 48-bit
        // types). Interpreter-sized: construction / From on boundary and out-of-range backing
        // values, and the operators on a 14 x 14 boundary set, for all eight types.
        rep.note(format!("usize::BITS = {} in this stage", usize::BITS));
        if usize::BITS == 32 {
            rep.hit("ran_with_32_bit_usize");
        }
        rep.oblige("ran_with_32_bit_usize", 1);
        let mut ti = 0u64;
        macro_rules! lean {
            ($($T:ident),*) => {$({
                ti += 1;
                if ti % cli.nshards == cli.shard {
                let (lo, hi) = (<$T as Cust>::lo(), <$T as Cust>::hi());
                let m = 1i128 << <$T as Cust>::BITS;
                let mid = (lo + hi) / 2;
                let mut rng = Rng::derive(cli.seed, &[1532, <$T as Cust>::BITS as u64, <$T as Cust>::SIGNED as u64]);
                let mut vals: Vec<i128> = vec![lo, lo + 1, hi, hi - 1, 0, 1, -1, mid, mid + 1, 1i128 << (<$T as Cust>::BITS - 2), 1i128 << 31, (1i128 << 32) + 5];
                for _ in 0..cli.t(2, 26) {
                    vals.push(rng.range_i128(lo, hi));
                }
                vals.retain(|v| <$T as Cust>::in_range(*v));
                // backing-integer inputs to new() / From, in range and several periods out
                let rep_min = -(1i128 << (<$T as Cust>::REP_BITS - 1));
                let rep_max = (1i128 << (<$T as Cust>::REP_BITS - 1)) - 1;
                for v in vals.iter().copied().chain([hi + 1, lo - 1, m, -m, m + 7, 3 * m - 1, -2 * m + 3, m * 5, rep_min, rep_max, rep_max - 1, rep_min + 1]) {
                    if v >= rep_min && v <= rep_max {
                        check_ctor::<$T>(v, &mut rep);
                    }
                }
                for &a in &vals {
                    for &b in &vals {
                        check_binop::<$T>(Op::Add, a, b, &mut rep);
                        check_binop::<$T>(Op::Sub, a, b, &mut rep);
                        check_binop::<$T>(Op::Mul, a, b, &mut rep);
                        check_ord::<$T>(a, b, &mut rep);
                    }
                }
                rep.hit("types_exercised");
                }
            })*};
        }
        lean!(I11, U11, I20, U20, I24, U24, I48, U48);
        rep.oblige("types_exercised", 8);
        checks::finish(&cli, rep, t0);
    }
    rep.oblige("types_exercised", 8);
    rep.oblige("products_congruent_to_a_range_boundary", 1);
    rep.oblige("neg_types_exercised", 3);
    rep.oblige("negation_of_MIN_observed", 3);
    rep.oblige("widening_from_impls", 35);
    run_type::<I11>(&cli, &mut rep);
    run_type::<U11>(&cli, &mut rep);
    run_type::<I20>(&cli, &mut rep);
    run_type::<U20>(&cli, &mut rep);
    run_type::<I24>(&cli, &mut rep);
    run_type::<U24>(&cli, &mut rep);
    run_type::<I48>(&cli, &mut rep);
    run_type::<U48>(&cli, &mut rep);
    run_neg::<I11>(&cli, &mut rep);
    run_neg::<I24>(&cli, &mut rep);
    run_neg::<I48>(&cli, &mut rep);
    run_widening(&mut rep);
    if ASSERTIONS {
        rep.oblige("overflow_panics_seen", 1);
        let n = rep.counters.get("overflow_panics_observed").copied().unwrap_or(0);
        rep.hit_n("overflow_panics_seen", n.min(1));
    }
    rep.sample(J::obj().set("type", J::s("I24")).set("op", J::s("Mul")).set("a", J::i(4097)).set("b", J::i(-2048)).set("assertions", J::Bool(ASSERTIONS)).set("real", match vmon::catch(|| (I24::new_unchecked(4097) * I24::new_unchecked(-2048)).inner()) { Ok(v) => J::i(v), Err(e) => J::s(format!("panic: {}", e)) }).set("spec_exact", J::i(4097 * -2048)).set("spec_wrapped", J::i(<I24 as Cust>::wrap(4097 * -2048))));
    rep.sample(J::obj().set("type", J::s("U11")).set("op", J::s("Sub")).set("a", J::i(3)).set("b", J::i(2047)).set("assertions", J::Bool(ASSERTIONS)).set("real", match vmon::catch(|| (U11::new_unchecked(3) - U11::new_unchecked(2047)).inner()) { Ok(v) => J::i(v), Err(e) => J::s(format!("panic: {}", e)) }).set("spec_wrapped", J::i(<U11 as Cust>::wrap(3 - 2047))));
    rep.note(format!("this stage ran with debug_assertions={}", ASSERTIONS));
    checks::finish(&cli, rep, t0);
}
