#![cfg_attr(target_pointer_width = "32", allow(arithmetic_overflow))] // 2^32-sized probes exist only in the 64-bit stages
//! C12 — fork gives both branches the identical stream under every pull interleaving.
//!
//! Model: positions a, b; pulled = max(a, b). The source yields frame i on pull i, so the value a
//! branch returns *is* the index it observed. After every step: value == position, source pull
//! count == pulled, both pending_frames() == lag. Schedules whose lead would exceed the capacity
//! are outside the statement and not generated.

use checks::*;
use dasp_ring_buffer as ring_buffer;
use dasp_signal::Signal;
use std::cell::Cell;
use std::time::Instant;
use vmon::{Cli, Report, Rng, J};

thread_local! {
    static EVALS: Cell<u64> = const { Cell::new(0) };
    static LEAD_AT_CAP: Cell<u64> = const { Cell::new(0) };
    static SIGN_FLIP: Cell<u64> = const { Cell::new(0) };
    static RESPLIT: Cell<u64> = const { Cell::new(0) };
    static HUGE_LEAD: Cell<u64> = const { Cell::new(0) };
    static RC_DROP: Cell<u64> = const { Cell::new(0) };
    static RC_DROP_LAGGING: Cell<u64> = const { Cell::new(0) };
}
fn bump(c: &'static std::thread::LocalKey<Cell<u64>>) {
    c.with(|c| c.set(c.get() + 1));
}

fn gen_frame(i: u64) -> f64 {
    (i + 1) as f64
}

#[derive(Clone, Copy, PartialEq, Debug)]
enum Mode {
    ByRef,
    ByRc,
    /// by_ref for the first `split` steps, then a second by_ref borrow
    ReSplitRef(usize),
    /// by_ref for the first `split` steps, then by_rc
    RefThenRc(usize),
}

struct Model {
    a: u64,
    b: u64,
    cap: u64,
    last_sign: i64,
    len: Option<u64>,
}
impl Model {
    /// what the source yields at position `pos`
    fn frame(&self, pos: u64) -> f64 {
        match self.len {
            Some(l) if pos >= l => 0.0,
            _ => gen_frame(pos),
        }
    }
}
impl Model {
    fn pulled(&self) -> u64 {
        self.a.max(self.b)
    }
}

fn sched_str(s: &[bool]) -> String {
    s.iter().map(|x| if *x { 'A' } else { 'B' }).collect()
}

/// Execute `steps` on branches (a, b), checking every step. Returns false on violation.
macro_rules! drive {
    ($a:expr, $b:expr, $steps:expr, $model:expr, $probe:expr, $rep:expr, $case:expr, $offset:expr) => {{
        let mut ok = true;
        for (k, &is_a) in $steps.iter().enumerate() {
            let pos = if is_a { $model.a } else { $model.b };
            let got = if is_a { $a.next() } else { $b.next() };
            if is_a {
                $model.a += 1
            } else {
                $model.b += 1
            }
            bump(&EVALS);
            let step_no = $offset + k;
            if got != $model.frame(pos) {
                let what = if got < $model.frame(pos) { "frame_duplicated_or_reordered" } else { "frame_lost" };
                $rep.violation(&format!("fork|{}", what), format!("step {} (branch {}): returned {} but the branch is at position {} (source frame value {})", step_no, if is_a { 'A' } else { 'B' }, got, pos, $model.frame(pos)), $case());
                ok = false;
                break;
            }
            if $probe.pulls() != $model.pulled() {
                $rep.violation("fork|source_pull_count", format!("step {}: source pulled {} times, distinct frames consumed {}", step_no, $probe.pulls(), $model.pulled()), $case());
                ok = false;
                break;
            }
            let (pa, pb) = ($a.pending_frames() as u64, $b.pending_frames() as u64);
            if pa != $model.pulled() - $model.a || pb != $model.pulled() - $model.b {
                $rep.violation("fork|pending_frames", format!("step {}: pending_frames A={} B={}, lags are A={} B={}", step_no, pa, pb, $model.pulled() - $model.a, $model.pulled() - $model.b), $case());
                ok = false;
                break;
            }
            let lead = $model.a as i64 - $model.b as i64;
            if lead.unsigned_abs() == $model.cap {
                bump(&LEAD_AT_CAP);
            }
            if lead != 0 {
                if $model.last_sign != 0 && lead.signum() != $model.last_sign {
                    bump(&SIGN_FLIP);
                }
                $model.last_sign = lead.signum();
            }
        }
        ok
    }};
}

fn run_schedule(rep: &mut Report, cap: usize, sched: &[bool], mode: Mode, store_array: bool) -> bool {
    run_schedule_len(rep, cap, sched, mode, store_array, None)
}

/// `src_len`: Some(L) = the source is exhausted after L frames (and yields equilibrium, i.e. 0.0,
/// from then on - each such frame is still one pull that both branches must observe)
fn run_schedule_len(rep: &mut Report, cap: usize, sched: &[bool], mode: Mode, store_array: bool, src_len: Option<u64>) -> bool {
    match vmon::catch(std::panic::AssertUnwindSafe(|| run_schedule_inner(rep, cap, sched, mode, store_array, src_len))) {
        Ok(ok) => ok,
        Err(m) => {
            rep.violation("fork|panic", format!("cap {} mode {:?} len {:?} schedule {}: panicked: {}", cap, mode, src_len, sched_str(sched), m), format!("cap={};mode={:?};store={};len={};sched={}", cap, mode, if store_array { "array" } else { "vec" }, src_len.map(|l| l as i64).unwrap_or(-1), sched_str(sched)).replace(' ', ""));
            false
        }
    }
}

fn run_schedule_inner(rep: &mut Report, cap: usize, sched: &[bool], mode: Mode, store_array: bool, src_len: Option<u64>) -> bool {
    let case = || format!("cap={};mode={:?};store={};len={};sched={}", cap, mode, if store_array { "array" } else { "vec" }, src_len.map(|l| l as i64).unwrap_or(-1), sched_str(sched)).replace(' ', "");
    let probe = Probe::new();
    let src = match src_len {
        Some(l) => USource::generated(gen_frame, l, probe.clone()),
        None => USource::infinite(gen_frame, probe.clone()),
    };
    let mut model = Model { a: 0, b: 0, cap: cap as u64, last_sign: 0, len: src_len };
    macro_rules! go {
        ($ring:expr) => {{
            let mut fork = src.fork($ring);
            match mode {
                Mode::ByRef => {
                    let (mut a, mut b) = fork.by_ref();
                    drive!(a, b, sched, model, probe, rep, case, 0)
                }
                Mode::ByRc => {
                    let (mut a, mut b) = fork.by_rc();
                    drive!(a, b, sched, model, probe, rep, case, 0)
                }
                Mode::ReSplitRef(split) => {
                    let split = split.min(sched.len());
                    let ok = {
                        let (mut a, mut b) = fork.by_ref();
                        drive!(a, b, sched[..split], model, probe, rep, case, 0)
                    };
                    bump(&RESPLIT);
                    ok && {
                        let (mut a, mut b) = fork.by_ref();
                        drive!(a, b, sched[split..], model, probe, rep, case, split)
                    }
                }
                Mode::RefThenRc(split) => {
                    let split = split.min(sched.len());
                    let ok = {
                        let (mut a, mut b) = fork.by_ref();
                        drive!(a, b, sched[..split], model, probe, rep, case, 0)
                    };
                    bump(&RESPLIT);
                    ok && {
                        let (mut a, mut b) = fork.by_rc();
                        drive!(a, b, sched[split..], model, probe, rep, case, split)
                    }
                }
            }
        }};
    }
    if store_array {
        match cap {
            1 => go!(ring_buffer::Bounded::from([0f64; 1])),
            2 => go!(ring_buffer::Bounded::from([0f64; 2])),
            3 => go!(ring_buffer::Bounded::from([0f64; 3])),
            4 => go!(ring_buffer::Bounded::from([0f64; 4])),
            _ => go!(ring_buffer::Bounded::from(vec![0f64; cap])),
        }
    } else {
        go!(ring_buffer::Bounded::from(vec![0f64; cap]))
    }
}

// ------------------------------------------------------------------ huge ring buffer (64-bit hosts)
/// A fork over `Bounded::from(vec![0u8; 2^32 + r])`: the capacity does not fit 32 bits. calloc
/// backs only the pages the probe touches. Frame p of the source is `(p % 251) as u8`; the lead
/// stays below 200, so a lost, duplicated or misplaced frame always shows as a wrong value.
fn huge_fork_probe(rep: &mut Report, seed: u64, r: usize, by_rc: bool, steps: usize) -> bool {
    let case = format!("huge=1;seed={};r={};rc={};steps={}", seed, r, by_rc as u8, steps);
    let res = vmon::catch(|| {
        let cap: usize = (1usize << 32) + r;
        let pulls = std::rc::Rc::new(Cell::new(0u64));
        let p2 = pulls.clone();
        let src = dasp_signal::gen_mut(move || {
            let p = p2.get();
            p2.set(p + 1);
            (p % 251) as u8
        });
        let mut fork = src.fork(ring_buffer::Bounded::from(vec![0u8; cap]));
        let mut rng = Rng::derive(seed, &[120, r as u64, by_rc as u64]);
        let (mut pa, mut pb) = (0u64, 0u64);
        let mut errs: Vec<(String, String)> = Vec::new();
        macro_rules! run {
            ($a:expr, $b:expr) => {{
                let mut run_a = true;
                let mut left = 0usize;
                for step in 0..steps {
                    if left == 0 {
                        // runs of up to 150 pulls on one branch: the lead crosses 8, 16, 64, 128
                        run_a = !run_a;
                        left = 1 + rng.usize_below(150);
                    }
                    left -= 1;
                    let lead = pa as i64 - pb as i64;
                    let is_a = if lead >= 190 { false } else if lead <= -190 { true } else { run_a };
                    let pos = if is_a { pa } else { pb };
                    let got = if is_a { $a.next() } else { $b.next() };
                    if is_a {
                        pa += 1
                    } else {
                        pb += 1
                    }
                    bump(&EVALS);
                    if got != (pos % 251) as u8 {
                        errs.push(("fork|huge_ring|wrong_frame".into(), format!("step {} branch {}: returned {} at position {} (expected {}), lead {}", step, if is_a { 'A' } else { 'B' }, got, pos, pos % 251, lead)));
                        break;
                    }
                    let pulled = pa.max(pb);
                    if pulls.get() != pulled {
                        errs.push(("fork|huge_ring|source_pull_count".into(), format!("step {}: source pulled {} times, distinct frames consumed {}", step, pulls.get(), pulled)));
                        break;
                    }
                    let (qa, qb) = ($a.pending_frames() as u64, $b.pending_frames() as u64);
                    if qa != pulled - pa || qb != pulled - pb {
                        errs.push(("fork|huge_ring|pending_frames".into(), format!("step {}: pending_frames A={} B={}, lags are A={} B={}", step, qa, qb, pulled - pa, pulled - pb)));
                        break;
                    }
                    if (pa as i64 - pb as i64).unsigned_abs() > 8 {
                        bump(&HUGE_LEAD);
                    }
                }
            }};
        }
        if by_rc {
            let (mut a, mut b) = fork.by_rc();
            run!(a, b);
        } else {
            let (mut a, mut b) = fork.by_ref();
            run!(a, b);
        }
        errs
    });
    match res {
        Ok(errs) => {
            let ok = errs.is_empty();
            for (sig, d) in errs {
                rep.violation(&sig, format!("ring buffer capacity 2^32+{} ({}): {}", r, if by_rc { "by_rc" } else { "by_ref" }, d), case.clone());
            }
            ok
        }
        Err(m) => {
            rep.violation("fork|huge_ring|panic", format!("ring buffer capacity 2^32+{}: panicked: {}", r, m), case);
            false
        }
    }
}

// ------------------------------------------------------------------ a zero-sized source type
// A source whose TYPE has no size but whose state lives outside the value (here a thread-local
// position; in the field: a hardware register, a global): "the value holds no state" does not
// mean the signal has none. Both branches must still see every frame exactly once.
thread_local! {
    static ZST_POS: Cell<u64> = const { Cell::new(0) };
}
#[derive(Clone, Copy)]
struct ZstSource;
impl Signal for ZstSource {
    type Frame = f64;
    fn next(&mut self) -> f64 {
        let p = ZST_POS.with(|c| c.replace(c.get() + 1));
        gen_frame(p)
    }
}
struct ZstProbe;
impl ZstProbe {
    fn pulls(&self) -> u64 {
        ZST_POS.with(|c| c.get())
    }
}
fn zst_source_fork(rep: &mut Report, seed: u64) {
    assert_eq!(std::mem::size_of::<ZstSource>(), 0);
    for (k, cap) in [1usize, 2, 5].into_iter().enumerate() {
        for by_rc in [false, true] {
            let mut rng = Rng::derive(seed, &[123, cap as u64, by_rc as u64]);
            let sched = random_schedule(&mut rng, cap, 60);
            let case = || format!("cap={};mode=Zst{};store=vec;len=-1;sched={}", cap, if by_rc { "Rc" } else { "Ref" }, sched_str(&sched));
            let r = vmon::catch(std::panic::AssertUnwindSafe(|| {
                ZST_POS.with(|c| c.set(0));
                let probe = ZstProbe;
                let mut model = Model { a: 0, b: 0, cap: cap as u64, last_sign: 0, len: None };
                let mut fork = ZstSource.fork(ring_buffer::Bounded::from_raw_parts(k % cap, 0, vec![0f64; cap]));
                if by_rc {
                    let (mut a, mut b) = fork.by_rc();
                    drive!(a, b, sched, model, probe, rep, case, 0)
                } else {
                    let (mut a, mut b) = fork.by_ref();
                    drive!(a, b, sched, model, probe, rep, case, 0)
                }
            }));
            if let Err(m) = r {
                rep.violation("fork|panic", format!("zero-sized source, cap {}: panicked: {}", cap, m), case());
            }
            rep.hit("zero_sized_source_type");
        }
    }
}

// ------------------------------------------------------------------ Fork::clone mid-stream
/// A `Fork` is `Clone`; cloning it (the only way to split it by_rc and keep it) must carry the
/// whole shared state: source position, queued frames and WHOSE they are. One step = borrow the
/// two branches, pull one of them (A A B A B B ..., so each branch is ahead at times) and report
/// the frame and both pending counts.
fn fork_clone_conformance(rep: &mut Report, seed: u64) {
    let mut rng = Rng::derive(seed, &[122]);
    let mut n = 0;
    for cap in [2usize, 3, 8] {
        for pat in 0..3u64 {
            let cs = format!("clone=1;cap={};pat={}", cap, pat);
            let mk = |v: u64| USource::infinite(gen_frame, Probe::new()).fork(ring_buffer::Bounded::from_raw_parts((v as usize + 1) % cap, 0, vec![0f64; cap]));
            let step = |f: &mut dasp_signal::Fork<USource<f64>, Vec<f64>>, i: u64| {
                let (mut a, mut b) = f.by_ref();
                // three pull patterns; in each both branches lead at times, by at most 2
                let pull_a = match pat {
                    0 => [true, true, false, true, false, false][(i % 6) as usize],
                    1 => [false, false, true, false, true, true][(i % 6) as usize],
                    _ => [true, false, false, true, true, false][(i % 6) as usize],
                };
                let x = if pull_a { a.next() } else { b.next() };
                (x.to_bits(), a.pending_frames(), b.pending_frames())
            };
            n += checks::cloneconf::check_clone_state("fork", &cs, mk, step, rep, &mut rng, 18, 14, 12);
        }
    }
    EVALS.with(|c| c.set(c.get() + n));
    rep.hit_n("clone_conformance_scripts", n);
}

// ------------------------------------------------------------------ by_rc: one handle dropped
/// by_rc branches are independent owners: either handle may be dropped at any point and the
/// survivor must go on receiving exactly its own next frames (first whatever is still queued for
/// it, then fresh source frames), whether it was ahead or behind. The schedule is followed until
/// step `at`; there branch A (or B) is dropped and every remaining step goes to the survivor.
/// The ring buffer starts at a non-zero offset (`len(schedule) % cap`).
fn run_rc_drop(rep: &mut Report, cap: usize, sched: &[bool], drop_a: bool, at: usize, src_len: Option<u64>) -> bool {
    let case = || format!("cap={};mode=RcDrop{}{};store=vec;len={};sched={}", cap, if drop_a { 'A' } else { 'B' }, at, src_len.map(|l| l as i64).unwrap_or(-1), sched_str(sched));
    let r = vmon::catch(std::panic::AssertUnwindSafe(|| -> Result<(), (String, String)> {
        let probe = Probe::new();
        let src = match src_len {
            Some(l) => USource::generated(gen_frame, l, probe.clone()),
            None => USource::infinite(gen_frame, probe.clone()),
        };
        let model = Model { a: 0, b: 0, cap: cap as u64, last_sign: 0, len: src_len };
        let (a, b) = src.fork(ring_buffer::Bounded::from_raw_parts(sched.len() % cap, 0, vec![0f64; cap])).by_rc();
        let (mut a, mut b) = (Some(a), Some(b));
        let (mut pa, mut pb) = (0u64, 0u64);
        let mut pulled = 0u64;
        for (k, &want_a) in sched.iter().enumerate() {
            if k == at {
                let lagging = if drop_a { pa < pb } else { pb < pa };
                if drop_a {
                    a = None;
                } else {
                    b = None;
                }
                bump(&RC_DROP);
                if lagging {
                    bump(&RC_DROP_LAGGING);
                }
            }
            let is_a = if a.is_none() { false } else if b.is_none() { true } else { want_a };
            let pos = if is_a { pa } else { pb };
            let got = if is_a { a.as_mut().unwrap().next() } else { b.as_mut().unwrap().next() };
            if is_a {
                pa += 1
            } else {
                pb += 1
            }
            pulled = pulled.max(pos + 1);
            bump(&EVALS);
            if got != model.frame(pos) {
                let what = if got < model.frame(pos) { "frame_duplicated_or_reordered" } else { "frame_lost" };
                return Err((format!("fork|rc_handle_dropped|{}", what), format!("step {} (branch {}, {} dropped at step {}): returned {} but the branch is at position {} (source frame value {})", k, if is_a { 'A' } else { 'B' }, if drop_a { 'A' } else { 'B' }, at, got, pos, model.frame(pos))));
            }
            if probe.pulls() != pulled {
                return Err(("fork|rc_handle_dropped|source_pull_count".into(), format!("step {}: source pulled {} times, distinct frames consumed {}", k, probe.pulls(), pulled)));
            }
            let pend = if is_a { a.as_ref().unwrap().pending_frames() } else { b.as_ref().unwrap().pending_frames() } as u64;
            // the lead never exceeded the capacity while both were alive, so the queue of the
            // branch that is behind is exactly its lag; a branch that is ahead has none
            let lag = pulled - if is_a { pa } else { pb };
            if pend != lag {
                return Err(("fork|rc_handle_dropped|pending_frames".into(), format!("step {}: pending_frames = {}, lag {}", k, pend, lag)));
            }
        }
        Ok(())
    }));
    match r {
        Ok(Ok(())) => true,
        Ok(Err((sig, d))) => {
            rep.violation(&sig, format!("cap {} schedule {}: {}", cap, sched_str(sched), d), case());
            false
        }
        Err(m) => {
            rep.violation("fork|rc_handle_dropped|panic", format!("cap {} schedule {} drop {} at {}: panicked: {}", cap, sched_str(sched), if drop_a { 'A' } else { 'B' }, at, m), case());
            false
        }
    }
}

/// every maximal legal schedule of length `len` for capacity `cap`
fn enumerate(cap: usize, len: usize, mut f: impl FnMut(&[bool])) {
    fn rec(cap: i64, len: usize, lead: i64, cur: &mut Vec<bool>, f: &mut dyn FnMut(&[bool])) {
        if cur.len() == len {
            f(cur);
            return;
        }
        for is_a in [true, false] {
            let nl = lead + if is_a { 1 } else { -1 };
            if nl.abs() <= cap {
                cur.push(is_a);
                rec(cap, len, nl, cur, f);
                cur.pop();
            }
        }
    }
    let mut cur = Vec::new();
    rec(cap as i64, len, 0, &mut cur, &mut f);
}

fn random_schedule(rng: &mut Rng, cap: usize, len: usize) -> Vec<bool> {
    // biased to ride the lead at exactly +-cap and to flip its sign
    let mut lead: i64 = 0;
    let mut v = Vec::with_capacity(len);
    let mut target: i64 = cap as i64;
    for _ in 0..len {
        if rng.chance(1, 40) {
            target = -target;
        }
        let want_a = if rng.chance(4, 5) { lead < target } else { rng.bool() };
        let is_a = if want_a { lead + 1 <= cap as i64 } else { !(lead - 1 >= -(cap as i64)) };
        lead += if is_a { 1 } else { -1 };
        v.push(is_a);
    }
    v
}

fn is_nontrivial(cap: usize, s: &[bool]) -> bool {
    let mut lead = 0i64;
    let mut last = 0i64;
    for &a in s {
        lead += if a { 1 } else { -1 };
        if lead.unsigned_abs() as usize == cap {
            return true;
        }
        if lead != 0 {
            if last != 0 && lead.signum() != last {
                return true;
            }
            last = lead.signum();
        }
    }
    false
}

fn flush(rep: &mut Report) {
    rep.eval(EVALS.with(|c| c.replace(0)));
    rep.hit_n("lead_reached_capacity", LEAD_AT_CAP.with(|c| c.replace(0)));
    rep.hit_n("lead_changed_sign", SIGN_FLIP.with(|c| c.replace(0)));
    rep.hit_n("re_split", RESPLIT.with(|c| c.replace(0)));
    for (c, name) in [(&RC_DROP, "rc_handle_dropped"), (&RC_DROP_LAGGING, "rc_lagging_handle_dropped")] {
        let n = c.with(|c| c.replace(0));
        if n > 0 {
            rep.hit_n(name, n);
        }
    }
    let h = HUGE_LEAD.with(|c| c.replace(0));
    if h > 0 {
        rep.hit_n("huge_ring_lead_above_8", h);
    }
}

fn main() {
    let cli = Cli::parse();
    let t0 = Instant::now();
    let mut rep = Report::new("C12", &cli.stage);
    if let Some(cs) = &cli.case {
        let m = vmon::cli::parse_case(cs);
        if m.contains_key("huge") {
            eprintln!("CASE {}", cs);
            huge_fork_probe(&mut rep, m["seed"].parse().unwrap(), m["r"].parse().unwrap(), m["rc"] == "1", m["steps"].parse().unwrap());
            flush(&mut rep);
            finish(&cli, rep, t0);
        }
        let cap: usize = m["cap"].parse().unwrap();
        let sched: Vec<bool> = m["sched"].chars().map(|c| c == 'A').collect();
        let ms = m["mode"].as_str();
        let num = |s: &str| -> usize { s.trim_matches(|c: char| !c.is_ascii_digit()).parse().unwrap_or(0) };
        if ms.starts_with("Zst") {
            zst_source_fork(&mut rep, cli.seed);
            flush(&mut rep);
            finish(&cli, rep, t0);
        }
        if ms.starts_with("RcDrop") {
            eprintln!("CASE {}", cs);
            let l: i64 = m.get("len").map(|x| x.parse().unwrap()).unwrap_or(-1);
            run_rc_drop(&mut rep, cap, &sched, ms.as_bytes()[6] == b'A', num(&ms[7..]), if l < 0 { None } else { Some(l as u64) });
            flush(&mut rep);
            finish(&cli, rep, t0);
        }
        let mode = if ms.starts_with("ByRef") {
            Mode::ByRef
        } else if ms.starts_with("ByRc") {
            Mode::ByRc
        } else if ms.starts_with("ReSplitRef") {
            Mode::ReSplitRef(num(ms))
        } else {
            Mode::RefThenRc(num(ms))
        };
        eprintln!("CASE {}", cs);
        let l: i64 = m.get("len").map(|x| x.parse().unwrap()).unwrap_or(-1);
        run_schedule_len(&mut rep, cap, &sched, mode, m["store"] == "array", if l < 0 { None } else { Some(l as u64) });
        flush(&mut rep);
        finish(&cli, rep, t0);
    }
    for o in ["lead_reached_capacity", "lead_changed_sign", "re_split"] {
        rep.oblige(o, 1);
    }
    let lean = cli.stage == "miri";
    match cli.stage.as_str() {
        "main" | "release" | "asan" => {
            rep.oblige("zero_sized_source_type", 1);
            zst_source_fork(&mut rep, cli.seed);
            rep.oblige("clone_conformance_scripts", 1);
            fork_clone_conformance(&mut rep, cli.seed);
            rep.oblige("rc_handle_dropped", 1);
            rep.oblige("rc_lagging_handle_dropped", 1);
            let len = if cli.stage == "asan" { 10 } else { cli.t(12, 18) };
            let caps: Vec<usize> = (1..=4).collect();
            let reps = vmon::par_for(cli.threads, caps.len() as u64 * 2, 1, |_| Report::new("C12", "w"), |rep, i| {
                let cap = caps[(i / 2) as usize];
                let mode = if i % 2 == 0 { Mode::ByRef } else { Mode::ByRc };
                let mut k = 0u64;
                enumerate(cap, len, |s| {
                    run_schedule(rep, cap, s, mode, cap % 2 == 0);
                    // the same schedule over sources that run dry part-way (incl. at once)
                    k += 1;
                    run_schedule_len(rep, cap, s, mode, false, Some(k % (len as u64 / 2 + 2)));
                    if is_nontrivial(cap, s) {
                        rep.nontrivial(vmon::hash_combine(cap as u64 * 2 + (i % 2), vmon::hash_str(&sched_str(s))));
                    }
                });
                // re-split at every point of every schedule of length <= 10
                let rl = 10.min(len);
                enumerate(cap, rl, |s| {
                    for split in 0..=rl {
                        run_schedule(rep, cap, s, if i % 2 == 0 { Mode::ReSplitRef(split) } else { Mode::RefThenRc(split) }, false);
                    }
                    // by_rc with one handle dropped at every point (A in one worker, B in the other)
                    for at in 0..rl {
                        run_rc_drop(rep, cap, s, i % 2 == 0, at, if at % 3 == 2 { Some(rl as u64 / 2) } else { None });
                    }
                });
                flush(rep);
            });
            for r in reps {
                rep.merge(r);
            }
            if cli.stage != "asan" && usize::BITS >= 64 {
                rep.oblige("huge_ring_lead_above_8", 1);
                for r in [8usize, 3, 1 << 20] {
                    for rc in [false, true] {
                        huge_fork_probe(&mut rep, cli.seed, r, rc, cli.t(4_000, 200_000));
                    }
                }
                flush(&mut rep);
            }
            rep.exhaustive(format!("capacities 1..=4 x every schedule in {{A,B}}^{} whose lead stays within the capacity, by_ref and by_rc; every schedule of length 10 re-split at every point (second by_ref, and by_rc after by_ref)", len));
            // random long schedules, capacities to 64
            let n_rand = cli.t(300u64, 1_000_000u64);
            let reps = vmon::par_for(cli.threads, n_rand, 4, |_| Report::new("C12", "w"), |rep, i| {
                let mut rng = Rng::derive(cli.seed, &[12, i]);
                let cap = 1 + rng.usize_below(64);
                let len = cli.t(2_000, 10_000);
                let s = random_schedule(&mut rng, cap, len);
                let mode = match rng.below(4) {
                    0 => Mode::ByRef,
                    1 => Mode::ByRc,
                    2 => Mode::ReSplitRef(rng.usize_below(len)),
                    _ => Mode::RefThenRc(rng.usize_below(len)),
                };
                let src_len = if rng.chance(1, 3) { Some(rng.below(len as u64 / 2)) } else { None };
                run_schedule_len(rep, cap, &s, mode, false, src_len);
                rep.nontrivial(vmon::hash_combine(cap as u64, vmon::hash_str(&sched_str(&s[..64]))));
                if rep.want_sample() && i % 37 == 0 {
                    rep.sample(J::obj().set("cap", J::u(cap as u64)).set("mode", J::s(format!("{:?}", mode))).set("schedule_prefix", J::s(sched_str(&s[..48]))).set("length", J::u(len as u64)));
                }
                flush(rep);
            });
            for r in reps {
                rep.merge(r);
            }
        }
        "miri" => {
            if usize::BITS < 64 {
                // a 32-BIT build (stage miri32): one branch leads by 2^16 frames and more - the
                // counterpart of the 2^32-frame leads of the 64-bit stages; every step is checked
                // like any other (value, source pulls, pending_frames of both branches)
                rep.oblige("lead_of_2_pow_16_frames_and_more_in_a_32_bit_build", 1);
                let deep = [(65_540usize, 65_536usize, true), (66_000, 65_537, false), (131_080, 131_072, true)];
                for (i, &(cap, lead, a_first)) in deep.iter().enumerate() {
                    if (i as u64 + 1) % cli.nshards != cli.shard || (i == 2 && !cli.thorough()) {
                        continue;
                    }
                    let mut s = vec![a_first; lead];
                    s.extend([!a_first, !a_first, !a_first, a_first, a_first, !a_first, !a_first]);
                    if run_schedule_len(&mut rep, cap, &s, if i % 2 == 0 { Mode::ByRef } else { Mode::ByRc }, false, None) {
                        rep.hit("lead_of_2_pow_16_frames_and_more_in_a_32_bit_build");
                    }
                }
            }
            // cap <= 2, length <= 10, dealt to shards
            let mut item = 0u64;
            for cap in 1..=2usize {
                enumerate(cap, cli.get_u64("len", 8) as usize, |s| {
                    item += 1;
                    if item % cli.nshards != cli.shard {
                        return;
                    }
                    let mode = match item % 4 {
                        0 => Mode::ByRef,
                        1 => Mode::ByRc,
                        2 => Mode::ReSplitRef((item % 7) as usize),
                        _ => Mode::RefThenRc((item % 5) as usize),
                    };
                    if lean {
                        eprintln!("CASE cap={};mode={:?};store=array;sched={}", cap, mode, sched_str(s));
                    }
                    run_schedule_len(&mut rep, cap, s, mode, item % 2 == 0, if item % 3 == 0 { Some(item % 5) } else { None });
                });
            }
        }
        other => panic!("unknown stage {}", other),
    }
    flush(&mut rep);
    finish(&cli, rep, t0);
}
