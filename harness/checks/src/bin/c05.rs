//! C05 — finite signals end exactly once: exhaustion is exact, contagious, then silent.
//!
//! Reference model: a leaf of length L is exhausted after L pulls; a combining adaptor as soon as
//! any input is; a delay stays live while it still owes silence. Checked before and after every
//! next() on real adaptor trees over instrumented finite leaves, on signals built from
//! instrumented (also non-fused) iterators of frames / interleaved samples, and on the iterator
//! conversions until_exhausted / lift / take / into_interleaved_samples.

use checks::tree::*;
use checks::*;
use dasp_frame::Frame;
use dasp_sample::{FromSample, Sample, I24};
use dasp_signal::{self as signal, Signal};
use std::cell::Cell;
use std::rc::Rc;
use std::time::Instant;
use vmon::{Cli, Report, Rng, J};

thread_local! {
    static EVALS: Cell<u64> = const { Cell::new(0) };
    static ITER_SCRIPTS: Cell<u64> = const { Cell::new(0) };
    static SECOND_SHORTER: Cell<u64> = const { Cell::new(0) };
    static FIRST_SHORTER: Cell<u64> = const { Cell::new(0) };
    static DELAY_GT_LEN: Cell<u64> = const { Cell::new(0) };
    static DELAY_EQ_LEN: Cell<u64> = const { Cell::new(0) };
    static ZERO_LEN: Cell<u64> = const { Cell::new(0) };
    static PARTIAL_FRAME: Cell<u64> = const { Cell::new(0) };
}
fn bump(c: &'static std::thread::LocalKey<Cell<u64>>) {
    c.with(|c| c.set(c.get() + 1));
}
fn ev(n: u64) {
    EVALS.with(|c| c.set(c.get() + n));
}

/// iterator that yields `items`, then None, then (if `revive`) more items again: a non-fused
/// iterator. Counts polls.
struct CountingIter<T: Copy> {
    items: Rc<Vec<T>>,
    i: usize,
    polls: Rc<Cell<u64>>,
    revive: bool,
    extra: T,
}
impl<T: Copy> Iterator for CountingIter<T> {
    type Item = T;
    fn next(&mut self) -> Option<T> {
        self.polls.set(self.polls.get() + 1);
        let i = self.i;
        self.i += 1;
        if i < self.items.len() {
            Some(self.items[i])
        } else if i == self.items.len() || !self.revive {
            None
        } else {
            Some(self.extra)
        }
    }
}

fn lens_str(l: &[Option<u64>]) -> String {
    l.iter().map(|x| x.map(|v| v.to_string()).unwrap_or("inf".into())).collect::<Vec<_>>().join(".")
}

// ------------------------------------------------------------------ signals from iterators
fn check_from_iter(rep: &mut Report, len: usize, revive: bool, extra_calls: usize) {
    let case = format!("kind=from_iter;len={};revive={};extra={}", len, revive, extra_calls);
    let frames: Rc<Vec<[i16; 2]>> = Rc::new((0..len).map(|i| [i as i16 * 2 + 1, -(i as i16) - 7]).collect());
    let polls = Rc::new(Cell::new(0));
    let it = CountingIter { items: frames.clone(), i: 0, polls: polls.clone(), revive, extra: [99, 99] };
    let mut s = signal::from_iter(it);
    for n in 0..len + extra_calls {
        let want_ex = n >= len;
        if s.is_exhausted() != want_ex {
            rep.violation("from_iter|is_exhausted_before_next", format!("len {} revive {}: before next #{} is_exhausted() = {}", len, revive, n, !want_ex), case.clone());
            return;
        }
        let got = s.next();
        let want = if n < len { frames[n] } else { [0, 0] };
        if got != want {
            let what = if n >= len { "not_equilibrium_after_exhaustion" } else { "wrong_frame" };
            rep.violation(&format!("from_iter|{}", what), format!("len {} revive {}: next #{} = {:?}, expected {:?}", len, revive, n, got, want), case.clone());
            return;
        }
        if s.is_exhausted() != (n + 1 >= len) {
            rep.violation("from_iter|is_exhausted_after_next", format!("len {} revive {}: after next #{} is_exhausted() = {}", len, revive, n, s.is_exhausted()), case.clone());
            return;
        }
        ev(1);
    }
    if len == 0 {
        bump(&ZERO_LEN);
    }
}

fn check_from_samples<const N: usize>(rep: &mut Report, n_samples: usize, revive: bool, extra_calls: usize)
where
    [i16; N]: Frame<Sample = i16>,
{
    let case = format!("kind=from_samples;ch={};len={};revive={};extra={}", N, n_samples, revive, extra_calls);
    let samples: Rc<Vec<i16>> = Rc::new((0..n_samples).map(|i| i as i16 * 3 + 1).collect());
    let polls = Rc::new(Cell::new(0));
    let it = CountingIter { items: samples.clone(), i: 0, polls: polls.clone(), revive, extra: 77 };
    let mut s = signal::from_interleaved_samples_iter::<_, [i16; N]>(it);
    let n_frames = n_samples / N;
    if n_samples % N != 0 {
        bump(&PARTIAL_FRAME);
    }
    for n in 0..n_frames + extra_calls {
        let want_ex = n >= n_frames;
        if s.is_exhausted() != want_ex {
            rep.violation("from_interleaved_samples|is_exhausted_before_next", format!("{} channels, {} samples: before next #{} is_exhausted() = {}", N, n_samples, n, !want_ex), case.clone());
            return;
        }
        let got = s.next();
        let want: [i16; N] = if n < n_frames { core::array::from_fn(|c| samples[n * N + c]) } else { [0; N] };
        if got != want {
            let what = if n >= n_frames { "partial_frame_not_dropped_or_not_silent" } else { "wrong_frame" };
            rep.violation(&format!("from_interleaved_samples|{}", what), format!("{} channels, {} samples (revive {}): next #{} = {:?}, expected {:?}", N, n_samples, revive, n, got, want), case.clone());
            return;
        }
        ev(1);
    }
    if !s.is_exhausted() {
        rep.violation("from_interleaved_samples|exhaustion_flipped_back", format!("{} channels, {} samples: not exhausted after {} calls", N, n_samples, n_frames + extra_calls), case);
    }
}

// ------------------------------------------------------------------ adaptor trees
fn run_tree<F>(rep: &mut Report, fname: &'static str, node: &Node, lens: &[Option<u64>], extra: u64) -> bool
where
    F: Frame + std::fmt::Debug + 'static,
    F::Sample: AnyS,
    <F::Sample as Sample>::Signed: AnyS,
    <F::Sample as Sample>::Float: AnyS + FromSample<f64>,
    F::Signed: 'static,
    F::Float: 'static,
{
    let case = || format!("kind=tree;fmt={};tree={};lens={};extra={}", fname, node.encode(), lens_str(lens), extra);
    let mk_leaves = || -> Vec<LeafSpec> { lens.iter().map(|l| LeafSpec { len: *l, probe: Probe::new() }).collect() };
    let r = vmon::catch(std::panic::AssertUnwindSafe(|| -> Result<(), (String, String)> {
        let leaves = mk_leaves();
        // a delay of 2^32 frames or more is never drained: treat such trees as endless here
        let point = exhaustion_point(node, &leaves).filter(|p| *p <= 4096);
        let mut logs = Vec::new();
        // 1. step through next(), checking is_exhausted before and after, and the frames
        let mut sig: Dyn<F> = build::<F>(node, &leaves, &mut logs);
        let total = point.unwrap_or(20) + extra;
        for n in 0..total {
            let want_before = expected_exhausted(node, n, &leaves);
            if sig.is_exhausted() != want_before {
                let w = if want_before { "not_exhausted_when_an_input_is" } else { "exhausted_too_early" };
                return Err((format!("{}|{}", node.kind(), w), format!("before output {}: is_exhausted() = {}, model {}", n, !want_before, want_before)));
            }
            let got = sig.next();
            let want: F = eval::<F>(node, n, &leaves);
            if got != want {
                return Err((format!("{}|wrong_frame", node.kind()), format!("output {}: {:?} expected {:?}", n, got, want)));
            }
            let want_after = expected_exhausted(node, n + 1, &leaves);
            if sig.is_exhausted() != want_after {
                let w = if want_after { "not_exhausted_when_an_input_is" } else { "exhausted_too_early" };
                return Err((format!("{}|{}", node.kind(), w), format!("after output {}: is_exhausted() = {}, model {}", n, !want_after, want_after)));
            }
            ev(1);
        }
        // 2. until_exhausted: exactly `point` items, then None for good
        if let Some(p) = point {
            let leaves2 = mk_leaves();
            let sig2: Dyn<F> = build::<F>(node, &leaves2, &mut Vec::new());
            let mut it = sig2.until_exhausted();
            let mut n = 0u64;
            while let Some(f) = it.next() {
                let want: F = eval::<F>(node, n, &leaves2);
                if f != want {
                    return Err(("until_exhausted|wrong_frame".into(), format!("item {}: {:?} expected {:?}", n, f, want)));
                }
                n += 1;
                if n > p + 8 {
                    break;
                }
            }
            if n != p {
                let w = if n > p { "yields_past_exhaustion" } else { "stops_early" };
                return Err((format!("until_exhausted|{}", w), format!("yielded {} items, the shortest source (plus delays) gives {}", n, p)));
            }
            for k in 0..extra {
                if it.next().is_some() {
                    return Err(("until_exhausted|yields_again_after_none".into(), format!("poll {} after None returned Some", k)));
                }
            }
            ev(p + extra);
            // 3. take(n)
            let leaves3 = mk_leaves();
            let sig3: Dyn<F> = build::<F>(node, &leaves3, &mut Vec::new());
            let tn = (p / 2 + 1) as usize;
            let mut tk = sig3.take(tn);
            if tk.len() != tn {
                return Err(("take|len".into(), format!("take({}).len() = {}", tn, tk.len())));
            }
            let got: Vec<F> = tk.by_ref().collect();
            if got.len() != tn || tk.next().is_some() {
                return Err(("take|wrong_count".into(), format!("take({}) yielded {} items", tn, got.len())));
            }
            for (k, f) in got.iter().enumerate() {
                if *f != eval::<F>(node, k as u64, &leaves3) {
                    return Err(("take|wrong_frame".into(), format!("item {}", k)));
                }
            }
            // 4. into_interleaved_samples: frames x channels samples in channel order, then None
            let leaves4 = mk_leaves();
            let sig4: Dyn<F> = build::<F>(node, &leaves4, &mut Vec::new());
            let mut samples = sig4.into_interleaved_samples();
            let via_iter = p % 2 == 0;
            let mut got: Vec<F::Sample> = Vec::new();
            if via_iter {
                let mut it = samples.into_iter();
                while let Some(s) = it.next() {
                    got.push(s);
                    if got.len() as u64 > (p + 4) * F::CHANNELS as u64 {
                        break;
                    }
                }
                for _ in 0..extra {
                    if it.next().is_some() {
                        return Err(("into_interleaved_samples|yields_again_after_none".into(), "Some after None".into()));
                    }
                }
            } else {
                while let Some(s) = samples.next_sample() {
                    got.push(s);
                    if got.len() as u64 > (p + 4) * F::CHANNELS as u64 {
                        break;
                    }
                }
                for _ in 0..extra {
                    if samples.next_sample().is_some() {
                        return Err(("into_interleaved_samples|yields_again_after_none".into(), "next_sample() Some after None".into()));
                    }
                }
            }
            if got.len() as u64 != p * F::CHANNELS as u64 {
                return Err(("into_interleaved_samples|wrong_count".into(), format!("{} samples, expected {} frames x {} channels", got.len(), p, F::CHANNELS)));
            }
            for (k, s) in got.iter().enumerate() {
                let fr: F = eval::<F>(node, (k / F::CHANNELS) as u64, &leaves4);
                if !s.same(*fr.channel(k % F::CHANNELS).unwrap()) {
                    return Err(("into_interleaved_samples|wrong_order_or_value".into(), format!("sample {} = {:?}, expected channel {} of frame {} = {:?}", k, s, k % F::CHANNELS, k / F::CHANNELS, fr)));
                }
            }
            // the source was pulled exactly p times: no frame fetched after exhaustion
            let mut exp = Vec::new();
            expected_pulls(node, p, &mut exp);
            for (j, want) in exp {
                if leaves4[j].probe.pulls() != want {
                    return Err(("into_interleaved_samples|pulled_after_exhaustion".into(), format!("leaf {} pulled {} times, expected {}", j, leaves4[j].probe.pulls(), want)));
                }
            }
            ev(p * F::CHANNELS as u64);
            // 5. iterator protocol of the iterator views (nth / fold / count / last / skip /
            // step_by / size_hint / len against plain next(), after any prefix of steps)
            if p <= 24 {
                let mut rng = Rng::derive(p, &[55, vmon::hash_str(&node.encode())]);
                let cs = case();
                let mut n = checks::iterconf::check_iter("into_interleaved_samples", &cs, || build::<F>(node, &mk_leaves(), &mut Vec::new()).into_interleaved_samples().into_iter(), rep, &mut rng, 10);
                n += checks::iterconf::check_iter("until_exhausted", &cs, || build::<F>(node, &mk_leaves(), &mut Vec::new()).until_exhausted(), rep, &mut rng, 6);
                let tn = (p / 2 + 2) as usize;
                n += checks::iterconf::check_iter("take", &cs, || build::<F>(node, &mk_leaves(), &mut Vec::new()).take(tn), rep, &mut rng, 6);
                n += checks::iterconf::check_exact_size("take", &cs, || build::<F>(node, &mk_leaves(), &mut Vec::new()).take(tn), rep);
                ITER_SCRIPTS.with(|c| c.set(c.get() + n));
                ev(n);
            }
        }
        Ok(())
    }));
    match r {
        Ok(Ok(())) => true,
        Ok(Err((sig, detail))) => {
            rep.violation(&format!("exhaustion|{}", sig), format!("{} tree {} lens {}: {}", fname, node.encode(), lens_str(lens), detail), case());
            false
        }
        Err(m) => {
            rep.violation(&format!("exhaustion|{}|panic", node.kind()), format!("{} tree {} lens {}: panicked: {}", fname, node.encode(), lens_str(lens), m), case());
            false
        }
    }
}

/// lift(iter, f): yields as many frames as the iterator for a length-preserving adaptor stack
fn check_lift(rep: &mut Report, len: usize) {
    let case = format!("kind=lift;len={}", len);
    let frames: Vec<[f32; 2]> = (0..len).map(|i| [i as f32 / 64.0, -(i as f32) / 128.0]).collect();
    let out: Vec<[f32; 2]> = signal::lift(frames.clone(), |s| s.offset_amp(0.25).scale_amp(0.5).clip_amp(0.9)).collect();
    let want: Vec<[f32; 2]> = frames.iter().map(|f| f.offset_amp(0.25).scale_amp(0.5)).collect();
    if out != want {
        rep.violation("exhaustion|lift|wrong_items", format!("lift over {} frames yielded {} items: {:?}", len, out.len(), out), case.clone());
    }
    // with a delay: len + k items
    let out2: Vec<[f32; 2]> = signal::lift(frames.clone(), |s| s.delay(3)).collect();
    if out2.len() != len + 3 || out2[..3].iter().any(|f| *f != [0.0, 0.0]) || out2[3..] != frames[..] {
        rep.violation("exhaustion|lift|delay", format!("lift(delay 3) over {} frames yielded {} items", len, out2.len()), case);
    }
    ev(2);
}

macro_rules! frame_types {
    ($m:ident) => {
        $m!("f64", f64);
        $m!("f32x2", [f32; 2]);
        $m!("i16x3", [i16; 3]);
        $m!("u8x2", [u8; 2]);
        $m!("I24x1", [I24; 1]);
        $m!("u32x4", [u32; 4]);
        // wider than the 32 channels the crate documentation speaks of: [S; N] is a Frame for every N
        $m!("i16x40", [i16; 40]);
    };
}
const FNAMES: [&str; 7] = ["f64", "f32x2", "i16x3", "u8x2", "I24x1", "u32x4", "i16x40"];

fn run_any(rep: &mut Report, fname: &str, node: &Node, lens: &[Option<u64>], extra: u64) -> bool {
    let mut out = true;
    macro_rules! go {
        ($name:expr, $F:ty) => {
            if fname == $name {
                out = run_tree::<$F>(rep, $name, node, lens, extra);
            }
        };
    }
    frame_types!(go);
    out
}

fn note_obligations(node: &Node, lens: &[Option<u64>]) {
    match node {
        Node::ZipMap(..) | Node::AddAmp(..) | Node::MulAmp(..) => {
            let mut l = Vec::new();
            node.children()[0].leaves(&mut l);
            let mut r = Vec::new();
            node.children()[1].leaves(&mut r);
            let la = l.iter().filter_map(|j| lens[*j]).min();
            let lb = r.iter().filter_map(|j| lens[*j]).min();
            if let (Some(a), Some(b)) = (la, lb) {
                if b < a {
                    bump(&SECOND_SHORTER);
                }
                if a < b {
                    bump(&FIRST_SHORTER);
                }
            }
        }
        Node::Delay(c, k) => {
            if let Node::Leaf(j) = **c {
                if let Some(l) = lens[j] {
                    if *k as u64 > l {
                        bump(&DELAY_GT_LEN);
                    }
                    if *k as u64 == l {
                        bump(&DELAY_EQ_LEN);
                    }
                }
            }
        }
        _ => {}
    }
    if lens.iter().any(|l| *l == Some(0)) {
        bump(&ZERO_LEN);
    }
}

/// clone() / clone_from() of iterator-backed signals mid-stream (and past their end)
fn clone_conformance(rep: &mut Report, seed: u64) {
    let mut rng = Rng::derive(seed, &[52]);
    let mut n = 0;
    let mk = |v: u64| signal::from_iter((0..7 + 3 * v).map(|i| [i as f32 + 1.0, -(i as f32)]).collect::<Vec<[f32; 2]>>());
    n += checks::cloneconf::check_clone_state("from_iter", "kind=clone", mk, |s, _i| (s.next(), s.is_exhausted()), rep, &mut rng, 24, 12, 8);
    let mk2 = |v: u64| signal::from_interleaved_samples_iter::<_, [i16; 3]>((0..20 + 4 * v as i16).collect::<Vec<i16>>());
    n += checks::cloneconf::check_clone_state("from_interleaved_samples", "kind=clone", mk2, |s, _i| (s.next(), s.is_exhausted()), rep, &mut rng, 24, 12, 8);
    rep.eval(n);
    rep.hit_n("clone_conformance_scripts", n);
}

/// interleaved-sample output of frames with very many channels (33, 300, 65 537): exactly
/// frames x channels samples in channel order, then None - by next_sample() and by the iterator
fn wide_interleaved<const N: usize>(rep: &mut Report)
where
    [i16; N]: Frame<Sample = i16>,
{
    let case = format!("kind=wide;ch={}", N);
    let r = vmon::catch(|| -> Result<(), String> {
        let frames: Vec<[i16; N]> = (0..3usize).map(|k| core::array::from_fn(|c| ((k * N + c) % 30_011) as i16 + 1)).collect();
        for via_iter in [false, true] {
            let mut s = signal::from_iter(frames.clone()).into_interleaved_samples();
            let mut n = 0usize;
            let limit = 3 * N + 5;
            if via_iter {
                let mut it = s.into_iter();
                while let Some(x) = it.next() {
                    if n >= 3 * N || x != ((n % 30_011) as i16 + 1) {
                        return Err(format!("iterator: sample {} = {}, expected {}", n, x, if n < 3 * N { ((n % 30_011) as i16 + 1).to_string() } else { "None".into() }));
                    }
                    n += 1;
                    if n > limit {
                        break;
                    }
                }
            } else {
                while let Some(x) = s.next_sample() {
                    if n >= 3 * N || x != ((n % 30_011) as i16 + 1) {
                        return Err(format!("next_sample: sample {} = {}, expected {}", n, x, if n < 3 * N { ((n % 30_011) as i16 + 1).to_string() } else { "None".into() }));
                    }
                    n += 1;
                    if n > limit {
                        break;
                    }
                }
            }
            if n != 3 * N {
                return Err(format!("{} samples delivered, expected 3 frames x {} channels = {}", n, N, 3 * N));
            }
        }
        Ok(())
    });
    match r {
        Ok(Ok(())) => {}
        Ok(Err(d)) => rep.violation("into_interleaved_samples|wide_frames", format!("{} channels: {}", N, d), case),
        Err(m) => rep.violation("into_interleaved_samples|wide_frames|panic", format!("{} channels: {}", N, m), case),
    }
    ev(6 * N as u64);
    rep.hit("interleaved_output_of_frames_wider_than_32_channels");
}

/// A bus output is a signal like any other: it is exhausted when the source is AND it has nothing
/// left to deliver. Here a sibling output drains the finite source and is dropped, the bus
/// handle is dropped too, and the survivor - the only owner left, with the whole source still
/// queued for it - is read through every exhaustion-aware route.
fn bus_output_exhaustion(rep: &mut Report) {
    use dasp_signal::bus::SignalBus;
    for len in [0usize, 1, 6, 33] {
        for route in 0..3usize {
            let case = format!("kind=busout;len={};route={}", len, route);
            let r = vmon::catch(|| -> Result<(), String> {
                let frames: Vec<[i16; 2]> = (0..len).map(|i| [i as i16 + 1, -(i as i16) - 1]).collect();
                let bus = signal::from_iter(frames.clone()).bus();
                let mut leader = bus.send();
                let survivor = bus.send();
                for _ in 0..len + 2 {
                    leader.next();
                }
                drop(leader);
                drop(bus);
                let mut survivor = survivor;
                let pending = survivor.pending_frames();
                if survivor.is_exhausted() != (pending == 0) {
                    return Err(format!("sole surviving output with {} frames queued: is_exhausted() = {}", pending, survivor.is_exhausted()));
                }
                let want: Vec<[i16; 2]> = frames.iter().cloned().chain(std::iter::repeat([0i16; 2]).take(2)).collect();
                let got: Vec<[i16; 2]> = match route {
                    0 => survivor.until_exhausted().take(len + 8).collect(),
                    1 => {
                        let s: Vec<i16> = survivor.into_interleaved_samples().into_iter().take(2 * len + 16).collect();
                        s.chunks(2).map(|c| [c[0], c[1]]).collect()
                    }
                    _ => {
                        let mut v = Vec::new();
                        while !survivor.is_exhausted() && v.len() < len + 8 {
                            v.push(survivor.next());
                        }
                        v
                    }
                };
                if got != want {
                    return Err(format!("a {}-frame source drained by a sibling (2 calls past its end): the surviving output yields {:?} before reporting exhaustion, the frames queued for it are {:?}", len, got, want));
                }
                Ok(())
            });
            match r {
                Ok(Ok(())) => {}
                Ok(Err(d)) => {
                    rep.violation("bus_output|exhaustion_with_a_backlog", d, case);
                    return;
                }
                Err(m) => {
                    rep.violation("bus_output|exhaustion|panic", m, case);
                    return;
                }
            }
            ev(len as u64 + 4);
            rep.hit("bus_output_as_exhaustible_signal");
        }
    }
}

/// take(n) for n around the integer-width boundaries: len() / size_hint() report n - k after k
/// items (never a truncated n), and the first items are the source's.
fn huge_take(rep: &mut Report) {
    let mut n_checked = 0u64;
    for n in vmon::edge::wide_usizes(3).into_iter().filter(|n| *n > 1000) {
        let case = format!("kind=hugetake;n={}", n);
        let r = vmon::catch(|| -> Result<(), String> {
            let mut k = 0u64;
            let mut t = signal::gen_mut(move || {
                k += 1;
                k as f64
            })
            .take(n);
            for i in 0..40usize {
                if t.len() != n - i || t.size_hint() != (n - i, Some(n - i)) {
                    return Err(format!("after {} items len() = {}, size_hint() = {:?}, expected {}", i, t.len(), t.size_hint(), n - i));
                }
                match t.next() {
                    Some(x) if x == (i + 1) as f64 => {}
                    other => return Err(format!("item {} = {:?}, expected {}", i, other, i + 1)),
                }
            }
            Ok(())
        });
        match r {
            Ok(Ok(())) => {}
            Ok(Err(d)) => {
                rep.violation("take|huge_n|len_or_items", format!("take({}): {}", n, d), case);
                return;
            }
            Err(m) => {
                rep.violation("take|huge_n|panic", format!("take({}): {}", n, m), case);
                return;
            }
        }
        n_checked += 1;
    }
    rep.eval(n_checked * 40);
    rep.hit_n("take_n_at_least_2_pow_32", n_checked);
}

fn flush(rep: &mut Report) {
    rep.eval(EVALS.with(|c| c.replace(0)));
    rep.hit_n("iterator_conformance_scripts", ITER_SCRIPTS.with(|c| c.replace(0)));
    rep.hit_n("two_source_second_shorter", SECOND_SHORTER.with(|c| c.replace(0)));
    rep.hit_n("two_source_first_shorter", FIRST_SHORTER.with(|c| c.replace(0)));
    rep.hit_n("delay_longer_than_source", DELAY_GT_LEN.with(|c| c.replace(0)));
    rep.hit_n("delay_equal_to_source_length", DELAY_EQ_LEN.with(|c| c.replace(0)));
    rep.hit_n("zero_length_source", ZERO_LEN.with(|c| c.replace(0)));
    rep.hit_n("trailing_partial_frame", PARTIAL_FRAME.with(|c| c.replace(0)));
}

/// the interpreter-sized 32-bit stage promises none of the coverage counters of the full stages
fn flush_lean(rep: &mut Report) {
    rep.eval(EVALS.with(|c| c.replace(0)));
    for c in [&ITER_SCRIPTS, &SECOND_SHORTER, &FIRST_SHORTER, &DELAY_GT_LEN, &DELAY_EQ_LEN, &ZERO_LEN, &PARTIAL_FRAME] {
        c.with(|c| c.set(0));
    }
}

fn main() {
    let cli = Cli::parse();
    let t0 = Instant::now();
    let mut rep = Report::new("C05", &cli.stage);
    if let Some(cs) = &cli.case {
        let m = vmon::cli::parse_case(cs);
        match m["kind"].as_str() {
            "tree" => {
                let node = Node::decode(&m["tree"]);
                let lens: Vec<Option<u64>> = m["lens"].split('.').map(|x| if x == "inf" { None } else { Some(x.parse().unwrap()) }).collect();
                run_any(&mut rep, &m["fmt"], &node, &lens, m["extra"].parse().unwrap());
            }
            "from_iter" => check_from_iter(&mut rep, m["len"].parse().unwrap(), m["revive"] == "true", m["extra"].parse().unwrap()),
            "lift" => check_lift(&mut rep, m["len"].parse().unwrap()),
            "hugetake" => huge_take(&mut rep),
            "busout" => bus_output_exhaustion(&mut rep),
            "wide" => {
                wide_interleaved::<33>(&mut rep);
                wide_interleaved::<300>(&mut rep);
            }
            _ => {
                let (l, rv, ex): (usize, bool, usize) = (m["len"].parse().unwrap(), m["revive"] == "true", m["extra"].parse().unwrap());
                match m["ch"].as_str() {
                    "1" => check_from_samples::<1>(&mut rep, l, rv, ex),
                    "2" => check_from_samples::<2>(&mut rep, l, rv, ex),
                    "3" => check_from_samples::<3>(&mut rep, l, rv, ex),
                    "4" => check_from_samples::<4>(&mut rep, l, rv, ex),
                    "5" => check_from_samples::<5>(&mut rep, l, rv, ex),
                    "6" => check_from_samples::<6>(&mut rep, l, rv, ex),
                    "7" => check_from_samples::<7>(&mut rep, l, rv, ex),
                    _ => check_from_samples::<8>(&mut rep, l, rv, ex),
                }
            }
        }
        flush(&mut rep);
        finish(&cli, rep, t0);
    }
    // "miri32": a 32-BIT build of dasp executed by the interpreter (usize 32 bits wide),
    // interpreter-sized: iterator-backed signals of 0..=4 frames, every single adaptor over leaves
    // of every length 0..=6 thinned to the shard, a few random trees
    if cli.stage == "miri32" {
        rep.note(format!("usize::BITS = {} in this stage", usize::BITS));
        if usize::BITS == 32 {
            rep.hit("ran_with_32_bit_usize");
        }
        rep.oblige("ran_with_32_bit_usize", 1);
        rep.oblige("trees_run_as_a_32_bit_build", 1);
        let mut item = 0u64;
        let mut mine = || {
            item += 1;
            item % cli.nshards == cli.shard
        };
        for len in 0..=4usize {
            for revive in [false, true] {
                if mine() {
                    check_from_iter(&mut rep, len, revive, 3);
                    check_from_samples::<1>(&mut rep, len, revive, 3);
                    check_from_samples::<3>(&mut rep, len, revive, 3);
                }
            }
            if mine() {
                check_lift(&mut rep, len);
            }
        }
        let mut jobs: Vec<(Node, Vec<Option<u64>>)> = Vec::new();
        for k in UNARY_KINDS {
            for v in 0..10 {
                for l in [0u64, 1, 3, 6] {
                    jobs.push((unary(k, Node::Leaf(0), v), vec![Some(l)]));
                }
            }
        }
        for k in BINARY_KINDS {
            for v in 0..3 {
                for (la, lb) in [(0u64, 3u64), (3, 0), (2, 5), (5, 2), (4, 4)] {
                    jobs.push((binary(k, Node::Leaf(0), Node::Leaf(1), v), vec![Some(la), Some(lb)]));
                }
            }
        }
        jobs.retain(|(n, _)| n.max_bound(LEAF_AMP) < 0.95);
        for (i, (node, lens)) in jobs.iter().enumerate() {
            let thin = cli.t(6usize, 3usize);
            let always = false && node.encode().contains("delay");
            if (always && i as u64 % cli.nshards == cli.shard) || (!always && (i / thin) as u64 % cli.nshards == cli.shard && i % thin == 0) {
                note_obligations(node, lens);
                run_any(&mut rep, FNAMES[i % FNAMES.len()], node, lens, [1u64, 5, 9][i % 3]);
                rep.hit("trees_run_as_a_32_bit_build");
                flush_lean(&mut rep);
            }
        }
        for i in 0..cli.t(6u64, 20u64) {
            let mut rng = Rng::derive(cli.seed, &[3205, cli.shard, i]);
            let (node, nl) = random_bounded_tree(&mut rng, 3, 4);
            let lens: Vec<Option<u64>> = (0..nl).map(|_| if rng.chance(1, 5) { None } else { Some(rng.below(10)) }).collect();
            note_obligations(&node, &lens);
            run_any(&mut rep, FNAMES[rng.usize_below(FNAMES.len())], &node, &lens, 1 + rng.below(8));
            rep.hit("trees_run_as_a_32_bit_build");
            flush_lean(&mut rep);
        }
        flush_lean(&mut rep);
        finish(&cli, rep, t0);
    }
    for o in ["iterator_conformance_scripts", "two_source_second_shorter", "two_source_first_shorter", "delay_longer_than_source", "delay_equal_to_source_length", "zero_length_source", "trailing_partial_frame"] {
        rep.oblige(o, 1);
    }

    rep.oblige("clone_conformance_scripts", 1);
    clone_conformance(&mut rep, cli.seed);
    rep.oblige("interleaved_output_of_frames_wider_than_32_channels", 3);
    wide_interleaved::<33>(&mut rep);
    wide_interleaved::<300>(&mut rep);
    // 65 537 channels (128 KiB frames by value): on a thread with a roomy stack
    {
        let mut sub = Report::new("C05", "w");
        let sub = std::thread::Builder::new().stack_size(64 << 20).spawn(move || {
            wide_interleaved::<65_537>(&mut sub);
            flush(&mut sub);
            sub
        }).unwrap().join();
        match sub {
            Ok(r) => rep.merge(r),
            Err(_) => rep.violation("into_interleaved_samples|wide_frames|panic", "65 537 channels: the worker thread died".to_string(), "kind=wide;ch=65537".to_string()),
        }
    }
    rep.oblige("bus_output_as_exhaustible_signal", 1);
    bus_output_exhaustion(&mut rep);
    rep.oblige("take_n_at_least_2_pow_32", 1);
    huge_take(&mut rep);

    // ---- signals from iterators: lengths 0..=20 (frames) / 0..=8N+? samples x channels 1..=8
    let max_len = cli.t(20usize, 64usize);
    for len in 0..=max_len {
        for revive in [false, true] {
            for extra in [1usize, 7, 32] {
                check_from_iter(&mut rep, len, revive, extra);
                check_from_samples::<1>(&mut rep, len, revive, extra);
                check_from_samples::<2>(&mut rep, len, revive, extra);
                check_from_samples::<3>(&mut rep, len, revive, extra);
                check_from_samples::<4>(&mut rep, len, revive, extra);
                check_from_samples::<5>(&mut rep, len, revive, extra);
                check_from_samples::<6>(&mut rep, len, revive, extra);
                check_from_samples::<7>(&mut rep, len, revive, extra);
                check_from_samples::<8>(&mut rep, len, revive, extra);
                rep.nontrivial(vmon::hash_combine(len as u64 * 2 + revive as u64, extra as u64));
            }
        }
        check_lift(&mut rep, len);
    }
    rep.exhaustive(format!("signals from (fused and non-fused) iterators of 0..={} frames / samples x channel counts 1..=8 (every remainder), followed by 1, 7, 32 further next() calls", max_len));

    // ---- every single adaptor and adaptor pair over finite leaves, all length pairs <= 6
    let mut jobs: Vec<(Node, Vec<Option<u64>>)> = Vec::new();
    for k in UNARY_KINDS {
        for v in 0..10 {
            for l in 0..=6u64 {
                jobs.push((unary(k, Node::Leaf(0), v), vec![Some(l)]));
            }
        }
    }
    for k in BINARY_KINDS {
        for v in 0..3 {
            for la in 0..=6u64 {
                for lb in 0..=6u64 {
                    jobs.push((binary(k, Node::Leaf(0), Node::Leaf(1), v), vec![Some(la), Some(lb)]));
                }
            }
        }
    }
    for outer in UNARY_KINDS {
        for inner in UNARY_KINDS {
            for l in [0u64, 1, 2, 5] {
                jobs.push((unary(outer, unary(inner, Node::Leaf(0), 1), 3), vec![Some(l)]));
            }
        }
        for inner in BINARY_KINDS {
            for (la, lb) in [(0u64, 3u64), (3, 0), (2, 5), (5, 2), (4, 4)] {
                jobs.push((unary(outer, binary(inner, Node::Leaf(0), Node::Leaf(1), 1), 3), vec![Some(la), Some(lb)]));
                jobs.push((binary(inner, unary(outer, Node::Leaf(0), 3), Node::Leaf(1), 1), vec![Some(la), Some(lb)]));
                jobs.push((binary(inner, Node::Leaf(0), unary(outer, Node::Leaf(1), 3), 1), vec![Some(la), Some(lb)]));
            }
        }
    }
    jobs.retain(|(n, _)| n.max_bound(LEAF_AMP) < 0.95);
    let n_jobs = jobs.len();
    let reps = vmon::par_for(cli.threads, n_jobs as u64, 16, |_| Report::new("C05", "w"), |rep, i| {
        let (node, lens) = &jobs[i as usize];
        note_obligations(node, lens);
        for (fi, f) in FNAMES.iter().enumerate() {
            if cli.thorough() || (i as usize + fi) % 3 == 0 {
                run_any(rep, f, node, lens, [1u64, 5, 32][(i as usize + fi) % 3]);
            }
        }
        rep.nontrivial(vmon::hash_combine(vmon::hash_str(&node.encode()), vmon::hash_str(&lens_str(lens))));
        flush(rep);
    });
    for r in reps {
        rep.merge(r);
    }
    rep.exhaustive(format!("every adaptor kind over leaves of every length 0..=6 (binary: every length pair), every adaptor pair over representative lengths: {} (tree, lengths) cases x frame types", n_jobs));

    // ---- random deeper trees with finite and infinite leaves
    let depth = cli.t(4, 6);
    let n_rand = cli.t(6_000u64, 3_000_000u64);
    let reps = vmon::par_for(cli.threads, n_rand, 32, |_| Report::new("C05", "w"), |rep, i| {
        let mut rng = Rng::derive(cli.seed, &[5, i]);
        let (node, nl) = random_bounded_tree(&mut rng, depth, 5);
        let lens: Vec<Option<u64>> = (0..nl).map(|_| if rng.chance(1, 5) { None } else { Some(rng.below(24)) }).collect();
        let f = FNAMES[rng.usize_below(7)];
        note_obligations(&node, &lens);
        run_any(rep, f, &node, &lens, 1 + rng.below(32));
        rep.nontrivial(vmon::hash_combine(vmon::hash_str(&node.encode()), vmon::hash_str(&lens_str(&lens))));
        if rep.want_sample() && i % 499 == 0 {
            rep.sample(J::obj().set("frame_type", J::s(f)).set("tree", J::s(node.encode())).set("leaf_lengths", J::s(lens_str(&lens))));
        }
        flush(rep);
    });
    for r in reps {
        rep.merge(r);
    }
    flush(&mut rep);
    finish(&cli, rep, t0);
}
