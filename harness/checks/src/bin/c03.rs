#![cfg_attr(target_pointer_width = "32", allow(arithmetic_overflow))] // 2^32-sized probes exist only in the 64-bit stages
//! C03 — sample and frame amplitude arithmetic obeys its identities, channel by channel.
//!
//! Sample level (14 formats): identities (offset 0, scale 0.0, scale 1.0) and the general
//! add_amp / mul_amp / to_signed / to_float against  spec-convert -> native op -> spec-convert back
//! using vmon::spec (not the crate's conversions); cases whose exact intermediate leaves the
//! signed range / [-1, 1) are outside the statement and skipped.
//! Frame level: for every N in 1..=32, every Frame method against the per-channel application of
//! the sample operation in channel order (channel contents all distinct); mono: every sample type
//! used as a frame vs the 1-channel array frame. `miri` stage: frame level under Miri.

use checks::*;
use dasp_frame::{Frame, NChannels};
use dasp_sample::{Sample, I24, I48, U24, U48};
use std::cell::{Cell, RefCell};
use std::time::Instant;
use vmon::spec;
use vmon::{Cli, Report, Rng, J};

thread_local! {
    static EVALS: Cell<u64> = const { Cell::new(0) };
    static SKIPPED: Cell<u64> = const { Cell::new(0) };
    static LEAN: Cell<bool> = const { Cell::new(false) };
    static ITER_SCRIPTS: Cell<u64> = const { Cell::new(0) };
}
fn ev(n: u64) {
    EVALS.with(|c| c.set(c.get() + n));
}

// ------------------------------------------------------------------------------ sample level
/// exact value of a sample converted to its float companion, computed in that float type
fn to_float_spec<S: AnyS>(s: S) -> Val
where
    S::Float: AnyS,
{
    match s.val() {
        Val::F(x) => Val::F(x),
        Val::I(raw) => {
            let f = S::INT.unwrap();
            if <S::Float as AnyS>::FLOAT_P == 24 {
                Val::F(spec::int_to_f32(f, raw) as f64)
            } else {
                Val::F(spec::int_to_f64(f, raw))
            }
        }
    }
}
fn to_signed_spec<S: AnyS>(s: S) -> Val
where
    S::Signed: AnyS,
{
    match s.val() {
        Val::F(x) => Val::F(x),
        Val::I(raw) => Val::I(spec::int_to_int(S::INT.unwrap(), <S::Signed as AnyS>::INT.unwrap(), raw)),
    }
}

/// spec of add_amp: None when the exact sum leaves the signed range (outside the statement)
fn add_amp_spec<S: AnyS>(s: S, a: S::Signed) -> Option<Val>
where
    S::Signed: AnyS,
{
    match (to_signed_spec(s), a.val()) {
        (Val::I(x), Val::I(y)) => {
            let sf = <S::Signed as AnyS>::INT.unwrap();
            let sum = x + y;
            if !sf.in_range(sum) {
                return None;
            }
            Some(Val::I(spec::int_to_int(sf, S::INT.unwrap(), sum)))
        }
        (Val::F(x), Val::F(y)) => {
            // native addition in the format's own float type
            if S::FLOAT_P == 24 {
                Some(Val::F((x as f32 + y as f32) as f64))
            } else {
                Some(Val::F(x + y))
            }
        }
        _ => unreachable!(),
    }
}

/// spec of mul_amp: None when the product leaves [-1, 1) for integer formats
fn mul_amp_spec<S: AnyS>(s: S, g: S::Float) -> Option<Val>
where
    S::Float: AnyS,
{
    let (sf, gv) = match (to_float_spec(s), g.val()) {
        (Val::F(a), Val::F(b)) => (a, b),
        _ => unreachable!(),
    };
    let prod = if <S::Float as AnyS>::FLOAT_P == 24 { (sf as f32 * gv as f32) as f64 } else { sf * gv };
    match S::INT {
        None => Some(Val::F(prod)),
        Some(f) => {
            if !(prod >= -1.0 && prod < 1.0) {
                return None;
            }
            let (neg, m, e) = spec::decompose_f64(prod);
            spec::float_to_int(f, neg, m, e).map(Val::I)
        }
    }
}

fn val_eq(a: Val, b: Val) -> bool {
    match (a, b) {
        (Val::I(x), Val::I(y)) => x == y,
        (Val::F(x), Val::F(y)) => x == y || (x.is_nan() && y.is_nan()),
        _ => false,
    }
}

fn sample_values<S: AnyS>(rng: &mut Rng, n_random: usize) -> Vec<S> {
    match S::INT {
        Some(f) => {
            let mut v: Vec<i128> = spec::structured_values(f, if f.bits <= 16 { 1 << 15 } else { 48 }, 3);
            for _ in 0..n_random {
                v.push(rng.range_i128(f.min(), f.max()));
            }
            v.into_iter().map(|r| S::from_val(Val::I(r))).collect()
        }
        None => {
            let mut v: Vec<f64> = vec![0.0, -0.0, 0.5, -0.5, 0.25, 0.999, -1.0, 1.0 / 3.0, 1e-30, -1e-30, 0.75];
            // subnormals and the smallest normals of the format, both signs (an operation that
            // flushes, rounds or special-cases tiny magnitudes differs from the native one here)
            let tiny: Vec<f64> = if S::FLOAT_P == 24 { vmon::edge::tiny_f32().into_iter().map(|x| x as f64).chain([1e-40, 3e-39, 1.1e-38, 1e-44]).collect() } else { vmon::edge::tiny_f64().into_iter().chain([1e-310, 1e-320, 2.3e-308, 5e-324]).collect() };
            for t in tiny {
                v.push(t);
                v.push(-t);
            }
            for _ in 0..n_random {
                v.push(rng.f64_in(-1.0, 1.0));
            }
            // random magnitudes spread over the whole exponent range, subnormals included
            for _ in 0..n_random / 4 + 8 {
                let bits = rng.u64();
                v.push(if S::FLOAT_P == 24 { f32::from_bits((bits as u32) & 0xbfff_ffff) as f64 } else { f64::from_bits(bits & 0xbfff_ffff_ffff_ffff) });
            }
            v.retain(|x| x.is_finite() && x.abs() <= 1.0);
            v.into_iter().map(|x| S::from_val(Val::F(if S::FLOAT_P == 24 { (x as f32) as f64 } else { x }))).collect()
        }
    }
}

fn offsets<T: AnyS>(rng: &mut Rng, n_random: usize) -> Vec<T> {
    match T::INT {
        Some(f) => {
            let h = f.half();
            let mut v: Vec<i128> = vec![0, 1, -1, 2, -2, h / 2, -h / 2, h / 4, h - 1, -h, 7, -7, h / 3];
            for _ in 0..n_random {
                v.push(rng.range_i128(f.min(), f.max()));
                v.push(rng.range_i128(-64, 64));
            }
            v.into_iter().filter(|x| f.in_range(*x)).map(|r| T::from_val(Val::I(r))).collect()
        }
        None => {
            let mut v: Vec<f64> = vec![0.0, 0.5, -0.5, 0.125, -1.0, 1.0, 1e-9];
            for _ in 0..n_random {
                v.push(rng.f64_in(-1.0, 1.0));
            }
            v.into_iter().map(|x| T::from_val(Val::F(if T::FLOAT_P == 24 { (x as f32) as f64 } else { x }))).collect()
        }
    }
}

fn gains<T: AnyS>(rng: &mut Rng, n_random: usize) -> Vec<T> {
    let u = if T::FLOAT_P == 24 { 1.1920929e-7 } else { 2.220446049250313e-16 };
    let mut v: Vec<f64> = vec![0.0, 1.0, -1.0, 0.5, -0.5, 0.25, 2.0, 0.75, 1.0 - u, 1.0 + u, 1.0 / 3.0, 1e-3, 0.999];
    for k in 1..12 {
        v.push(spec::pow2(-k));
    }
    // tiny gains: in-range products that are subnormal (or underflow to zero) in the float format
    v.extend_from_slice(&[1e-10, -1e-10, 1e-30, 1e-38, 1e-300, if T::FLOAT_P == 24 { f32::MIN_POSITIVE as f64 } else { f64::MIN_POSITIVE }, if T::FLOAT_P == 24 { f32::from_bits(1) as f64 } else { f64::from_bits(1) }]);
    for _ in 0..n_random {
        v.push(rng.f64_in(-1.5, 1.5));
    }
    v.into_iter().map(|x| T::from_val(Val::F(if T::FLOAT_P == 24 { (x as f32) as f64 } else { x }))).collect()
}

fn check_sample_format<S: AnyS>(rep: &mut Report, seed: u64, n_random: usize)
where
    S::Signed: AnyS,
    S::Float: AnyS,
{
    let mut rng = Rng::derive(seed, &[3, vmon::hash_str(S::NAME)]);
    let vals: Vec<S> = sample_values::<S>(&mut rng, n_random);
    let n_og = if LEAN.with(|l| l.get()) { 3 } else { 24 };
    let offs: Vec<S::Signed> = offsets::<S::Signed>(&mut rng, n_og);
    let gns: Vec<S::Float> = gains::<S::Float>(&mut rng, n_og);
    let zero_off: S::Signed = <S::Signed as AnyS>::from_val(if S::INT.is_some() { Val::I(0) } else { Val::F(0.0) });
    let g0: S::Float = <S::Float as AnyS>::from_val(Val::F(0.0));
    let g1: S::Float = <S::Float as AnyS>::from_val(Val::F(1.0));
    let exact_identity = match S::INT {
        None => true,
        Some(f) => f.bits <= <S::Float as AnyS>::FLOAT_P,
    };
    let name = S::NAME;
    macro_rules! fail {
        ($what:expr, $s:expr, $($fmt:tt)*) => {{
            rep.violation(&format!("sample|{}|{}", name, $what), format!($($fmt)*), format!("kind=sample;fmt={};v={:?}", name, $s.val()));
            return;
        }};
    }
    for &s in &vals {
        let r = vmon::catch(|| {
            // identities
            let a0 = s.add_amp(zero_off);
            let m0 = s.mul_amp(g0);
            (a0, m0, s.to_signed_sample(), s.to_float_sample())
        });
        let (a0, m0, sg, fl) = match r {
            Ok(t) => t,
            Err(m) => fail!("panic_on_identity", s, "{:?}: {}", s, m),
        };
        ev(4);
        if !val_eq(a0.val(), s.val()) {
            fail!("add_amp_zero_not_identity", s, "{:?}.add_amp(0) = {:?}", s, a0);
        }
        if !val_eq(m0.val(), S::EQUILIBRIUM.val()) && !(S::INT.is_none() && view0(m0)) {
            fail!("mul_amp_zero_not_equilibrium", s, "{:?}.mul_amp(0.0) = {:?}, equilibrium {:?}", s, m0, S::EQUILIBRIUM);
        }
        if !val_eq(sg.val(), to_signed_spec(s)) {
            fail!("to_signed_sample", s, "{:?}.to_signed_sample() = {:?}, spec {:?}", s, sg, to_signed_spec(s));
        }
        if !val_eq(fl.val(), to_float_spec(s)) {
            fail!("to_float_sample", s, "{:?}.to_float_sample() = {:?}, spec {:?}", s, fl, to_float_spec(s));
        }
        // mul_amp(1.0): only in the documented float domain [-1, 1) for integers (MAX maps below 1)
        match vmon::catch(|| s.mul_amp(g1)) {
            Ok(m1) => {
                if exact_identity {
                    if !val_eq(m1.val(), s.val()) {
                        fail!("mul_amp_one_not_identity", s, "{:?}.mul_amp(1.0) = {:?}", s, m1);
                    }
                } else if let (Val::I(a), Val::I(b), Some(f)) = (m1.val(), s.val(), S::INT) {
                    let tol = 1i128 << (f.bits - <S::Float as AnyS>::FLOAT_P);
                    if (a - b).abs() > tol {
                        fail!("mul_amp_one_beyond_float_precision", s, "{:?}.mul_amp(1.0) = {:?} (allowed +-{} LSB)", s, m1, tol);
                    }
                }
            }
            Err(m) => {
                // the only legitimate reason: the float view rounds up to 1.0 (outside [-1,1))
                let fv = match to_float_spec(s) {
                    Val::F(x) => x,
                    _ => 0.0,
                };
                if fv < 1.0 {
                    fail!("mul_amp_one_panics", s, "{:?}.mul_amp(1.0) panicked: {}", s, m);
                }
            }
        }
        ev(1);
        // general offset / scale
        for &a in &offs {
            if let Some(want) = add_amp_spec(s, a) {
                match vmon::catch(|| s.add_amp(a)) {
                    Ok(got) if val_eq(got.val(), want) => {}
                    Ok(got) => fail!("add_amp_not_native_addition_on_signed_conversion", s, "{:?}.add_amp({:?}) = {:?}, spec {:?}", s, a, got, want),
                    Err(m) => fail!("add_amp_panics_in_range", s, "{:?}.add_amp({:?}) panicked: {} (spec {:?})", s, a, m, want),
                }
                ev(1);
            } else {
                SKIPPED.with(|c| c.set(c.get() + 1));
            }
        }
        for &g in &gns {
            if let Some(want) = mul_amp_spec(s, g) {
                match vmon::catch(|| s.mul_amp(g)) {
                    Ok(got) if val_eq(got.val(), want) => {}
                    Ok(got) => fail!("mul_amp_not_native_multiplication_on_float_conversion", s, "{:?}.mul_amp({:?}) = {:?}, spec {:?}", s, g, got, want),
                    Err(m) => fail!("mul_amp_panics_in_range", s, "{:?}.mul_amp({:?}) panicked: {} (spec {:?})", s, g, m, want),
                }
                ev(1);
            } else {
                SKIPPED.with(|c| c.set(c.get() + 1));
            }
        }
        if !LEAN.with(|l| l.get()) {
            if let Val::I(r) = s.val() {
                rep.nontrivial(vmon::hash_combine(vmon::hash_str(name), r as u64));
            }
        }
    }
    rep.hit("sample_formats_checked");
}
fn view0<S: AnyS>(s: S) -> bool {
    matches!(s.val(), Val::F(x) if x == 0.0)
}

// ------------------------------------------------------------------------------ frame level
/// iterator adaptor that hides the inner size_hint (reports the trait default `(0, None)`)
struct NoHint<I>(I);
impl<I: Iterator> Iterator for NoHint<I> {
    type Item = I::Item;
    fn next(&mut self) -> Option<I::Item> {
        self.0.next()
    }
}

fn small<S: AnyS>(k: u64) -> S {
    S::distinct(k)
}

fn check_frame<S: AnyS, const N: usize>(rep: &mut Report, seed: u64)
where
    S::Signed: AnyS,
    S::Float: AnyS,
{
    type F<S, const N: usize> = [S; N];
    let name = S::NAME;
    let case = || format!("kind=frame;fmt={};n={};seed={}", name, N, seed);
    if LEAN.with(|l| l.get()) {
        eprintln!("CASE {}", case());
    }
    macro_rules! fail {
        ($what:expr, $($fmt:tt)*) => {{
            rep.violation(&format!("frame|{}", $what), format!("[{}; {}]: {}", name, N, format!($($fmt)*)), case());
            return;
        }};
    }
    let base = seed % 97;
    let f: F<S, N> = core::array::from_fn(|c| small::<S>(base + c as u64));
    let o: F<S, N> = core::array::from_fn(|c| small::<S>(base + 100 + 2 * c as u64));
    let off: S::Signed = <S::Signed as AnyS>::distinct(5);
    let gain: S::Float = <S::Float as AnyS>::from_val(Val::F(0.5));
    let offs: [S::Signed; N] = core::array::from_fn(|c| <S::Signed as AnyS>::distinct(7 + c as u64));
    let gns: [S::Float; N] = core::array::from_fn(|c| <S::Float as AnyS>::from_val(Val::F([0.5, -0.25, 1.0, 0.0, 0.75][c % 5])));
    // constants
    if <F<S, N>>::CHANNELS != N {
        fail!("CHANNELS", "CHANNELS = {}", <F<S, N>>::CHANNELS);
    }
    if !<F<S, N> as Frame>::EQUILIBRIUM.iter().all(|s| s.same(S::EQUILIBRIUM)) {
        fail!("EQUILIBRIUM", "{:?}", <F<S, N> as Frame>::EQUILIBRIUM);
    }
    // from_fn: called for channels 0..N in order, exactly once each
    let order = RefCell::new(Vec::new());
    let ff: F<S, N> = Frame::from_fn(|c| {
        order.borrow_mut().push(c);
        small::<S>(base + c as u64)
    });
    if *order.borrow() != (0..N).collect::<Vec<_>>() || !ff.iter().zip(f.iter()).all(|(a, b)| a.same(*b)) {
        fail!("from_fn", "call order {:?}, result {:?}", order.borrow(), ff);
    }
    // map / zip_map: per channel, in channel order, right operand pairing
    let order = RefCell::new(Vec::new());
    // NB: arrays have an inherent `map`; call the trait method explicitly
    let m: F<S, N> = Frame::map::<[S; N], _>(f, |s: S| {
        order.borrow_mut().push(s.val());
        s.add_amp(off)
    });
    for c in 0..N {
        if !m[c].same(f[c].add_amp(off)) {
            fail!("map", "channel {}: {:?} expected {:?}", c, m[c], f[c].add_amp(off));
        }
    }
    if order.borrow().len() != N || !order.borrow().iter().zip(f.iter()).all(|(a, b)| val_eq(*a, b.val())) {
        fail!("map_order", "closure saw {:?} for frame {:?}", order.borrow(), f);
    }
    let z: F<S, N> = f.zip_map(o, |a: S, b: S| if a.val() == f[0].val() { b } else { a.add_amp(b.to_signed_sample()) });
    for c in 0..N {
        let want = if f[c].val() == f[0].val() { o[c] } else { f[c].add_amp(o[c].to_signed_sample()) };
        if !z[c].same(want) {
            fail!("zip_map", "channel {}: {:?} expected {:?} (pairs channel c of self with channel c of other)", c, z[c], want);
        }
    }
    // the same per-channel laws on frames with REPEATED channel values (a frame-level fast path
    // for "uniform" frames must still look at every channel): all channels equal; all equal but
    // one (the odd one first, in the middle, second to last, last); two values alternating
    {
        let (u, v) = (small::<S>(base + 3), small::<S>(base + 58));
        let mut shapes: Vec<[S; N]> = vec![[u; N], core::array::from_fn(|c| if c % 2 == 0 { u } else { v })];
        for odd in [0usize, N / 2, N.saturating_sub(2), N - 1] {
            let mut g = [u; N];
            g[odd] = v;
            shapes.push(g);
        }
        for g in shapes {
            let (q1, q2, q3, q4) = (g.offset_amp(off), g.scale_amp(gain), g.add_amp(offs), g.mul_amp(gns));
            let q5: [S; N] = Frame::map::<[S; N], _>(g, |s: S| s.add_amp(off));
            let q6: [S; N] = g.zip_map(o, |a: S, b: S| a.add_amp(b.to_signed_sample()));
            for c in 0..N {
                let bad = if !q1[c].same(g[c].add_amp(off)) {
                    Some("offset_amp")
                } else if !q2[c].same(g[c].mul_amp(gain)) {
                    Some("scale_amp")
                } else if !q3[c].same(g[c].add_amp(offs[c])) {
                    Some("add_amp")
                } else if !q4[c].same(g[c].mul_amp(gns[c])) {
                    Some("mul_amp")
                } else if !q5[c].same(g[c].add_amp(off)) {
                    Some("map")
                } else if !q6[c].same(g[c].add_amp(o[c].to_signed_sample())) {
                    Some("zip_map")
                } else {
                    None
                };
                if let Some(op) = bad {
                    fail!(&format!("{}_on_frame_with_repeated_channels", op), "frame {:?}: channel {} is not the per-channel sample operation", g, c);
                }
            }
            ev(6 * N as u64);
        }
    }
    // UNIFORM parameter frames (all gains 1.0 / 0.0 / 0.5, all offsets zero) on frames of
    // full-range values at half amplitude (for the 32/64-bit integer formats most of them are not
    // representable in the float companion, so even a gain of exactly 1.0 is the float round trip
    // of each channel, not the identity): a frame-level "nothing to do" shortcut must still equal
    // the per-channel sample operation. Outcomes are compared including panics.
    {
        let wide: [S; N] = core::array::from_fn(|c| {
            let s = S::nth(base * 7 + c as u64 + 11);
            match (S::INT, s.val()) {
                (Some(fm), Val::I(r)) => S::from_val(Val::I(fm.from_amp(fm.amp(r) / 2))),
                _ => f[c],
            }
        });
        let fl = |x: f64| <S::Float as AnyS>::from_val(Val::F(x));
        for g in [1.0f64, 0.0, 0.5, -1.0] {
            let gains: [S::Float; N] = [fl(g); N];
            let got = vmon::catch(|| wide.mul_amp(gains));
            let want: Vec<Result<S, String>> = (0..N).map(|c| vmon::catch(|| wide[c].mul_amp(fl(g)))).collect();
            let got_s = vmon::catch(|| wide.scale_amp(fl(g)));
            for (label, got) in [("mul_amp", &got), ("scale_amp", &got_s)] {
                match got {
                    Ok(r) => {
                        for c in 0..N {
                            match &want[c] {
                                Ok(w) if r[c].same(*w) => {}
                                other => fail!(&format!("{}_with_uniform_gains", label), "frame {:?} with every gain {}: channel {} = {:?}, the sample operation gives {:?}", wide, g, c, r[c], other),
                            }
                        }
                    }
                    Err(m) => {
                        if want.iter().all(|w| w.is_ok()) {
                            fail!(&format!("{}_with_uniform_gains", label), "frame {:?} with every gain {}: panicked ({}) although no channel's sample operation does", wide, g, m);
                        }
                    }
                }
            }
        }
        let zero: S::Signed = <S::Signed as AnyS>::from_val(if S::INT.is_some() { Val::I(0) } else { Val::F(0.0) });
        let (q1, q2) = (wide.add_amp([zero; N]), wide.offset_amp(zero));
        for c in 0..N {
            if !q1[c].same(wide[c].add_amp(zero)) || !q2[c].same(wide[c].add_amp(zero)) {
                fail!("add_or_offset_amp_with_uniform_zero", "frame {:?}: channel {}", wide, c);
            }
        }
        ev(10 * N as u64);
    }
    // offset / scale / add / mul
    let r1 = f.offset_amp(off);
    let r2 = f.scale_amp(gain);
    let r3 = f.add_amp(offs);
    let r4 = f.mul_amp(gns);
    let r5 = f.to_signed_frame();
    let r6 = f.to_float_frame();
    for c in 0..N {
        if !r1[c].same(f[c].add_amp(off)) {
            fail!("offset_amp", "channel {}: {:?} expected {:?}", c, r1[c], f[c].add_amp(off));
        }
        if !r2[c].same(f[c].mul_amp(gain)) {
            fail!("scale_amp", "channel {}: {:?} expected {:?}", c, r2[c], f[c].mul_amp(gain));
        }
        if !r3[c].same(f[c].add_amp(offs[c])) {
            fail!("add_amp", "channel {}: {:?} expected {:?}", c, r3[c], f[c].add_amp(offs[c]));
        }
        if !r4[c].same(f[c].mul_amp(gns[c])) {
            fail!("mul_amp", "channel {}: {:?} expected {:?}", c, r4[c], f[c].mul_amp(gns[c]));
        }
        if !r5[c].same(f[c].to_signed_sample()) {
            fail!("to_signed_frame", "channel {}", c);
        }
        if !r6[c].same(f[c].to_float_sample()) {
            fail!("to_float_frame", "channel {}", c);
        }
    }
    // from_samples: None iff the iterator is shorter than N; consumes exactly N on success and
    // everything on failure
    // (the iterator is offered with three kinds of size_hint: exact, the default (0, None), and a
    // filter's (0, Some(n)) - the lower bound is only a minimum and must not be used to decide)
    for len in 0..=N + 2 {
      for hint_kind in 0..3 {
        let polled = Cell::new(0usize);
        let exact = (0..len).map(|k| {
            polled.set(polled.get() + 1);
            small::<S>(base + k as u64)
        });
        let mut it: Box<dyn Iterator<Item = S> + '_> = if LEAN.with(|l| l.get()) && hint_kind > 0 {
            continue;
        } else {
            match hint_kind {
                0 => Box::new(exact),
                1 => Box::new(NoHint(exact)),
                _ => Box::new(exact.filter(|_| true)),
            }
        };
        let got: Option<F<S, N>> = Frame::from_samples(&mut it);
        match got {
            Some(fr) => {
                if len < N {
                    fail!("from_samples_some_on_short_iterator", "iterator of {} samples gave Some", len);
                }
                if !fr.iter().enumerate().all(|(c, s)| s.same(small::<S>(base + c as u64))) {
                    fail!("from_samples_content", "{:?}", fr);
                }
                if polled.get() != N {
                    fail!("from_samples_consumed", "consumed {} samples for an {}-channel frame", polled.get(), N);
                }
            }
            None => {
                if len >= N {
                    fail!("from_samples_none_on_long_enough_iterator", "iterator of {} samples gave None", len);
                }
                if polled.get() != len {
                    fail!("from_samples_consumed_on_failure", "took {} of {} samples", polled.get(), len);
                }
            }
        }
        drop(it);
      }
    }
    // channels(): by value, in order, len() counts down
    let mut ch = f.channels();
    for c in 0..N {
        if ch.len() != N - c {
            fail!("channels_len", "after {} items len() = {}", c, ch.len());
        }
        match ch.next() {
            Some(s) if s.same(f[c]) => {}
            other => fail!("channels", "item {} = {:?}, expected {:?}", c, other, f[c]),
        }
    }
    if ch.next().is_some() || ch.len() != 0 {
        fail!("channels_end", "yields beyond N");
    }
    // channels_ref / channels_mut, forwards and backwards
    if !f.channels_ref().zip(f.iter()).all(|(a, b)| a.same(*b)) || f.channels_ref().len() != N || !f.channels_ref().rev().zip(f.iter().rev()).all(|(a, b)| a.same(*b)) {
        fail!("channels_ref", "order mismatch");
    }
    let mut g = f;
    let mut idx = 0;
    for s in g.channels_mut() {
        if !s.same(f[idx]) {
            fail!("channels_mut", "item {}", idx);
        }
        *s = o[idx];
        idx += 1;
    }
    if idx != N || !g.iter().zip(o.iter()).all(|(a, b)| a.same(*b)) {
        fail!("channels_mut_write", "{:?}", g);
    }
    // channel(i) / channel_mut(i)
    for i in 0..N + 2 {
        match (f.channel(i), i < N) {
            (Some(s), true) if s.same(f[i]) => {}
            (None, false) => {}
            (other, _) => fail!("channel", "channel({}) = {:?}", i, other),
        }
        let mut h = f;
        match (h.channel_mut(i), i < N) {
            (Some(s), true) => {
                *s = o[i];
            }
            (None, false) => {}
            (other, _) => fail!("channel_mut", "channel_mut({}) = {:?}", i, other.map(|s| *s)),
        }
        if i < N && !(h[i].same(o[i]) && (0..N).all(|c| c == i || h[c].same(f[c]))) {
            fail!("channel_mut_write", "write through channel_mut({}) landed wrong: {:?}", i, h);
        }
    }
    ev(20 + 3 * N as u64);
    if !LEAN.with(|l| l.get()) && (N >= 5 || !(name == "f32" || name == "u8")) {
        rep.nontrivial(vmon::hash_combine(vmon::hash_str(name), N as u64));
    }
}

/// a bare sample used as a frame behaves as the 1-channel array frame
fn check_mono<S>(rep: &mut Report, seed: u64)
where
    S: AnyS + Frame<Sample = S, NumChannels = NChannels<1>, Signed = <S as Sample>::Signed, Float = <S as Sample>::Float>,
    <S as Sample>::Signed: AnyS + Frame<Sample = <S as Sample>::Signed, NumChannels = NChannels<1>>,
    <S as Sample>::Float: AnyS + Frame<Sample = <S as Sample>::Float, NumChannels = NChannels<1>>,
{
    let name = <S as AnyS>::NAME;
    let case = || format!("kind=mono;fmt={};seed={}", name, seed);
    macro_rules! fail {
        ($what:expr, $($fmt:tt)*) => {{
            rep.violation(&format!("mono|{}", $what), format!("{} as a frame: {}", name, format!($($fmt)*)), case());
            return;
        }};
    }
    for k in 0..24u64 {
        let s: S = small::<S>(seed % 50 + k);
        let a: [S; 1] = [s];
        let off: <S as Sample>::Signed = <<S as Sample>::Signed as AnyS>::distinct(k + 2);
        let gain: <S as Sample>::Float = <<S as Sample>::Float as AnyS>::from_val(Val::F([0.5, -0.5, 1.0, 0.0][k as usize % 4]));
        let other: S = small::<S>(k + 60);
        if <S as Frame>::CHANNELS != 1 || !<S as Frame>::EQUILIBRIUM.same(<S as Sample>::EQUILIBRIUM) {
            fail!("constants", "CHANNELS {} EQUILIBRIUM {:?}", <S as Frame>::CHANNELS, <S as Frame>::EQUILIBRIUM);
        }
        let checks: [(&str, S, S); 6] = [
            ("offset_amp", Frame::offset_amp(s, off), a.offset_amp(off)[0]),
            ("scale_amp", Frame::scale_amp(s, gain), a.scale_amp(gain)[0]),
            ("add_amp", Frame::add_amp(s, off), a.add_amp([off])[0]),
            ("mul_amp", Frame::mul_amp(s, gain), a.mul_amp([gain])[0]),
            ("map", Frame::map::<S, _>(s, |x: S| Sample::add_amp(x, off)), Frame::map::<[S; 1], _>(a, |x: S| Sample::add_amp(x, off))[0]),
            ("zip_map", Frame::zip_map::<S, S, _>(s, other, |x: S, y: S| if k % 2 == 0 { y } else { x }), a.zip_map::<[S; 1], [S; 1], _>([other], |x: S, y: S| if k % 2 == 0 { y } else { x })[0]),
        ];
        for (what, got, want) in checks {
            if !got.same(want) {
                fail!(what, "{:?}: {:?} but [S;1] gives {:?}", s, got, want);
            }
        }
        if !Frame::to_signed_frame(s).same(a.to_signed_frame()[0]) || !Frame::to_float_frame(s).same(a.to_float_frame()[0]) {
            fail!("to_signed_or_float_frame", "{:?}", s);
        }
        let ff: S = Frame::from_fn(|c| if c == 0 { s } else { other });
        if !ff.same(s) {
            fail!("from_fn", "{:?}", ff);
        }
        let mut hintless = NoHint([s].into_iter());
        let fh: Option<S> = Frame::from_samples(&mut hintless);
        let mut hintless1 = NoHint([s].into_iter());
        let ah: Option<[S; 1]> = Frame::from_samples(&mut hintless1);
        if !matches!(fh, Some(x) if x.same(s)) || !matches!(ah, Some(x) if x[0].same(s)) {
            fail!("from_samples_hintless_iterator", "mono {:?} vs [S;1] {:?}", fh, ah);
        }
        let mut it = [s, other].into_iter();
        let fs: Option<S> = Frame::from_samples(&mut it);
        let mut empty = std::iter::empty::<S>();
        let fe: Option<S> = Frame::from_samples(&mut empty);
        if !matches!(fs, Some(x) if x.same(s)) || fe.is_some() || it.next().map(|x| x.same(other)) != Some(true) {
            fail!("from_samples", "{:?} / {:?}", fs, fe);
        }
        let chans: Vec<S> = Frame::channels(s).collect();
        if chans.len() != 1 || !chans[0].same(s) {
            fail!("channels", "{:?}", chans);
        }
        if k < 3 {
            let mut rng = Rng::derive(seed, &[34, k]);
            let cs = case();
            let mut n = checks::iterconf::check_iter("mono_channels", &cs, || Frame::channels(s), rep, &mut rng, 10);
            n += checks::iterconf::check_iter("mono_channels_ref", &cs, || Frame::channels_ref(&s), rep, &mut rng, 10);
            n += checks::iterconf::check_double_ended("mono_channels_ref", &cs, || Frame::channels_ref(&s), rep, &mut rng, 6);
            ITER_SCRIPTS.with(|c| c.set(c.get() + n));
            ev(n);
        }
        if Frame::channels_ref(&s).count() != 1 || !Frame::channel(&s, 0).map(|x| x.same(s)).unwrap_or(false) || Frame::channel(&s, 1).is_some() {
            fail!("channel", "indexing");
        }
        let mut t = s;
        *Frame::channel_mut(&mut t, 0).unwrap() = other;
        for x in Frame::channels_mut(&mut t) {
            if !x.same(other) {
                fail!("channels_mut", "{:?}", x);
            }
        }
        if Frame::channel_mut(&mut t, 1).is_some() {
            fail!("channel_mut", "index 1 exists");
        }
        ev(14);
    }
    rep.hit("mono_formats_checked");
    if !LEAN.with(|l| l.get()) {
        rep.nontrivial(vmon::hash_combine(vmon::hash_str(name), 0x6d6f6e6f));
    }
}

macro_rules! frames_for {
    ($S:ty, $rep:expr, $seed:expr, $sel:expr) => {{
        macro_rules! w {
            ($n:literal) => {
                if $sel($n) {
                    if let Err(m) = vmon::catch(std::panic::AssertUnwindSafe(|| check_frame::<$S, $n>($rep, $seed))) {
                        $rep.violation("frame|panic", format!("[{}; {}]: panicked: {}", <$S as AnyS>::NAME, $n, m), format!("kind=frame;fmt={};n={};seed={}", <$S as AnyS>::NAME, $n, $seed));
                    }
                }
            };
        }
        checks::for_widths!(w);
    }};
}

fn flush(rep: &mut Report) {
    rep.eval(EVALS.with(|c| c.replace(0)));
    rep.count("cases_outside_the_documented_domain_skipped", SKIPPED.with(|c| c.replace(0)));
    let n = ITER_SCRIPTS.with(|c| c.replace(0));
    if n > 0 {
        rep.hit_n("iterator_conformance_scripts", n);
    }
}

/// frames wider than the 32 channels the crate documentation speaks of ([S; N] is a Frame for
/// every N): every Frame method at N = 33, 64, 65, 100
fn wide_frames(rep: &mut Report, seed: u64) {
    macro_rules! go {
        ($S:ty, $n:literal) => {
            if let Err(m) = vmon::catch(std::panic::AssertUnwindSafe(|| check_frame::<$S, $n>(rep, seed))) {
                rep.violation("frame|panic", format!("[{}; {}]: panicked: {}", <$S as AnyS>::NAME, $n, m), format!("kind=frame;fmt={};n={};seed={}", <$S as AnyS>::NAME, $n, seed));
            }
            rep.hit("frames_wider_than_32_channels");
        };
    }
    go!(i16, 33);
    go!(f64, 64);
    go!(u8, 65);
    go!(I24, 100);
    // the four formats whose float companion cannot hold every value, at a few widths (the
    // quick tier's regular sweep uses u8 / i16 / I24 / f64 only)
    go!(i32, 2);
    go!(u32, 3);
    go!(i64, 9);
    go!(u64, 5);
}

fn all_frames(rep: &mut Report, seed: u64, thorough: bool, sel: &dyn Fn(usize) -> bool) {
    frames_for!(u8, rep, seed, sel);
    frames_for!(i16, rep, seed, sel);
    frames_for!(I24, rep, seed, sel);
    frames_for!(f64, rep, seed, sel);
    if thorough {
        frames_for!(u32, rep, seed, sel);
        frames_for!(U48, rep, seed, sel);
        frames_for!(i64, rep, seed, sel);
        frames_for!(f32, rep, seed, sel);
    }
}

/// Iterator-protocol conformance of the channel iterators: nth, fold, count, last, for_each, skip,
/// step_by, size_hint, len, next_back, nth_back, rfold, rev against plain next(), after any prefix
/// of next()/nth() steps. Instantiated for a hand-picked set of (format, N): the iterator types
/// are generic over the frame, and every instantiation is compiled three times over.
fn frame_iterators<S: AnyS, const N: usize>(rep: &mut Report, seed: u64)
where
    S::Signed: AnyS,
    S::Float: AnyS,
{
    let name = S::NAME;
    let case = || format!("kind=frameiter;fmt={};n={};seed={}", name, N, seed);
    if LEAN.with(|l| l.get()) {
        eprintln!("CASE {}", case());
    }
    let base = seed % 97;
    let f: [S; N] = core::array::from_fn(|c| small::<S>(base + c as u64));
    {
        let lean = LEAN.with(|l| l.get());
        let mut rng = Rng::derive(seed, &[33, N as u64]);
        let scripts = if lean { 5 } else { 48 };
        let cs = case();
        let mut n = checks::iterconf::check_iter("frame_channels", &cs, || f.channels(), rep, &mut rng, scripts);
        n += checks::iterconf::check_exact_size("frame_channels", &cs, || f.channels(), rep);
        n += checks::iterconf::check_iter("frame_channels_ref", &cs, || f.channels_ref(), rep, &mut rng, scripts);
        n += checks::iterconf::check_exact_size("frame_channels_ref", &cs, || f.channels_ref(), rep);
        n += checks::iterconf::check_double_ended("frame_channels_ref", &cs, || f.channels_ref(), rep, &mut rng, scripts);
        if !lean {
            // channels_mut needs exclusive access per instance: a leaked copy of the frame each time
            let mk = || Box::leak(Box::new(f)).channels_mut();
            n += checks::iterconf::check_exact_size("frame_channels_mut", &cs, mk, rep);
            let mkv = || checks::iterconf::Forward(Box::leak(Box::new(f)).channels_mut(), |x: &mut S| *x);
            n += checks::iterconf::check_iter("frame_channels_mut", &cs, mkv, rep, &mut rng, 12);
            n += checks::iterconf::check_double_ended("frame_channels_mut", &cs, mkv, rep, &mut rng, 12);
        }
        ITER_SCRIPTS.with(|c| c.set(c.get() + n));
        ev(n);
    }
    if !LEAN.with(|l| l.get()) {
        rep.nontrivial(vmon::hash_combine(vmon::hash_str(name), 0x6974_0000 + N as u64));
    }
}

fn all_frame_iterators(rep: &mut Report, seed: u64, lean: bool) {
    macro_rules! go {
        ($S:ty, $n:literal) => {
            if let Err(m) = vmon::catch(std::panic::AssertUnwindSafe(|| frame_iterators::<$S, $n>(rep, seed))) {
                rep.violation("iter|frame_channels|panic", format!("[{}; {}]: panicked: {}", <$S as AnyS>::NAME, $n, m), format!("kind=frameiter;fmt={};n={};seed={}", <$S as AnyS>::NAME, $n, seed));
            }
        };
    }
    go!(i16, 2);
    go!(f64, 5);
    if !lean {
        go!(i16, 33);
        go!(u8, 300);
        go!(i16, 1);
        go!(i16, 3);
        go!(i16, 8);
        go!(i16, 32);
        go!(f64, 1);
        go!(f64, 2);
        go!(f64, 32);
        go!(I24, 4);
        go!(u8, 7);
    }
}

fn all_mono(rep: &mut Report, seed: u64) {
    check_mono::<i8>(rep, seed);
    check_mono::<i16>(rep, seed);
    check_mono::<I24>(rep, seed);
    check_mono::<i32>(rep, seed);
    check_mono::<I48>(rep, seed);
    check_mono::<i64>(rep, seed);
    check_mono::<u8>(rep, seed);
    check_mono::<u16>(rep, seed);
    check_mono::<U24>(rep, seed);
    check_mono::<u32>(rep, seed);
    check_mono::<U48>(rep, seed);
    check_mono::<u64>(rep, seed);
    check_mono::<f32>(rep, seed);
    check_mono::<f64>(rep, seed);
}

fn all_samples(rep: &mut Report, seed: u64, n_random: usize) {
    check_sample_format::<i8>(rep, seed, n_random);
    check_sample_format::<i16>(rep, seed, n_random);
    check_sample_format::<I24>(rep, seed, n_random);
    check_sample_format::<i32>(rep, seed, n_random);
    check_sample_format::<I48>(rep, seed, n_random);
    check_sample_format::<i64>(rep, seed, n_random);
    check_sample_format::<u8>(rep, seed, n_random);
    check_sample_format::<u16>(rep, seed, n_random);
    check_sample_format::<U24>(rep, seed, n_random);
    check_sample_format::<u32>(rep, seed, n_random);
    check_sample_format::<U48>(rep, seed, n_random);
    check_sample_format::<u64>(rep, seed, n_random);
    check_sample_format::<f32>(rep, seed, n_random);
    check_sample_format::<f64>(rep, seed, n_random);
}

fn main() {
    let cli = Cli::parse();
    let t0 = Instant::now();
    let mut rep = Report::new("C03", &cli.stage);
    if let Some(_cs) = &cli.case {
        // cases are cheap: replay re-runs the deterministic sample/mono/frame sweeps at this seed
        all_samples(&mut rep, cli.seed, 200);
        all_mono(&mut rep, cli.seed);
        all_frames(&mut rep, cli.seed, true, &|_| true);
        all_frame_iterators(&mut rep, cli.seed, false);
        flush(&mut rep);
        finish(&cli, rep, t0);
    }
    rep.oblige("iterator_conformance_scripts", 1);
    match cli.stage.as_str() {
        "main" => {
            rep.oblige("sample_formats_checked", 14);
            rep.oblige("mono_formats_checked", 14);
            all_samples(&mut rep, cli.seed, cli.t(2_000, 60_000));
            all_mono(&mut rep, cli.seed);
            rep.oblige("frames_wider_than_32_channels", 8);
            wide_frames(&mut rep, cli.seed);
            for s in 0..cli.t(3u64, 25u64) {
                all_frame_iterators(&mut rep, cli.seed.wrapping_add(s * 31), false);
                all_frames(&mut rep, cli.seed.wrapping_add(s * 31), cli.thorough() || s == 0, &|_| true);
            }
            rep.exhaustive(format!("every Frame method for every N in 1..=32 x formats {}; all 14 sample types as mono frames vs [S;1]; every value of the 8/16-bit formats for the sample-level identities", if cli.thorough() { "{u8,i16,I24,f64,u32,U48,i64,f32}" } else { "{u8,i16,I24,f64} (+4 more at the first seed)" }));
            rep.sample(J::obj().set("level", J::s("sample")).set("case", J::s("u8 192 .add_amp(i8 -128)")).set("spec", J::s("to signed: 64; 64 + -128 = -64; back to u8: 64")).set("real", J::u(Sample::add_amp(192u8, -128) as u64)));
            rep.sample(J::obj().set("level", J::s("frame")).set("case", J::s("[I24; 7].zip_map(other, f) / from_samples(iter of 0..=9 items) / channel_mut(i) for i in 0..9")).set("spec", J::s("per-channel sample op in channel order; None iff fewer than 7 items, exactly 7 consumed on success")));
        }
        "release" | "release_overflow_checks" | "release_native_cpu" => {
            // the same sample-level and mono sweeps without debug assertions (the custom-width
            // types and every `+`/`-` in the conversions behave differently there)
            rep.oblige("sample_formats_checked", 14);
            rep.oblige("mono_formats_checked", 14);
            all_samples(&mut rep, cli.seed, cli.t(1_000, 20_000));
            all_mono(&mut rep, cli.seed);
            all_frames(&mut rep, cli.seed, false, &|n| n <= 4 || n == 32);
            all_frame_iterators(&mut rep, cli.seed, false);
            wide_frames(&mut rep, cli.seed);
            rep.note(format!("release stage: debug_assertions={}", cfg!(debug_assertions)));
        }
        "miri" => {
            LEAN.with(|l| l.set(true));
            let (sh, ns) = (cli.shard as usize, cli.nshards as usize);
            let sel = move |n: usize| n % ns == sh % ns;
            frames_for!(i16, &mut rep, cli.seed, sel);
            frames_for!(f64, &mut rep, cli.seed, sel);
            if cli.thorough() {
                frames_for!(I24, &mut rep, cli.seed, sel);
                frames_for!(u8, &mut rep, cli.seed, sel);
            }
            if usize::BITS < 64 {
                // a 32-BIT build (stage miri32): the sample-level sweep for every format wider
                // than 16 bits - the 8-byte formats are wider than the machine word there, and
                // the structured values sit on both sides of 2^31 and 2^32 - dealt to the shards
                rep.oblige("sample_formats_checked_in_a_32_bit_build", 1);
                let mut k = 0usize;
                macro_rules! deal {
                    ($($S:ty),*) => {$(
                        k += 1;
                        if k % ns == sh % ns {
                            check_sample_format::<$S>(&mut rep, cli.seed, 8);
                            rep.hit("sample_formats_checked_in_a_32_bit_build");
                        }
                    )*};
                }
                deal!(I48, i64, U48, u64, I24, i32, U24, u32, f32, f64);
            }
            if sh == 0 {
                all_mono(&mut rep, cli.seed);
            }
            if sh == 1 % ns {
                all_frame_iterators(&mut rep, cli.seed, true);
            }
        }
        other => panic!("unknown stage {}", other),
    }
    flush(&mut rep);
    finish(&cli, rep, t0);
}
