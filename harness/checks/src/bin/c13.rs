//! C13 — bus feeds every output a gap-free stream and retains only what laggards need.
//!
//! Model: pulled; per live output (start, pos); expected backlog = pulled - min(pos) over live
//! outputs (0 if none). The source yields frame i on pull i, so a returned frame *is* its index.
//! The backlog itself is read through the verification hook (cfg rustaudio_dasp_verif): the
//! public API cannot distinguish "trimmed" from "retained but skipped".

use checks::*;
use dasp_signal::bus::{Bus, Output, SignalBus};
use dasp_signal::Signal;
use std::cell::Cell;
use std::time::Instant;
use vmon::{alloc, Cli, Report, Rng, J};

#[global_allocator]
static A: alloc::CountingAlloc = alloc::CountingAlloc;

thread_local! {
    static EVALS: Cell<u64> = const { Cell::new(0) };
    static ATTACH_LAGGING: Cell<u64> = const { Cell::new(0) };
    static DROP_SLOWEST: Cell<u64> = const { Cell::new(0) };
    static DROP_ALL: Cell<u64> = const { Cell::new(0) };
    static DROP_UNWINDING: Cell<u64> = const { Cell::new(0) };
    static BUS_DROPPED: Cell<u64> = const { Cell::new(0) };
    static EXHAUSTED: Cell<u64> = const { Cell::new(0) };
}
fn bump(c: &'static std::thread::LocalKey<Cell<u64>>) {
    c.with(|c| c.set(c.get() + 1));
}

fn gen_frame(i: u64) -> f64 {
    i as f64
}

#[derive(Clone, Copy, Debug, PartialEq, Eq, Hash)]
enum Op {
    Send,
    Next(usize),
    Drop(usize),
    DropBus,
}
fn enc(ops: &[Op]) -> String {
    ops.iter()
        .map(|o| match o {
            Op::Send => "S".to_string(),
            Op::Next(i) => format!("N{}", i),
            Op::Drop(i) => format!("D{}", i),
            Op::DropBus => "B".to_string(),
        })
        .collect::<Vec<_>>()
        .join(",")
}
fn dec(s: &str) -> Vec<Op> {
    s.split(',')
        .filter(|x| !x.is_empty())
        .map(|x| match &x[..1] {
            "S" => Op::Send,
            "N" => Op::Next(x[1..].parse().unwrap()),
            "D" => Op::Drop(x[1..].parse().unwrap()),
            _ => Op::DropBus,
        })
        .collect()
}

struct Out {
    o: Output<USource<f64>>,
    pos: u64,
}

thread_local! {
    /// when set, every Drop(i) of the sequence happens while the thread is unwinding from a panic
    /// (the output is owned by a closure that panics, caught right away): destructors run then
    /// too, and an output dropped that way must be deregistered like any other
    static UNWIND_DROPS: Cell<bool> = const { Cell::new(false) };
}
fn case_suffix() -> &'static str {
    if UNWIND_DROPS.with(|c| c.get()) {
        ";unwind=1"
    } else {
        ""
    }
}
fn run_seq_unwinding(rep: &mut Report, ops: &[Op], src_len: Option<u64>) -> bool {
    UNWIND_DROPS.with(|c| c.set(true));
    let r = run_seq(rep, ops, src_len);
    UNWIND_DROPS.with(|c| c.set(false));
    r
}

/// run one operation sequence; `src_len` = None for an infinite source
fn run_seq(rep: &mut Report, ops: &[Op], src_len: Option<u64>) -> bool {
    match vmon::catch(std::panic::AssertUnwindSafe(|| run_seq_inner(rep, ops, src_len))) {
        Ok(ok) => ok,
        Err(m) => {
            rep.violation("bus|panic", format!("ops {} source_len {:?}: panicked: {}", enc(ops), src_len, m), format!("len={};ops={}{}", src_len.map(|l| l as i64).unwrap_or(-1), enc(ops), case_suffix()));
            false
        }
    }
}

fn run_seq_inner(rep: &mut Report, ops: &[Op], src_len: Option<u64>) -> bool {
    let case = || format!("len={};ops={}{}", src_len.map(|l| l as i64).unwrap_or(-1), enc(ops), case_suffix());
    let probe = Probe::new();
    let src = match src_len {
        Some(l) => USource::generated(gen_frame, l, probe.clone()),
        None => USource::infinite(gen_frame, probe.clone()),
    };
    let mut bus: Option<Bus<USource<f64>>> = Some(src.bus());
    let mut outs: Vec<Option<Out>> = Vec::new();
    let mut pulled: u64 = 0;
    for (k, &op) in ops.iter().enumerate() {
        macro_rules! fail {
            ($what:expr, $($fmt:tt)*) => {{
                rep.violation(&format!("bus|{}", $what), format!("op #{} {:?}: {}", k, op, format!($($fmt)*)), case());
                return false;
            }};
        }
        match op {
            Op::Send => {
                if let Some(b) = &bus {
                    let lagging = outs.iter().flatten().any(|o| o.pos < pulled);
                    outs.push(Some(Out { o: b.send(), pos: pulled }));
                    if lagging {
                        bump(&ATTACH_LAGGING);
                    }
                } else {
                    continue;
                }
            }
            Op::Next(i) => {
                let Some(Some(out)) = outs.get_mut(i) else { continue };
                let got = out.o.next();
                let want_idx = out.pos;
                out.pos += 1;
                if out.pos > pulled {
                    pulled = out.pos;
                }
                let want = match src_len {
                    Some(l) if want_idx >= l => 0.0, // equilibrium beyond the end
                    _ => gen_frame(want_idx),
                };
                if got != want {
                    let what = if got < want { "frame_duplicated_or_stale" } else { "frame_skipped" };
                    fail!(what, "output {} returned {} but its next frame is source frame {}", i, got, want_idx);
                }
            }
            Op::Drop(i) => {
                let Some(slot) = outs.get_mut(i) else { continue };
                if let Some(o) = slot.take() {
                    let was_slowest = outs.iter().flatten().all(|x| x.pos > o.pos) && outs.iter().flatten().count() > 0;
                    if UNWIND_DROPS.with(|c| c.get()) {
                        let _ = vmon::catch(std::panic::AssertUnwindSafe(move || {
                            let _held = o;
                            panic!("unwinding while a bus output is alive");
                        }));
                        bump(&DROP_UNWINDING);
                    } else {
                        drop(o);
                    }
                    if was_slowest {
                        bump(&DROP_SLOWEST);
                    }
                    if outs.iter().flatten().count() == 0 {
                        bump(&DROP_ALL);
                    }
                } else {
                    continue;
                }
            }
            Op::DropBus => {
                if bus.take().is_some() {
                    bump(&BUS_DROPPED);
                } else {
                    continue;
                }
            }
        }
        bump(&EVALS);
        // ---- invariants after every operation
        if probe.pulls() != pulled {
            fail!("source_pull_count", "source pulled {} times, distinct frames delivered {}", probe.pulls(), pulled);
        }
        let live_min = outs.iter().flatten().map(|o| o.pos).min();
        let want_backlog = live_min.map(|m| pulled - m).unwrap_or(0);
        let mut hooked = None;
        if let Some(b) = &bus {
            hooked = Some((b.verif_backlog_len(), b.verif_read_offsets()));
        } else if let Some(o) = outs.iter().flatten().next() {
            hooked = Some((o.o.verif_backlog_len(), o.o.verif_read_offsets()));
        }
        if let Some((backlog, (count, min, _max))) = hooked {
            if backlog as u64 != want_backlog {
                let what = if (backlog as u64) > want_backlog { "backlog_retains_frames_nobody_needs" } else { "backlog_too_short" };
                fail!(what, "backlog holds {} frames, the slowest live output lags by {} (pulled {}, live positions {:?})", backlog, want_backlog, pulled, outs.iter().flatten().map(|o| o.pos).collect::<Vec<_>>());
            }
            let live = outs.iter().flatten().count();
            if count != live {
                fail!("registered_outputs", "{} outputs registered, {} live", count, live);
            }
            if live > 0 && min != 0 {
                fail!("read_offsets_not_normalised", "smallest read offset is {} with {} live outputs", min, live);
            }
        }
        for (i, o) in outs.iter().enumerate() {
            if let Some(o) = o {
                let p = o.o.pending_frames() as u64;
                if p != pulled - o.pos {
                    fail!("pending_frames", "output {} pending_frames() = {}, lag = {}", i, p, pulled - o.pos);
                }
                if let Some(l) = src_len {
                    let want_ex = pulled == o.pos && pulled >= l;
                    if o.o.is_exhausted() != want_ex {
                        fail!("is_exhausted", "output {} is_exhausted() = {}, expected {} (pulled {}, pos {}, source length {})", i, !want_ex, want_ex, pulled, o.pos, l);
                    }
                    if want_ex {
                        bump(&EXHAUSTED);
                    }
                }
            }
        }
    }
    true
}

/// enumerate every legal operation sequence up to `depth` over at most `max_out` outputs
fn enumerate(depth: usize, max_out: usize, mut f: impl FnMut(&[Op])) {
    // state for pruning: which outputs exist / are live, bus alive
    fn rec(depth: usize, max_out: usize, created: usize, live: &mut Vec<bool>, bus: bool, cur: &mut Vec<Op>, f: &mut dyn FnMut(&[Op])) {
        if cur.len() == depth {
            f(cur);
            return;
        }
        let mut any = false;
        if bus && created < max_out {
            any = true;
            live.push(true);
            cur.push(Op::Send);
            rec(depth, max_out, created + 1, live, bus, cur, f);
            cur.pop();
            live.pop();
        }
        for i in 0..created {
            if live[i] {
                any = true;
                cur.push(Op::Next(i));
                rec(depth, max_out, created, live, bus, cur, f);
                cur.pop();
                live[i] = false;
                cur.push(Op::Drop(i));
                rec(depth, max_out, created, live, bus, cur, f);
                cur.pop();
                live[i] = true;
            }
        }
        if bus && created > 0 && cur.len() + 2 <= depth {
            any = true;
            cur.push(Op::DropBus);
            rec(depth, max_out, created, live, false, cur, f);
            cur.pop();
        }
        if !any {
            f(cur);
        }
    }
    let mut live = Vec::new();
    let mut cur = Vec::new();
    rec(depth, max_out, 0, &mut live, true, &mut cur, &mut f);
}

/// Deep backlog: three outputs; the leader runs thousands of frames ahead (the backlog's allocation
/// grows past 4096 frames), the others catch up most of the way, the leader streams on (the live
/// region wraps around the physical end of the allocation), one follower catches up again, then one
/// output - usually the slowest, while another is still behind - is dropped and everybody pulls on.
fn deep_seq(rng: &mut Rng) -> Vec<Op> {
    let mut ops = vec![Op::Send, Op::Send, Op::Send];
    let rep_n = |ops: &mut Vec<Op>, op: Op, n: usize| ops.extend(std::iter::repeat(op).take(n));
    // phase 1: the leader builds a lead of 2100 ... 4000 frames (allocation >= 4096), both
    // followers then catch up to within a few hundred frames (the ring's head moves forward)
    let l1 = 2100 + rng.usize_below(1900);
    rep_n(&mut ops, Op::Next(0), l1);
    let (f1, f2) = (l1 - rng.usize_below(600), l1 - rng.usize_below(600));
    rep_n(&mut ops, Op::Next(1), f1);
    rep_n(&mut ops, Op::Next(2), f2);
    // phase 2: the leader streams on; with the head well inside the allocation the live region
    // now wraps around its physical end (or the ring grows again - both happen)
    let l2 = 1500 + rng.usize_below(2400);
    rep_n(&mut ops, Op::Next(0), l2);
    // follower 1 catches up close to the leader, follower 2 stays far behind (or part-way)
    let g1 = (l1 + l2 - f1).saturating_sub(rng.usize_below(900));
    rep_n(&mut ops, Op::Next(1), g1);
    let g2 = if rng.bool() { 0 } else { rng.usize_below((l1 + l2 - f2) / 2 + 1) };
    rep_n(&mut ops, Op::Next(2), g2);
    let slow = if f1 + g1 <= f2 + g2 { 1 } else { 2 };
    let victim = if rng.chance(3, 4) { slow } else { rng.usize_below(3) };
    ops.push(Op::Drop(victim));
    let live: Vec<usize> = (0..3).filter(|i| *i != victim).collect();
    for _ in 0..300 + rng.usize_below(600) {
        ops.push(Op::Next(live[rng.usize_below(2)]));
    }
    if rng.bool() {
        ops.push(Op::Send);
        for _ in 0..200 {
            ops.push(Op::Next(3));
            ops.push(Op::Next(live[0]));
        }
    }
    ops
}

/// More than 2^32 outputs attached to ONE bus over its lifetime (each dropped again at once) while
/// two early outputs stay alive and lag: whatever identifies an output must not be reused while
/// an older holder is alive. Afterwards the early outputs must still be owed exactly their frames.
fn many_attaches(rep: &mut Report, attaches: u64) {
    let case = format!("len=-1;ops=attaches:{}", attaches);
    let r = vmon::catch(|| -> Result<(), String> {
        let probe = Probe::new();
        let bus = USource::infinite(gen_frame, probe.clone()).bus();
        let (mut a, mut b) = (bus.send(), bus.send());
        for _ in 0..5 {
            a.next();
        }
        b.next();
        // a is at 5, b at 1: backlog holds frames 1..5 for b
        for k in 0..attaches {
            let o = bus.send();
            drop(o);
            if k % (1 << 28) == 0 && (a.pending_frames(), b.pending_frames()) != (0, 4) {
                return Err(format!("after {} attach/detach cycles pending_frames = ({}, {}), expected (0, 4)", k, a.pending_frames(), b.pending_frames()));
            }
        }
        // one more output that stays, attached at the front
        let mut c = bus.send();
        if (a.pending_frames(), b.pending_frames(), c.pending_frames()) != (0, 4, 0) {
            return Err(format!("after {} attach/detach cycles and one more attach pending_frames = ({}, {}, {}), expected (0, 4, 0)", attaches, a.pending_frames(), b.pending_frames(), c.pending_frames()));
        }
        for want in 1..5u64 {
            let got = b.next();
            if got != gen_frame(want) {
                return Err(format!("the early lagging output returned {} as its frame {}, expected {}", got, want, gen_frame(want)));
            }
        }
        let (x, y, z) = (a.next(), b.next(), c.next());
        if x != gen_frame(5) || y != gen_frame(5) || z != gen_frame(5) || probe.pulls() != 6 {
            return Err(format!("after catching up the three outputs returned {} / {} / {} for frame 5 (expected {}), source pulled {} times (expected 6)", x, y, z, gen_frame(5), probe.pulls()));
        }
        Ok(())
    });
    match r {
        Ok(Ok(())) => rep.hit("bus_with_more_than_2_pow_32_attaches"),
        Ok(Err(d)) => rep.violation("bus|many_attaches|early_output_disturbed", d, case),
        Err(m) => rep.violation("bus|many_attaches|panic", m, case),
    }
    rep.eval(attaches);
    rep.nontrivial_by_construction(1);
}

fn random_seq(rng: &mut Rng, len: usize, max_live: usize) -> Vec<Op> {
    let mut ops = Vec::with_capacity(len);
    let mut live: Vec<bool> = Vec::new();
    let mut bus = true;
    // one output that (almost) never pulls, bursts, lock-step phases
    let lazy = rng.usize_below(4);
    let mut phase = 0;
    for k in 0..len {
        if k % 50 == 0 {
            phase = rng.below(4);
        }
        let n_live = live.iter().filter(|x| **x).count();
        let r = rng.below(100);
        if bus && n_live < max_live && (n_live == 0 || r < 4) {
            live.push(true);
            ops.push(Op::Send);
        } else if n_live > 0 && r < 8 {
            let idx: Vec<usize> = (0..live.len()).filter(|i| live[*i]).collect();
            let i = idx[rng.usize_below(idx.len())];
            live[i] = false;
            ops.push(Op::Drop(i));
        } else if bus && r == 8 && live.len() > 2 && rng.chance(1, 20) {
            bus = false;
            ops.push(Op::DropBus);
        } else if n_live > 0 {
            let idx: Vec<usize> = (0..live.len()).filter(|i| live[*i]).collect();
            let i = match phase {
                0 => idx[k % idx.len()], // lock-step
                1 => idx[0],             // one races ahead
                2 => idx[idx.len() - 1],
                _ => idx[rng.usize_below(idx.len())],
            };
            if i == lazy && rng.chance(9, 10) && idx.len() > 1 {
                ops.push(Op::Next(idx[(rng.usize_below(idx.len() - 1) + 1 + idx.iter().position(|x| *x == i).unwrap()) % idx.len()]));
            } else {
                ops.push(Op::Next(i));
            }
        } else if !bus {
            break;
        }
    }
    ops
}

/// allocator monitor: pulled in lock-step, the bus's heap footprint must stop growing
fn lockstep_no_growth(rep: &mut Report, n_out: usize, block: usize, frames: usize) {
    let probe = Probe::new();
    let bus = USource::infinite(gen_frame, probe.clone()).bus();
    let mut outs: Vec<Output<USource<f64>>> = (0..n_out).map(|_| bus.send()).collect();
    let mut cycle = |outs: &mut Vec<Output<USource<f64>>>| {
        for o in outs.iter_mut() {
            for _ in 0..block {
                o.next();
            }
        }
    };
    // warm-up: two cycles
    cycle(&mut outs);
    cycle(&mut outs);
    let base = alloc::snap();
    let mut max_live: i64 = 0;
    let mut max_backlog = 0usize;
    for _ in 0..frames / block {
        cycle(&mut outs);
        let d = alloc::snap().since(&base);
        max_live = max_live.max(d.live_bytes);
        max_backlog = max_backlog.max(bus.verif_backlog_len());
    }
    bump(&EVALS);
    let case = format!("len=-1;ops=lockstep:{}x{}x{}", n_out, block, frames);
    if max_backlog != 0 {
        rep.violation("bus|lockstep_backlog_not_empty", format!("{} outputs pulled in lock-step (blocks of {}): backlog reached {} frames at a cycle boundary", n_out, block, max_backlog), case.clone());
    }
    if max_live > 0 {
        rep.violation("bus|lockstep_heap_growth", format!("{} outputs pulled in lock-step (blocks of {}) for {} frames: live heap bytes grew by {} after warm-up", n_out, block, frames, max_live), case);
    }
    rep.hit("lockstep_allocator_runs");
}

fn flush(rep: &mut Report) {
    rep.eval(EVALS.with(|c| c.replace(0)));
    rep.hit_n("attach_while_others_lag", ATTACH_LAGGING.with(|c| c.replace(0)));
    rep.hit_n("drop_slowest_output", DROP_SLOWEST.with(|c| c.replace(0)));
    rep.hit_n("drop_all_outputs", DROP_ALL.with(|c| c.replace(0)));
    rep.hit_n("output_dropped_while_unwinding", DROP_UNWINDING.with(|c| c.replace(0)));
    rep.hit_n("bus_handle_dropped_while_outputs_live", BUS_DROPPED.with(|c| c.replace(0)));
    rep.hit_n("exhaustion_observed", EXHAUSTED.with(|c| c.replace(0)));
}

fn main() {
    let cli = Cli::parse();
    let t0 = Instant::now();
    let mut rep = Report::new("C13", &cli.stage);
    if let Some(cs) = &cli.case {
        let m = vmon::cli::parse_case(cs);
        let l: i64 = m["len"].parse().unwrap();
        if m["ops"].starts_with("attaches") {
            many_attaches(&mut rep, m["ops"][9..].parse().unwrap());
        } else if m["ops"].starts_with("lockstep") {
            lockstep_no_growth(&mut rep, 3, 64, 100_000);
            lockstep_no_growth(&mut rep, 2, 1, 100_000);
        } else {
            run_seq(&mut rep, &dec(&m["ops"]), if l < 0 { None } else { Some(l as u64) });
        }
        flush(&mut rep);
        finish(&cli, rep, t0);
    }
    for o in ["attach_while_others_lag", "drop_slowest_output", "drop_all_outputs", "bus_handle_dropped_while_outputs_live", "exhaustion_observed", "lockstep_allocator_runs"] {
        rep.oblige(o, 1);
    }
    let depth = cli.t(9usize, 11usize);
    // exhaustive enumeration, infinite source and short finite sources
    let mut seqs: Vec<Vec<Op>> = Vec::new();
    enumerate(depth, 3, |s| seqs.push(s.to_vec()));
    // and four outputs at a shallower depth
    enumerate(depth - 2, 4, |s| seqs.push(s.to_vec()));
    let n_seqs = seqs.len();
    let reps = vmon::par_for(cli.threads, n_seqs as u64, 256, |_| Report::new("C13", "w"), |rep, i| {
        let s = &seqs[i as usize];
        run_seq(rep, s, None);
        run_seq(rep, s, Some(2));
        if i % 4 == 0 {
            run_seq(rep, s, Some(0));
            run_seq(rep, s, Some(1));
        }
        if s.iter().any(|o| matches!(o, Op::Drop(_))) {
            run_seq_unwinding(rep, s, if i % 3 == 0 { Some(2) } else { None });
        }
        if s.iter().any(|o| matches!(o, Op::Drop(_))) || s.iter().skip(1).any(|o| *o == Op::Send) {
            rep.nontrivial(vmon::hash_str(&enc(s)));
        }
        if i % 4096 == 0 {
            flush(rep);
        }
    });
    for mut r in reps {
        flush(&mut r);
        rep.merge(r);
    }
    rep.exhaustive(format!("every legal sequence of send / next(i) / drop(i) / drop-bus-handle operations of length {} over at most 3 outputs, and of length {}-2 over at most 4 outputs ({} maximal sequences), on an infinite source and on sources of length 0, 1, 2", depth, depth, n_seqs));
    // random long sequences
    // 2^32 + 2^10 attaches on one bus: thorough tier, release-like stage only (minutes)
    if cli.thorough() && cli.stage == "main" && usize::BITS >= 64 {
        rep.oblige("bus_with_more_than_2_pow_32_attaches", 1);
        many_attaches(&mut rep, (1u64 << 32) + (1 << 10));
    } else {
        // the same scenario at 2^20 attaches (what a narrower key would need is out of reach here)
        many_attaches(&mut rep, 1 << 20);
    }
    // deep backlogs (thousands of frames), see deep_seq
    rep.oblige("deep_backlog_histories", 1);
    let n_deep = cli.t(64u64, 6_000u64);
    let reps = vmon::par_for(cli.threads, n_deep, 1, |_| Report::new("C13", "w"), |rep, i| {
        let mut rng = Rng::derive(cli.seed, &[131, i]);
        let s = deep_seq(&mut rng);
        if i % 4 == 3 {
            run_seq_unwinding(rep, &s, None);
        } else {
            run_seq(rep, &s, if i % 4 == 2 { Some(3000 + rng.below(4000)) } else { None });
        }
        rep.hit("deep_backlog_histories");
        rep.nontrivial(vmon::hash_combine(0x64656570, vmon::hash_str(&enc(&s[s.len() - 40..]))));
        flush(rep);
    });
    for r in reps {
        rep.merge(r);
    }
    let n_rand = cli.t(400u64, 300_000u64);
    let reps = vmon::par_for(cli.threads, n_rand, 4, |_| Report::new("C13", "w"), |rep, i| {
        let mut rng = Rng::derive(cli.seed, &[13, i]);
        let len = cli.t(1_000, 5_000) + rng.usize_below(1000);
        let max_live = 1 + rng.usize_below(8);
        let s = random_seq(&mut rng, len, max_live);
        let src_len = if rng.bool() { None } else { Some(rng.below(len as u64 / 2 + 1)) };
        run_seq(rep, &s, src_len);
        rep.nontrivial(vmon::hash_str(&enc(&s[..s.len().min(80)])));
        if rep.want_sample() && i % 53 == 0 {
            rep.sample(J::obj().set("ops_prefix", J::s(enc(&s[..s.len().min(40)]))).set("length", J::u(s.len() as u64)).set("source_len", J::i(src_len.map(|l| l as i64).unwrap_or(-1))));
        }
        flush(rep);
    });
    for r in reps {
        rep.merge(r);
    }
    // allocator monitor
    let frames = cli.t(200_000, 2_000_000);
    for (n, b) in [(2usize, 1usize), (3, 1), (3, 64), (5, 64), (8, 256)] {
        lockstep_no_growth(&mut rep, n, b, frames);
    }
    flush(&mut rep);
    finish(&cli, rep, t0);
}
