//! C18 — sinc interpolation is transparent on the sample grid, linear and finite.
//!
//! (a) ratio exactly 1 through the Converter, zero-padded ring of depth d: output k == source[k-d]
//! within 1e-12 of the peak; (b) linearity I(aX+bY) == a I(X) + b I(Y) at hostile and random
//! fractional positions and any buffered history incl. the priming phase; (c) constant input is
//! reproduced within 1% once primed for d >= 4; (d) reset() == fresh interpolator, bit for bit.

use dasp_frame::Frame;
use dasp_interpolate::sinc::Sinc;
use dasp_interpolate::Interpolator;
use dasp_ring_buffer::Fixed;
use dasp_signal::{self as signal, Signal};
use std::cell::Cell;
use std::time::Instant;
use vmon::{Cli, Report, Rng, J};

const U64F: f64 = 1.110_223_024_625_156_5e-16;
const U32F: f64 = 5.960_464_477_539_063e-8;

thread_local! {
    static EVALS: Cell<u64> = const { Cell::new(0) };
    static PRIMING: Cell<u64> = const { Cell::new(0) };
    static CONST_OPERAND: Cell<u64> = const { Cell::new(0) };
}
fn ev(n: u64) {
    EVALS.with(|c| c.set(c.get() + n));
}

fn viol(rep: &mut Report, what: &str, detail: String, case: String) {
    rep.violation(&format!("sinc|{}", what), detail, case);
}

// ---------------------------------------------------------------- (a) ratio 1 transparency
fn check_ratio_one(rep: &mut Report, d: usize, len: usize, seed: u64) -> bool {
    let case = format!("kind=ratio1;d={};len={};seed={}", d, len, seed);
    let mut rng = Rng::derive(seed, &[18, 1, d as u64]);
    let src: Vec<f64> = (0..len).map(|i| if i % 17 == 0 { 1.0 } else { rng.f64_in(-1.0, 1.0) }).collect();
    let peak = src.iter().fold(0.0f64, |m, x| m.max(x.abs()));
    let r = vmon::catch(|| {
        // zeroed ring handed over at a rotation derived from the case
        let sinc = Sinc::new(Fixed::from_raw_parts((seed as usize + len) % (2 * d), vec![0.0f64; 2 * d]));
        // ratio exactly 1 through three routes: scale_hz(1.0), from_hz_to_hz(r, r) for rates r
        // derived from the case (49, 11 000, 22 000, 44 100, odd ones), and the setter
        let rates = [49.0f64, 11_000.0, 22_000.0, 44_100.0, 7.0, 12_345.0, 0.3, 96_000.0];
        let r = rates[(seed as usize + d) % rates.len()];
        let conv = match (seed + d as u64) % 3 {
            0 => signal::from_iter(src.iter().cloned()).scale_hz(sinc, 1.0),
            1 => signal::from_iter(src.iter().cloned()).from_hz_to_hz(sinc, r, r),
            _ => {
                let mut c = signal::from_iter(src.iter().cloned()).scale_hz(sinc, 1.0);
                c.set_hz_to_hz(r, r);
                c
            }
        };
        conv.take(len).collect::<Vec<f64>>()
    });
    let out = match r {
        Ok(o) => o,
        Err(m) => {
            viol(rep, "ratio_one|panic", format!("depth {}: {}", d, m), case);
            return false;
        }
    };
    for (k, o) in out.iter().enumerate() {
        let want = if k >= d { src[k - d] } else { 0.0 };
        if !o.is_finite() || (o - want).abs() > 1e-12 * peak {
            viol(rep, "ratio_one|not_the_source_delayed_by_depth", format!("depth {}: output {} = {:e}, source[{} - {}] = {:e} (error {:e}, peak {})", d, k, o, k, d, want, (o - want).abs(), peak), case);
            return false;
        }
    }
    ev(len as u64);
    true
}

// ---------------------------------------------------------------- (b) linearity / finiteness
/// feed `hist` into a fresh zero-padded interpolator (optionally with a rotated ring) and
/// evaluate at every x after every push
fn trace_f64(d: usize, first: usize, hist: &[f64], xs: &[f64]) -> Vec<Vec<f64>> {
    let mut s = Sinc::new(Fixed::from_raw_parts(first % (2 * d), vec![0.0f64; 2 * d]));
    let mut out = Vec::new();
    out.push(xs.iter().map(|x| s.interpolate(*x)).collect());
    for h in hist {
        s.next_source_frame(*h);
        out.push(xs.iter().map(|x| s.interpolate(*x)).collect());
    }
    out
}

fn hostile_xs(rng: &mut Rng, n: usize) -> Vec<f64> {
    let mut v = vec![0.0, U64F, 0.5, 1.0 - U64F, 0.25, 1.0 / 3.0, 1e-300];
    for _ in 0..n {
        v.push(rng.f64());
    }
    v
}

fn check_linearity_f64(rep: &mut Report, d: usize, seed: u64, scale: f64) -> bool {
    let case = format!("kind=linear_f64;d={};seed={};scale={:e}", d, seed, scale);
    let mut rng = Rng::derive(seed, &[18, 2, d as u64]);
    let n = 2 * d + 3 + rng.usize_below(2 * d + 2);
    // operand shapes by seed: both random; X a non-zero constant (a DC offset under a signal); Y a
    // constant from some frame on; both piecewise constant - superposition must hold whatever the
    // operands look like, also when one of them fills the whole buffer with one value
    let shape = seed % 4;
    let (cx, cy) = (rng.f64_in(0.25, 1.0) * scale, -rng.f64_in(0.25, 1.0) * scale);
    let x: Vec<f64> = (0..n).map(|i| if shape == 1 || (shape == 3 && i >= n / 3) { cx } else { rng.f64_in(-1.0, 1.0) * scale }).collect();
    let y: Vec<f64> = (0..n).map(|i| if (shape == 2 && i >= 2) || (shape == 3 && i < n / 2) { cy } else { rng.f64_in(-1.0, 1.0) * scale }).collect();
    if shape != 0 {
        CONST_OPERAND.with(|c| c.set(c.get() + 1));
    }
    let (a, b) = (rng.f64_in(-2.0, 2.0), rng.f64_in(-2.0, 2.0));
    let z: Vec<f64> = x.iter().zip(&y).map(|(p, q)| a * p + b * q).collect();
    let xs = hostile_xs(&mut rng, 5);
    let first = rng.usize_below(2 * d);
    let r = vmon::catch(|| (trace_f64(d, first, &x, &xs), trace_f64(d, first, &y, &xs), trace_f64(d, first, &z, &xs)));
    let (ix, iy, iz) = match r {
        Ok(t) => t,
        Err(m) => {
            viol(rep, "interpolate|panic", format!("depth {} first {}: {}", d, first, m), case);
            return false;
        }
    };
    let nx = x.iter().fold(0.0f64, |m, v| m.max(v.abs()));
    let ny = y.iter().fold(0.0f64, |m, v| m.max(v.abs()));
    let tol = (2 * d + 8) as f64 * 16.0 * U64F * (a.abs() * nx + b.abs() * ny) + 1e-300;
    for step in 0..ix.len() {
        if step <= d {
            PRIMING.with(|c| c.set(c.get() + 1));
        }
        for (k, xq) in xs.iter().enumerate() {
            let lhs = iz[step][k];
            let rhs = a * ix[step][k] + b * iy[step][k];
            if !lhs.is_finite() {
                viol(rep, "interpolate|not_finite", format!("depth {} after {} frames at x = {:e}: {:e}", d, step, xq, lhs), case);
                return false;
            }
            if (lhs - rhs).abs() > tol {
                viol(rep, "interpolate|not_linear_in_the_buffered_frames", format!("depth {} after {} frames at x = {:e}: I(aX+bY) = {:e} but a I(X) + b I(Y) = {:e} (tolerance {:e})", d, step, xq, lhs, rhs, tol), case);
                return false;
            }
        }
        ev(xs.len() as u64);
    }
    true
}

/// generic trace for other frame types
fn trace<F: Frame + 'static>(d: usize, hist: &[F], xs: &[f64]) -> Vec<Vec<F>>
where
    F::Sample: dasp_sample::Duplex<f64>,
{
    let mut s = Sinc::new(Fixed::from(vec![F::EQUILIBRIUM; 2 * d]));
    let mut out = Vec::new();
    out.push(xs.iter().map(|x| s.interpolate(*x)).collect());
    for h in hist {
        s.next_source_frame(*h);
        out.push(xs.iter().map(|x| s.interpolate(*x)).collect());
    }
    out
}

fn check_linearity_other(rep: &mut Report, d: usize, seed: u64) -> bool {
    let case = format!("kind=linear_other;d={};seed={}", d, seed);
    let mut rng = Rng::derive(seed, &[18, 3, d as u64]);
    let n = 2 * d + 4;
    let xs = hostile_xs(&mut rng, 3);
    // [f32; 2]: superposition and scaling by powers of two (exact in the inputs)
    let x: Vec<[f32; 2]> = (0..n).map(|_| [rng.f64_in(-0.4, 0.4) as f32, rng.f64_in(-0.4, 0.4) as f32]).collect();
    let y: Vec<[f32; 2]> = (0..n).map(|_| [rng.f64_in(-0.4, 0.4) as f32, rng.f64_in(-0.4, 0.4) as f32]).collect();
    let z: Vec<[f32; 2]> = x.iter().zip(&y).map(|(p, q)| [p[0] + 0.5 * q[0], p[1] + 0.5 * q[1]]).collect();
    // [i16; 2]: superposition of small integers, per-tap truncation allows 2d LSB per trace
    let xi: Vec<[i16; 2]> = (0..n).map(|_| [rng.range_i64(-8000, 8000) as i16, rng.range_i64(-8000, 8000) as i16]).collect();
    let yi: Vec<[i16; 2]> = (0..n).map(|_| [rng.range_i64(-8000, 8000) as i16, rng.range_i64(-8000, 8000) as i16]).collect();
    let zi: Vec<[i16; 2]> = xi.iter().zip(&yi).map(|(p, q)| [p[0] + q[0], p[1] + q[1]]).collect();
    let r = vmon::catch(|| (trace(d, &x, &xs), trace(d, &y, &xs), trace(d, &z, &xs), trace(d, &xi, &xs), trace(d, &yi, &xs), trace(d, &zi, &xs)));
    let (ix, iy, iz, jx, jy, jz) = match r {
        Ok(t) => t,
        Err(m) => {
            viol(rep, "interpolate|panic", format!("depth {} (f32/i16 frames): {}", d, m), case);
            return false;
        }
    };
    let tol32 = (2 * d + 8) as f64 * 16.0 * U32F * 0.8;
    let tol_i = (3 * 2 * d + 3) as f64;
    for step in 0..ix.len() {
        for k in 0..xs.len() {
            for c in 0..2 {
                let lhs = iz[step][k][c] as f64;
                let rhs = ix[step][k][c] as f64 + 0.5 * iy[step][k][c] as f64;
                if !lhs.is_finite() || (lhs - rhs).abs() > tol32 {
                    viol(rep, "interpolate|not_linear_in_the_buffered_frames", format!("[f32;2] depth {} after {} frames at x = {:e} channel {}: {:e} vs {:e}", d, step, xs[k], c, lhs, rhs), case);
                    return false;
                }
                let li = jz[step][k][c] as f64;
                let ri = jx[step][k][c] as f64 + jy[step][k][c] as f64;
                if (li - ri).abs() > tol_i {
                    viol(rep, "interpolate|not_linear_in_the_buffered_frames", format!("[i16;2] depth {} after {} frames at x = {:e} channel {}: {} vs {} (allowed {} LSB)", d, step, xs[k], c, li, ri, tol_i), case);
                    return false;
                }
            }
        }
        ev(xs.len() as u64 * 4);
    }
    true
}

// ---------------------------------------------------------------- (c) constant input
fn check_constant(rep: &mut Report, d: usize, c: f64, grid: usize) -> bool {
    let case = format!("kind=constant;d={};c={:e};grid={}", d, c, grid);
    let mut s = Sinc::new(Fixed::from(vec![0.0f64; 2 * d]));
    for _ in 0..2 * d {
        s.next_source_frame(c);
    }
    let mut worst = 0.0f64;
    // the grid, and then the doubles adjacent to the ends of [0, 1): the 64 nearest below 1, a
    // geometric approach to 1, to 0 and to 1/2 from both sides, the smallest positive values (a
    // tap's argument is then tiny, or within an ulp of a multiple of pi)
    let mut extra: Vec<f64> = (1..=64u64).map(|k| f64::from_bits(1.0f64.to_bits() - k)).collect();
    for e in 1..=60 {
        let p = (2.0f64).powi(-e);
        extra.extend_from_slice(&[1.0 - p, p, 0.5 + p, 0.5 - p]);
    }
    extra.extend_from_slice(&[f64::from_bits(1), f64::MIN_POSITIVE, 1e-300, 1e-17, 1e-16]);
    for g in 0..grid + extra.len() {
        let x = if g < grid { g as f64 / grid as f64 } else { extra[g - grid] };
        if !(x >= 0.0 && x < 1.0) {
            continue;
        }
        let v = s.interpolate(x);
        let err = (v - c).abs() / c.abs();
        worst = worst.max(err);
        if !(err <= 0.01) {
            viol(rep, "constant_input_not_reproduced_within_1_percent", format!("depth {}: I({:e}) = {:e} for constant input {:e} (relative error {:e})", d, x, v, c, err), case);
            return false;
        }
    }
    ev(grid as u64);
    rep.count("constant_checks", 1);
    if d == 4 {
        rep.note(format!("constant input, depth 4: worst relative error {:.4}%", worst * 100.0));
    }
    true
}

// ---------------------------------------------------------------- (d) reset
fn check_reset(rep: &mut Report, d: usize, seed: u64) -> bool {
    let case = format!("kind=reset;d={};seed={}", d, seed);
    let mut rng = Rng::derive(seed, &[18, 4, d as u64]);
    // prior history: any length, and in one case out of three shorter than the depth (the
    // interpolator is still priming when it is reset)
    let pre_len = if seed % 3 == 1 { rng.usize_below(d + 1) } else { rng.usize_below(5 * d + 2) };
    let pre: Vec<f64> = (0..pre_len).map(|_| rng.f64_in(-1.0, 1.0)).collect();
    // ring content before use: arbitrary values, or (every other seed) all zeros as documented
    let zeroed = seed % 2 == 1;
    let post: Vec<f64> = (0..2 * d + 5).map(|_| rng.f64_in(-1.0, 1.0)).collect();
    let xs = hostile_xs(&mut rng, 3);
    let first = rng.usize_below(2 * d);
    let r = vmon::catch(|| {
        // dirty interpolator: rotated ring with non-zero content, some history
        let mut dirty = Sinc::new(Fixed::from_raw_parts(first, (0..2 * d).map(|i| if zeroed { 0.0 } else { 0.3 + i as f64 }).collect::<Vec<f64>>()));
        for p in &pre {
            dirty.next_source_frame(*p);
        }
        dirty.reset();
        let mut fresh = Sinc::new(Fixed::from(vec![0.0f64; 2 * d]));
        let mut diffs = Vec::new();
        for (k, p) in std::iter::once(&0.0).chain(post.iter()).enumerate() {
            if k > 0 {
                dirty.next_source_frame(*p);
                fresh.next_source_frame(*p);
            }
            for x in &xs {
                let (a, b) = (dirty.interpolate(*x), fresh.interpolate(*x));
                if a.to_bits() != b.to_bits() {
                    diffs.push((k, *x, a, b));
                }
            }
        }
        diffs
    });
    match r {
        Err(m) => {
            viol(rep, "reset|panic", format!("depth {}: {}", d, m), case);
            false
        }
        Ok(diffs) => {
            if let Some((k, x, a, b)) = diffs.first() {
                viol(rep, "reset|not_the_initial_silent_state", format!("depth {} (prior history {} frames, first {}): after reset and {} frames I({:e}) = {:e}, fresh interpolator gives {:e}", d, pre.len(), first, k, x, a, b), case);
                return false;
            }
            ev((post.len() * xs.len()) as u64);
            true
        }
    }
}

fn main() {
    let cli = Cli::parse();
    let t0 = Instant::now();
    let mut rep = Report::new("C18", &cli.stage);
    if let Some(cs) = &cli.case {
        let m = vmon::cli::parse_case(cs);
        let d: usize = m["d"].parse().unwrap();
        let seed: u64 = m.get("seed").map(|s| s.parse().unwrap()).unwrap_or(0);
        match m["kind"].as_str() {
            "ratio1" => {
                check_ratio_one(&mut rep, d, m["len"].parse().unwrap(), seed);
            }
            "linear_f64" => {
                check_linearity_f64(&mut rep, d, seed, m["scale"].parse().unwrap());
            }
            "linear_other" => {
                check_linearity_other(&mut rep, d, seed);
            }
            "constant" => {
                check_constant(&mut rep, d, m["c"].parse().unwrap(), m["grid"].parse().unwrap());
            }
            _ => {
                check_reset(&mut rep, d, seed);
            }
        }
        rep.eval(EVALS.with(|c| c.replace(0)));
        checks::finish(&cli, rep, t0);
    }
    rep.oblige("priming_phase_evaluations", 1);
    rep.oblige("superposition_with_a_constant_operand", 1);
    let mut depths: Vec<usize> = (1..=cli.t(64, 160)).collect();
    if cli.thorough() {
        depths.extend([128, 256, 1000]);
    } else {
        depths.push(128);
    }
    let seeds = cli.t(3u64, 100u64);
    let reps = vmon::par_for(cli.threads, depths.len() as u64, 1, |_| Report::new("C18", "w"), |rep, i| {
        let d = depths[i as usize];
        for s in 0..seeds {
            let seed = cli.seed.wrapping_mul(977).wrapping_add(s);
            check_ratio_one(rep, d, 3 * d + 40, seed);
            // long runs at ratio 1 (a position that drifts by an ulp per frame leaves the 1e-12
            // band only after a few thousand frames), all three routes x eight rates over the seeds
            if d == 1 || d == 4 || d == 8 || d == 16 {
                for v in 0..8u64 {
                    check_ratio_one(rep, d, 6_000, seed.wrapping_mul(8).wrapping_add(v));
                }
            }
            if d <= 128 {
                for v in 0..4u64 {
                    check_linearity_f64(rep, d, seed.wrapping_mul(4).wrapping_add(v), 1.0); // all four operand shapes
                }
                check_linearity_f64(rep, d, seed, 1e300);
                check_linearity_f64(rep, d, seed, 1e-200);
                // all six (history length class, ring content class) combinations
                for v in 0..6u64 {
                    check_reset(rep, d, seed.wrapping_mul(6).wrapping_add(v));
                }
                if d <= 48 {
                    check_linearity_other(rep, d, seed);
                }
            }
            rep.nontrivial(vmon::hash_combine(d as u64, seed));
        }
        if d >= 4 {
            for c in [1.0, -0.37, 1e-12, 1e9] {
                check_constant(rep, d, c, cli.t(2_000, 10_000));
            }
        }
        rep.eval(EVALS.with(|c| c.replace(0)));
        rep.hit_n("priming_phase_evaluations", PRIMING.with(|c| c.replace(0)));
        rep.hit_n("superposition_with_a_constant_operand", CONST_OPERAND.with(|c| c.replace(0)));
    });
    for r in reps {
        rep.merge(r);
    }
    rep.exhaustive(format!("every depth 1..={} (plus {}): ratio-1 transparency, linearity at hostile positions during and after priming, reset equivalence; constant input for every depth >= 4 on a {}-point grid", cli.t(64, 160), if cli.thorough() { "128, 256, 1000" } else { "128" }, cli.t(2_000, 10_000)));
    rep.sample(J::obj().set("kind", J::s("ratio1")).set("depth", J::u(7)).set("expect", J::s("output k == source[k-7] within 1e-12 * peak, 0 for k < 7")));
    rep.sample(J::obj().set("kind", J::s("linearity")).set("depth", J::u(2)).set("positions", J::s("0, 2^-53, 0.5, 1-2^-53, 1/4, 1/3, 1e-300, random")).set("expect", J::s("I(aX+bY) == a I(X) + b I(Y) within (2d+8)*16u*(|a| |X| + |b| |Y|), after every push incl. priming")));
    checks::finish(&cli, rep, t0);
}
