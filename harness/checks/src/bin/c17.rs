//! C17 — oscillators and noise sources keep phase and amplitude in range at any rate.
//!
//! Oracle: the exact accumulated phase frac(sum of steps) in double-double with a running bound
//! on the one rounded addition per frame; waveforms observed in lock-step with a Phase driven by
//! an identical step source; noise reproducibility (same seed, clone mid-stream, restart);
//! control-signal pull counts through an instrumented source; a dense scan of the simplex noise
//! over every gradient cell through a custom `Step`.

use checks::*;
use dasp_signal::{self as signal, Signal, Step};
use std::cell::Cell;
use std::rc::Rc;
use std::time::Instant;
use vmon::dd::DD;
use vmon::{Cli, Report, Rng, J};

const U: f64 = 1.110_223_024_625_156_5e-16;

thread_local! {
    static EVALS: Cell<u64> = const { Cell::new(0) };
}
fn ev(n: u64) {
    EVALS.with(|c| c.set(c.get() + n));
}

/// a Step that replays a fixed list of steps (then repeats the last one)
#[derive(Clone)]
struct ListStep {
    steps: Rc<Vec<f64>>,
    i: usize,
}
impl Step for ListStep {
    fn step(&mut self) -> f64 {
        let s = self.steps[self.i.min(self.steps.len() - 1)];
        self.i += 1;
        s
    }
}

/// expected-phase tracker
struct PhaseModel {
    sum: DD,
    eps: f64,
    exact: bool,
    prev: f64,
    rem: f64,
}
impl PhaseModel {
    fn new(rem: f64) -> Self {
        PhaseModel { sum: DD::ZERO, eps: 0.0, exact: true, prev: 0.0, rem }
    }
    /// check the phase observed *before* adding `step`, then account for the step
    fn observe(&mut self, n: u64, got: f64, step: f64) -> Result<(), (String, String)> {
        if n == 0 && got != 0.0 {
            return Err(("first_not_zero".into(), format!("first phase = {:e}", got)));
        }
        if !(got >= 0.0 && got < self.rem) {
            return Err(("out_of_range".into(), format!("phase #{} = {:e} not in [0, {})", n, got, self.rem)));
        }
        // expected: frac(sum / rem) * rem
        let q = self.sum.div_f(self.rem);
        let want = q.frac().mul_f(self.rem).to_f64();
        let d = (got - want).abs();
        let d = d.min((self.rem - d).abs());
        if self.exact {
            if d != 0.0 {
                return Err(("inexact_for_dyadic_steps".into(), format!("phase #{} = {:e}, exact expectation {:e}", n, got, want)));
            }
        } else if d > self.eps + 4.0 * U * self.rem {
            return Err(("drift_beyond_rounding_bound".into(), format!("phase #{} = {:e}, expected {:e} +- {:e} (circular distance {:e})", n, got, want, self.eps, d)));
        }
        // one rounded addition per frame; fmod is exact
        let a = got + step;
        if !is_dyadic_small(step) || !is_dyadic_small(got) {
            self.exact = false;
        }
        self.eps = self.eps * (1.0 + 2.0 * U) + U * a.abs() * (1.0 + 2.0 * U);
        self.sum = self.sum.add_f(step);
        self.prev = got;
        Ok(())
    }
}

/// multiples of 2^-20 below 2^20: sums of such values are exact in f64
fn is_dyadic_small(x: f64) -> bool {
    let s = x * 1_048_576.0;
    x.abs() < 1_048_576.0 && s == s.trunc()
}

fn viol(rep: &mut Report, what: &str, detail: String, case: String) {
    rep.violation(&format!("osc|{}", what), detail, case);
}

/// constant-frequency run: phase, saw, square, sine, simplex in lock-step
fn run_const(rep: &mut Report, rate: f64, hz: f64, frames: u64) -> bool {
    match vmon::catch(std::panic::AssertUnwindSafe(|| run_const_inner(rep, rate, hz, frames))) {
        Ok(ok) => ok,
        Err(m) => {
            viol(rep, "panic", format!("rate {:e} hz {:e}: panicked: {}", rate, hz, m), format!("kind=const;rate={:e};hz={:e};frames={}", rate, hz, frames));
            false
        }
    }
}

fn run_const_inner(rep: &mut Report, rate: f64, hz: f64, frames: u64) -> bool {
    let case = format!("kind=const;rate={:e};hz={:e};frames={}", rate, hz, frames);
    let step = hz / rate;
    if !step.is_finite() {
        return true; // outside the statement's domain
    }
    let mut phase = signal::rate(rate).const_hz(hz).phase();
    let mut saw = signal::rate(rate).const_hz(hz).saw();
    let mut square = signal::rate(rate).const_hz(hz).square();
    let mut sine = signal::rate(rate).const_hz(hz).sine();
    let mut simplex = signal::rate(rate).const_hz(hz).noise_simplex();
    let mut spx_phase = signal::rate(rate).const_hz(hz).phase();
    let mut model = PhaseModel::new(1.0);
    let mut smodel = PhaseModel::new(65_536.0);
    for n in 0..frames {
        let p = phase.next();
        if let Err((w, d)) = model.observe(n, p, step) {
            viol(rep, &format!("phase|{}", w), format!("rate {:e} hz {:e}: {}", rate, hz, d), case);
            return false;
        }
        let sp = spx_phase.next_phase_wrapped_to(65_536.0);
        if let Err((w, d)) = smodel.observe(n, sp, step) {
            viol(rep, &format!("phase_wrapped_to_65536|{}", w), format!("rate {:e} hz {:e}: {}", rate, hz, d), case);
            return false;
        }
        if !check_waves(rep, p, saw.next(), square.next(), sine.next(), simplex.next(), &case, n) {
            return false;
        }
        ev(6);
    }
    true
}

fn check_waves(rep: &mut Report, p: f64, saw: f64, square: f64, sine: f64, simplex: f64, case: &str, n: u64) -> bool {
    let want_saw = 1.0 - 2.0 * p;
    if saw != want_saw {
        viol(rep, "saw|not_1_minus_2_phase", format!("frame {}: phase {:e} saw {:e} expected {:e}", n, p, saw, want_saw), case.into());
        return false;
    }
    let want_sq = if p < 0.5 { 1.0 } else { -1.0 };
    if square != want_sq {
        viol(rep, "square|wrong_half_cycle", format!("frame {}: phase {:e} square {:e}", n, p, square), case.into());
        return false;
    }
    const TWO_PI: f64 = std::f64::consts::PI * 2.0;
    let x = TWO_PI * p;
    let tol = 8.0 * U * (1.0 + TWO_PI);
    // two independent routes to sin(2 pi p): the library sin and cos shifted by a quarter period
    if (sine - x.sin()).abs() > tol || (sine - (x - std::f64::consts::FRAC_PI_2).cos()).abs() > 2.0 * tol {
        viol(rep, "sine|not_sin_2pi_phase", format!("frame {}: phase {:e} sine {:e} expected {:e}", n, p, sine, x.sin()), case.into());
        return false;
    }
    for (name, v) in [("saw", saw), ("square", square), ("sine", sine), ("noise_simplex", simplex)] {
        if !(v >= -1.0 && v <= 1.0) {
            viol(rep, &format!("{}|amplitude_out_of_range", name), format!("frame {}: {} = {:e} (phase {:e})", n, name, v, p), case.into());
            return false;
        }
    }
    true
}

/// variable frequency: control source pulled exactly once per output
fn run_variable(rep: &mut Report, rate: f64, hzs: Rc<Vec<f64>>, label: &str, seed: u64) -> bool {
    let n = hzs.len();
    match vmon::catch(std::panic::AssertUnwindSafe(|| run_variable_inner(rep, rate, hzs, label, seed))) {
        Ok(ok) => ok,
        Err(m) => {
            viol(rep, "panic", format!("rate {:e} pattern {}: panicked: {}", rate, label, m), format!("kind=var;rate={:e};pattern={};seed={};frames={}", rate, label, seed, n));
            false
        }
    }
}

fn run_variable_inner(rep: &mut Report, rate: f64, hzs: Rc<Vec<f64>>, label: &str, seed: u64) -> bool {
    let case = format!("kind=var;rate={:e};pattern={};seed={};frames={}", rate, label, seed, hzs.len());
    // The frequency signal is the sum of two finite signals: the first carries hz[0..h] and then
    // runs dry, the second carries zeros and then hz[h..]. From frame h on the sum reports
    // is_exhausted() (a hint: one operand is spent) while its frames are still the non-zero
    // frequencies - an oscillator has to keep pulling and stepping by what next() yields.
    let h = hzs.len() / 2;
    let head: Rc<Vec<f64>> = Rc::new(hzs[..h].to_vec());
    let tail: Rc<Vec<f64>> = Rc::new(hzs.iter().enumerate().map(|(n, v)| if n < h { 0.0 } else { *v }).collect());
    let mk = |probe: &Rc<Probe>| signal::rate(rate).hz(USource::finite(head.clone(), Probe::new()).add_amp(USource::finite(tail.clone(), probe.clone())));
    if h > 0 && hzs[h..].iter().any(|v| *v != 0.0) {
        rep.hit("frequency_signal_with_exhaustion_hint_still_non_zero");
    }
    let probes: Vec<Rc<Probe>> = (0..5).map(|_| Probe::new()).collect();
    let mut phase = mk(&probes[0]).phase();
    let mut saw = mk(&probes[1]).saw();
    let mut square = mk(&probes[2]).square();
    let mut sine = mk(&probes[3]).sine();
    let mut simplex = mk(&probes[4]).noise_simplex();
    let mut model = PhaseModel::new(1.0);
    for (n, hz) in hzs.iter().enumerate() {
        let step = hz / rate;
        let p = phase.next();
        if let Err((w, d)) = model.observe(n as u64, p, step) {
            viol(rep, &format!("phase_variable_hz|{}", w), format!("rate {:e} pattern {}: {}", rate, label, d), case);
            return false;
        }
        if !check_waves(rep, p, saw.next(), square.next(), sine.next(), simplex.next(), &case, n as u64) {
            return false;
        }
        for (k, pr) in probes.iter().enumerate() {
            if pr.pulls() != n as u64 + 1 {
                viol(rep, "hz|control_not_pulled_exactly_once_per_output", format!("oscillator {} after {} outputs pulled its frequency signal {} times", k, n + 1, pr.pulls()), case);
                return false;
            }
        }
        ev(7);
    }
    // exhaustion of the frequency signal is forwarded by Hz
    rep.hit("variable_hz_runs");
    true
}

fn noise_checks(rep: &mut Report, seed: u64, frames: usize) -> bool {
    let case = format!("kind=noise;seed={};frames={}", seed, frames);
    let r = vmon::catch(|| {
        let mut a = signal::noise(seed);
        let mut b = signal::noise(seed);
        let mut out = Vec::with_capacity(frames);
        let mut clone_at = None;
        for n in 0..frames {
            if n == frames / 3 {
                clone_at = Some((n, a.clone()));
            }
            let x = a.next();
            let y = b.next_sample();
            out.push((x, y));
        }
        let mut cl = Vec::new();
        if let Some((at, mut c)) = clone_at {
            for _ in at..frames {
                cl.push(c.next());
            }
        }
        // restart
        let mut r = signal::noise(seed);
        let restart: Vec<f64> = (0..frames.min(64)).map(|_| r.next()).collect();
        (out, cl, restart)
    });
    match r {
        Err(m) => {
            viol(rep, "noise|panic", format!("noise({}) panicked within {} frames: {}", seed, frames, m), case);
            false
        }
        Ok((out, cl, restart)) => {
            for (n, (x, y)) in out.iter().enumerate() {
                if !(x.is_finite() && *x >= -1.0 && *x <= 1.0) {
                    viol(rep, "noise|amplitude_out_of_range", format!("noise({}) frame {} = {:e}", seed, n, x), case);
                    return false;
                }
                if x.to_bits() != y.to_bits() {
                    viol(rep, "noise|not_reproducible_same_seed", format!("two noise({}) instances differ at frame {}: {:e} vs {:e}", seed, n, x, y), case);
                    return false;
                }
            }
            let at = frames / 3;
            for (k, c) in cl.iter().enumerate() {
                if c.to_bits() != out[at + k].0.to_bits() {
                    viol(rep, "noise|clone_diverges", format!("clone taken at frame {} differs at frame {}", at, at + k), case);
                    return false;
                }
            }
            for (k, c) in restart.iter().enumerate() {
                if c.to_bits() != out[k].0.to_bits() {
                    viol(rep, "noise|restart_diverges", format!("restart differs at frame {}", k), case);
                    return false;
                }
            }
            ev(frames as u64 * 2);
            true
        }
    }
}

/// dense scan of the 1-D simplex noise over every gradient cell through a custom Step
fn simplex_scan(rep: &mut Report, sub_bits: u32, cells: u64) -> bool {
    let case = format!("kind=simplex;sub_bits={};cells={}", sub_bits, cells);
    let step = 1.0 / (1u64 << sub_bits) as f64;
    let mut sig = signal::phase(ListStep { steps: Rc::new(vec![step]), i: 0 }).noise_simplex();
    let n = cells << sub_bits;
    let mut maxabs: f64 = 0.0;
    for k in 0..n {
        let v = sig.next();
        if !(v >= -1.0 && v <= 1.0) {
            viol(rep, "noise_simplex|amplitude_out_of_range", format!("x = {:e}: value {:e}", k as f64 * step, v), case);
            return false;
        }
        if k % (1 << sub_bits) == 0 && v != 0.0 {
            viol(rep, "noise_simplex|nonzero_on_integer_coordinate", format!("x = {}: value {:e}", k >> sub_bits, v), case);
            return false;
        }
        maxabs = maxabs.max(v.abs());
    }
    ev(n);
    rep.hit("simplex_cells_scanned");
    rep.note(format!("simplex scan: {} cells x 2^{} positions, max |value| = {:.6}", cells, sub_bits, maxabs));
    true
}

fn main() {
    let cli = Cli::parse();
    let t0 = Instant::now();
    let mut rep = Report::new("C17", &cli.stage);
    let rates = [1.0, 4.0, 44_100.0, 48_000.0, 1e-3, 1e9];
    let mults = [0.0, 0.25, 1.0 / 3.0, 1.0, 2.5, 1e6, 1e-9, 0.5, 0.999_999_999, 7.0 / 8.0, 1e-3];

    if let Some(cs) = &cli.case {
        let m = vmon::cli::parse_case(cs);
        match m["kind"].as_str() {
            "const" => {
                run_const(&mut rep, m["rate"].parse().unwrap(), m["hz"].parse().unwrap(), m["frames"].parse().unwrap());
            }
            "noise" => {
                noise_checks(&mut rep, m["seed"].parse().unwrap(), m["frames"].parse().unwrap());
            }
            "simplex" => {
                simplex_scan(&mut rep, m["sub_bits"].parse().unwrap(), m["cells"].parse().unwrap());
            }
            _ => {
                let rate: f64 = m["rate"].parse().unwrap();
                let seed: u64 = m["seed"].parse().unwrap();
                let frames: usize = m["frames"].parse().unwrap();
                for (label, hzs) in patterns(rate, frames, seed) {
                    if label == m["pattern"] {
                        run_variable(&mut rep, rate, Rc::new(hzs), label, seed);
                    }
                }
            }
        }
        rep.eval(EVALS.with(|c| c.replace(0)));
        finish(&cli, rep, t0);
    }

    rep.oblige("clone_conformance_scripts", 1);
    clone_conformance(&mut rep, cli.seed);
    rep.oblige("variable_hz_runs", 1);
    rep.oblige("frequency_signal_with_exhaustion_hint_still_non_zero", 1);
    rep.oblige("simplex_cells_scanned", 1);
    rep.oblige("noise_seeds_near_u64_max", 1);
    rep.oblige("dyadic_exact_runs", 1);

    // ---- constant frequency, every (rate, multiple) pair
    let frames_c = cli.t(3_000u64, 600_000u64);
    let mut jobs: Vec<(f64, f64, u64)> = Vec::new();
    for &r in &rates {
        for &m in &mults {
            jobs.push((r, m * r, frames_c));
        }
    }
    // long runs with tiny and with awkward steps (drift)
    let long = cli.t(300_000u64, 50_000_000u64);
    jobs.push((44_100.0, 440.0, long));
    jobs.push((48_000.0, 1e-3, long));
    jobs.push((1.0, 0.1, long));
    jobs.push((3.0, 1.0, long));
    let reps = vmon::par_for(cli.threads, jobs.len() as u64, 1, |_| Report::new("C17", "w"), |rep, i| {
        let (r, hz, fr) = jobs[i as usize];
        run_const(rep, r, hz, fr);
        if is_dyadic_small(hz / r) {
            rep.hit("dyadic_exact_runs");
        }
        rep.nontrivial(vmon::hash_combine(r.to_bits(), hz.to_bits()));
        rep.eval(EVALS.with(|c| c.replace(0)));
    });
    for r in reps {
        rep.merge(r);
    }

    // ---- variable frequency
    let frames_v = cli.t(2_000usize, 500_000usize);
    let reps = vmon::par_for(cli.threads, rates.len() as u64 * 4, 1, |_| Report::new("C17", "w"), |rep, i| {
        let rate = rates[(i / 4) as usize];
        let seed = cli.seed.wrapping_add(i % 4);
        for (label, hzs) in patterns(rate, frames_v, seed) {
            run_variable(rep, rate, Rc::new(hzs), label, seed);
            rep.nontrivial(vmon::hash_combine(rate.to_bits(), vmon::hash_combine(vmon::hash_str(label), seed)));
        }
        rep.eval(EVALS.with(|c| c.replace(0)));
    });
    for r in reps {
        rep.merge(r);
    }

    // ---- noise: structured seeds (incl. the top of the u64 range) and random ones
    let mut seeds: Vec<u64> = vec![0, 1, 2, 1 << 32, (1 << 32) - 1, 1 << 51, u64::MAX / 2, u64::MAX / 2 + 1];
    for d in 0..=4u64 {
        seeds.push(u64::MAX - d);
    }
    seeds.push(u64::MAX - 100);
    let mut rng = Rng::derive(cli.seed, &[17]);
    for _ in 0..cli.t(40, 400) {
        seeds.push(rng.u64());
    }
    let nf = cli.t(2_000usize, 100_000usize);
    for &s in &seeds {
        noise_checks(&mut rep, s, nf);
        if s > u64::MAX - nf as u64 {
            rep.hit("noise_seeds_near_u64_max");
        }
        rep.nontrivial(vmon::hash_combine(0x6e6f, s));
    }
    rep.eval(EVALS.with(|c| c.replace(0)));

    // ---- noise: long contiguous runs. 2^k chunks of 2^24 frames, chunk i from seed base + i*2^24,
    // so that (seed + frame index) sweeps a contiguous range of 2^(24+k) values: 2^31 in quick
    // (every residue modulo 2^31), 2^35 in thorough. Range only; the extremes seen are reported.
    {
        let log2_chunks: u32 = cli.t(7, 11);
        let base: u64 = if cli.seed == 0 { 0 } else { vmon::rng::mix64(cli.seed) };
        const L: u64 = 1 << 24;
        let reps = vmon::par_for(cli.threads, 1u64 << log2_chunks, 1, |_| (Report::new("C17", "w"), f64::INFINITY, f64::NEG_INFINITY), |st, i| {
            let (rep, lo, hi) = st;
            let seed = base.wrapping_add(i * L);
            let mut s = signal::noise(seed);
            let r = vmon::catch(std::panic::AssertUnwindSafe(|| {
                let (mut l, mut h) = (f64::INFINITY, f64::NEG_INFINITY);
                let mut bad: Option<(u64, f64)> = None;
                for n in 0..L {
                    let x = s.next();
                    if !(x >= -1.0 && x <= 1.0) && bad.is_none() {
                        bad = Some((n, x));
                    }
                    l = l.min(x);
                    h = h.max(x);
                }
                (l, h, bad)
            }));
            match r {
                Ok((l, h, bad)) => {
                    *lo = lo.min(l);
                    *hi = hi.max(h);
                    if let Some((n, x)) = bad {
                        viol(rep, "noise|amplitude_out_of_range", format!("noise({}) frame {} = {:e} (|excess| {:e})", seed, n, x, x.abs() - 1.0), format!("kind=noise;seed={};frames={}", seed.wrapping_add(n.saturating_sub(2)), 8));
                    }
                }
                Err(m) => viol(rep, "noise|panic", format!("noise({}) panicked within 2^24 frames: {}", seed, m), format!("kind=noise;seed={};frames={}", seed, L)),
            }
            rep.eval(L);
            rep.nontrivial_by_construction(1);
        });
        let (mut lo, mut hi) = (f64::INFINITY, f64::NEG_INFINITY);
        for (r, l, h) in reps {
            rep.merge(r);
            lo = lo.min(l);
            hi = hi.max(h);
        }
        rep.oblige("noise_long_run_frames", 1 << 30);
        rep.hit_n("noise_long_run_frames", L << log2_chunks);
        rep.note(format!("noise long runs: {} chunks of 2^24 frames, seeds {}+i*2^24: observed minimum {:e}, maximum {:e} (range limit [-1, 1])", 1u64 << log2_chunks, base, lo, hi));
        rep.exhaustive(format!("white noise: (seed + frame index) over the contiguous range [{}, {}+2^{}), i.e. every residue modulo 2^31, range check on every sample", base, base, 24 + log2_chunks));
    }

    // ---- simplex noise dense scan: all 256 gradient cells (+ wrap)
    simplex_scan(&mut rep, cli.t(10, 15), 258);
    rep.eval(EVALS.with(|c| c.replace(0)));
    rep.exhaustive(format!("simplex noise: every gradient cell 0..258 at 2^{} equally spaced positions", cli.t(10, 15)));

    rep.sample(J::obj().set("kind", J::s("const")).set("rate", J::f(44_100.0)).set("hz", J::f(440.0)).set("frames", J::u(long)).set("checked", J::s("phase in [0,1), |phase - frac(n*hz/rate)| <= running bound, saw/square/sine/simplex per frame")));
    rep.sample(J::obj().set("kind", J::s("noise")).set("seed", J::s("u64::MAX - 2")).set("frames", J::u(nf as u64)).set("checked", J::s("range, same-seed equality, clone mid-stream, restart")));
    finish(&cli, rep, t0);
}

/// clone() / clone_from() of oscillators and noise mid-stream
fn clone_conformance(rep: &mut Report, seed: u64) {
    let mut rng = Rng::derive(seed, &[172]);
    let mut n = 0;
    // the destination of clone_from (variant 1) differs in EVERYTHING it is built from: sample
    // rate, frequency, and for the variable-frequency ones the control signal
    let ctl = |v: u64| signal::from_iter((0..400u64).map(move |i| 200.0 + 37.0 * ((i + 11 * v) % 23) as f64).collect::<Vec<f64>>());
    n += checks::cloneconf::check_clone_state("hz_phase", "kind=clone;osc=hz_phase", |v| signal::rate(44_100.0 + 3_900.0 * v as f64).hz(ctl(v)).phase(), |s, _i| s.next().to_bits(), rep, &mut rng, 18, 40, 10);
    n += checks::cloneconf::check_clone_state("hz_sine", "kind=clone;osc=hz_sine", |v| signal::rate(48_000.0 - 16_000.0 * v as f64).hz(ctl(v)).sine(), |s, _i| s.next().to_bits(), rep, &mut rng, 18, 40, 10);
    n += checks::cloneconf::check_clone_state("hz_square", "kind=clone;osc=hz_square", |v| signal::rate(8_000.0 * (1 + v) as f64).hz(ctl(v)).square(), |s, _i| s.next().to_bits(), rep, &mut rng, 12, 40, 10);
    n += checks::cloneconf::check_clone_state("const_phase", "kind=clone;osc=const_phase", |v| signal::rate(44_100.0 + 3_900.0 * v as f64).const_hz(440.0 + 110.0 * v as f64).phase(), |s, _i| s.next().to_bits(), rep, &mut rng, 12, 40, 10);
    n += checks::cloneconf::check_clone_state("sine", "kind=clone;osc=sine", |v| signal::rate(44_100.0 + 3_900.0 * v as f64).const_hz(440.0 + 110.0 * v as f64).sine(), |s, _i| s.next().to_bits(), rep, &mut rng, 18, 40, 10);
    n += checks::cloneconf::check_clone_state("saw", "kind=clone;osc=saw", |v| signal::rate(48_000.0).const_hz(1_000.0 + v as f64).saw(), |s, _i| s.next().to_bits(), rep, &mut rng, 18, 40, 10);
    n += checks::cloneconf::check_clone_state("noise", "kind=clone;osc=noise", |v| signal::noise(seed.wrapping_add(7 * v)), |s, _i| s.next().to_bits(), rep, &mut rng, 18, 40, 10);
    n += checks::cloneconf::check_clone_state("noise_simplex", "kind=clone;osc=simplex", |v| signal::rate(1_000.0).const_hz(3.0 + v as f64).noise_simplex(), |s, _i| s.next().to_bits(), rep, &mut rng, 18, 40, 10);
    rep.eval(n);
    rep.hit_n("clone_conformance_scripts", n);
}

/// frequency patterns for the variable-hz runs (all finite, non-negative)
fn patterns(rate: f64, frames: usize, seed: u64) -> Vec<(&'static str, Vec<f64>)> {
    let mut rng = Rng::derive(seed, &[171, rate.to_bits()]);
    let mut v = Vec::new();
    v.push(("random", (0..frames).map(|_| rng.f64() * 3.0 * rate).collect()));
    v.push(("sweep", (0..frames).map(|i| rate * (i as f64 / frames as f64) * 2.0).collect()));
    v.push(("zero_then_jump", (0..frames).map(|i| if i < frames / 2 { 0.0 } else { 2.5 * rate }).collect()));
    v.push(("dyadic_mix", (0..frames).map(|i| rate * [0.25, 0.5, 1.0, 0.125, 2.0][i % 5]).collect()));
    v.push(("huge_and_tiny", (0..frames).map(|i| if i % 2 == 0 { 1e6 * rate } else { 1e-9 * rate }).collect()));
    // consecutive frequencies that are unequal but only one ulp apart (a slow glide; a value
    // wobbling between two neighbours): "unchanged up to rounding" is not "unchanged"
    let base = (0.25 * rate).to_bits();
    // frequencies within two ulps of the rate itself (step within two ulps of 1, where phase + step
    // rounds to exactly 1 or 2), of half and of twice the rate: every ordered pair of neighbours
    // occurs, starting from phase 0
    for (label, centre) in [("ulps_around_rate", rate), ("ulps_around_half_rate", 0.5 * rate), ("ulps_around_twice_rate", 2.0 * rate)] {
        let near: Vec<f64> = (-2i64..=2).map(|d| f64::from_bits((centre.to_bits() as i64 + d) as u64)).collect();
        let mut seq = Vec::with_capacity(frames);
        let (mut i, mut j) = (0usize, 0usize);
        while seq.len() < frames {
            // walk all ordered pairs (i, j), each pair preceded by the exact centre (phase back near 0 for the rate itself)
            seq.push(centre);
            seq.push(near[i]);
            seq.push(near[j]);
            j += 1;
            if j == near.len() {
                j = 0;
                i = (i + 1) % near.len();
            }
        }
        seq.truncate(frames);
        v.push((label, seq));
    }
    v.push(("ulp_ramp", (0..frames).map(|i| f64::from_bits(base + i as u64)).collect()));
    v.push(("ulp_wobble_then_ramp_down", (0..frames).map(|i| if i < frames / 3 { f64::from_bits(base + (i % 2) as u64) } else { f64::from_bits(base - (i - frames / 3) as u64) }).collect()));
    v
}
