#![cfg_attr(target_pointer_width = "32", allow(arithmetic_overflow))] // 2^32-sized probes exist only in the 64-bit stages
//! C14 — buffered signals are a transparent prefetch of the source.
//!
//! Model: a queue pre-filled with the given frames; when (and only when) it is empty, exactly one
//! buffer's worth (capacity) of source frames is pulled. Pre-filled frames are negative ids,
//! source frame i is i+1, equilibrium is 0, so every returned value identifies its origin.

use checks::*;
use dasp_ring_buffer::Bounded;
use dasp_signal::Signal;
use std::cell::Cell;
use std::collections::VecDeque;
use std::time::Instant;
use vmon::{Cli, Report, Rng, J};

thread_local! {
    static EVALS: Cell<u64> = const { Cell::new(0) };
    static WRAPPED_PREFILL: Cell<u64> = const { Cell::new(0) };
    static PARTIAL_BATCH: Cell<u64> = const { Cell::new(0) };
    static PADDED: Cell<u64> = const { Cell::new(0) };
    static REVIVED: Cell<u64> = const { Cell::new(0) };
}
fn bump(c: &'static std::thread::LocalKey<Cell<u64>>) {
    c.with(|c| c.set(c.get() + 1));
}

fn src_frame(i: u64) -> f64 {
    (i + 1) as f64
}

#[derive(Clone, Copy, Debug, PartialEq, Eq, Hash)]
enum Op {
    Next,
    /// next_frames().take(j)
    Batch(usize),
}
fn enc(ops: &[Op]) -> String {
    ops.iter().map(|o| match o { Op::Next => "N".to_string(), Op::Batch(j) => format!("B{}", j) }).collect::<Vec<_>>().join(",")
}
fn dec(s: &str) -> Vec<Op> {
    s.split(',').filter(|x| !x.is_empty()).map(|x| if x == "N" { Op::Next } else { Op::Batch(x[1..].parse().unwrap()) }).collect()
}

struct Model {
    q: VecDeque<f64>,
    cap: usize,
    pos: u64,
    len: u64,
}
impl Model {
    fn refill(&mut self) {
        for _ in 0..self.cap {
            let v = if self.pos < self.len { src_frame(self.pos) } else { 0.0 };
            self.pos += 1;
            self.q.push_back(v);
        }
    }
    fn exhausted(&self) -> bool {
        self.q.is_empty() && self.pos >= self.len
    }
}

/// run one case; `drain` = additionally drain with until_exhausted at the end
fn run_case(rep: &mut Report, cap: usize, start: usize, pre: usize, len: u64, ops: &[Op], finish_with: u8, lean: bool) -> bool {
    match vmon::catch(std::panic::AssertUnwindSafe(|| run_case_inner(rep, cap, start, pre, len, ops, finish_with, lean))) {
        Ok(ok) => ok,
        Err(m) => {
            rep.violation("buffered|panic", format!("cap {} start {} prefill {} source_len {} ops {}: panicked: {}", cap, start, pre, len, enc(ops), m), format!("cap={};start={};pre={};len={};fin={};ops={}", cap, start, pre, len, finish_with, enc(ops)));
            false
        }
    }
}

fn run_case_inner(rep: &mut Report, cap: usize, start: usize, pre: usize, len: u64, ops: &[Op], finish_with: u8, lean: bool) -> bool {
    let case = || format!("cap={};start={};pre={};len={};fin={};ops={}", cap, start, pre, len, finish_with, enc(ops));
    if lean {
        eprintln!("CASE {}", case());
    }
    macro_rules! fail {
        ($what:expr, $($fmt:tt)*) => {{
            rep.violation(&format!("buffered|{}", $what), format!("cap {} start {} prefill {} source_len {} ops {}: {}", cap, start, pre, len, enc(ops), format!($($fmt)*)), case());
            return false;
        }};
    }
    // storage: poison (never to be seen) everywhere, prefill ids in the live region
    let mut data = vec![-9999.0f64; cap];
    let mut model = Model { q: VecDeque::new(), cap, pos: 0, len };
    for k in 0..pre {
        let v = -((k + 1) as f64);
        data[(start + k) % cap] = v;
        model.q.push_back(v);
    }
    if start != 0 && start + pre > cap {
        bump(&WRAPPED_PREFILL);
    }
    let probe = Probe::new();
    let src = USource::generated(src_frame, len, probe.clone());
    let ring = Bounded::from_raw_parts(start, pre, data);
    let mut b = src.buffered(ring);
    if b.is_exhausted() != model.exhausted() {
        fail!("is_exhausted", "initially is_exhausted() = {}, model {}", b.is_exhausted(), model.exhausted());
    }
    // The "fewer than one buffer of padding" consequence is about draining a signal that was never
    // pulled after it had reported exhaustion; a caller who keeps pulling an exhausted signal asks
    // for equilibrium frames (a whole refill of them) explicitly.
    let mut pulled_past_exhaustion = false;
    for (k, &op) in ops.iter().enumerate() {
        if model.exhausted() {
            pulled_past_exhaustion = true;
        }
        match op {
            Op::Next => {
                if model.q.is_empty() {
                    model.refill();
                }
                let want = model.q.pop_front().unwrap();
                let got = b.next();
                if got != want {
                    fail!(classify(got, want), "op #{} next() = {}, expected {}", k, got, want);
                }
            }
            Op::Batch(j) => {
                if model.q.is_empty() {
                    model.refill();
                }
                let want: Vec<f64> = (0..j.min(model.q.len())).map(|_| model.q.pop_front().unwrap()).collect();
                let got: Vec<f64> = b.next_frames().take(j).collect();
                if got != want {
                    let bad = got.iter().zip(&want).find(|(a, b)| a != b).map(|(a, b)| classify(*a, *b)).unwrap_or("batch_wrong_length");
                    fail!(bad, "op #{} next_frames().take({}) = {:?}, expected {:?}", k, j, got, want);
                }
                if !model.q.is_empty() {
                    bump(&PARTIAL_BATCH);
                }
            }
        }
        bump(&EVALS);
        if probe.pulls() != model.pos {
            let what = if probe.pulls() > model.pos { "pulled_while_not_empty_or_too_many" } else { "pulled_too_few" };
            fail!(what, "after op #{} the source was pulled {} times, model {} (a refill is exactly {} pulls, only when the buffer runs empty)", k, probe.pulls(), model.pos, cap);
        }
        if b.is_exhausted() != model.exhausted() {
            fail!("is_exhausted", "after op #{} is_exhausted() = {}, model {} (queue {} frames, source position {}/{})", k, b.is_exhausted(), model.exhausted(), model.q.len(), model.pos, len);
        }
    }
    match finish_with {
        0 => {
            // into_parts: source at the modelled position, ring holds exactly the undelivered frames
            let (s, ring) = b.into_parts();
            let left: Vec<f64> = ring.iter().copied().collect();
            if s.pos() != model.pos || !left.iter().eq(model.q.iter()) {
                fail!("into_parts", "into_parts: source position {} (model {}), ring {:?} (model {:?})", s.pos(), model.pos, left, model.q);
            }
        }
        _ => {
            // drain to exhaustion: remaining buffered frames, then the rest of the source, then
            // fewer than one buffer of equilibrium padding
            let mut want: Vec<f64> = model.q.iter().copied().collect();
            let mut pos = model.pos;
            while pos < len {
                // one refill
                for _ in 0..cap {
                    want.push(if pos < len { src_frame(pos) } else { 0.0 });
                    pos += 1;
                }
            }
            let got: Vec<f64> = b.until_exhausted().take(want.len() + cap + 2).collect();
            if got != want {
                fail!("drain_to_exhaustion", "until_exhausted() yielded {:?}, expected {:?}", got, want);
            }
            let padding = want.iter().rev().take_while(|v| **v == 0.0).count();
            if padding >= cap && !pulled_past_exhaustion {
                fail!("padding_not_less_than_one_buffer", "{} equilibrium frames of padding with capacity {}", padding, cap);
            }
            if padding > 0 {
                bump(&PADDED);
            }
            bump(&EVALS);
        }
    }
    true
}

/// Iterator protocol of the batch iterator `next_frames()`: nth / fold / count / last / skip /
/// step_by / size_hint against plain next(), from every (capacity, start, prefill) state, after
/// `lead` frames were taken with next() (so the batch is partly consumed and may straddle the end
/// of the storage). Every instance is a fresh, leaked Buffered (native stages only).
fn batch_iterator_conformance(rep: &mut Report, seed: u64, max_cap: usize, scripts: usize) {
    let mut n = 0u64;
    for cap in 1..=max_cap {
        for start in 0..cap {
            for pre in 0..=cap {
                for lead in 0..=cap {
                    for len in [0u64, cap as u64 + 1, 3 * cap as u64] {
                        let mk = || {
                            let mut data = vec![-9999.0f64; cap];
                            for k in 0..pre {
                                data[(start + k) % cap] = -((k + 1) as f64);
                            }
                            let src = USource::generated(src_frame, len, Probe::new());
                            let b = Box::leak(Box::new(src.buffered(Bounded::from_raw_parts(start, pre, data))));
                            for _ in 0..lead {
                                b.next();
                            }
                            b.next_frames()
                        };
                        let cs = format!("iterconf=1;cap={};start={};pre={};lead={};len={}", cap, start, pre, lead, len);
                        let mut rng = Rng::derive(seed, &[141, (cap * 1000 + start * 100 + pre * 10 + lead) as u64, len]);
                        n += checks::iterconf::check_iter("buffered_next_frames", &cs, mk, rep, &mut rng, scripts);
                    }
                }
                rep.nontrivial(vmon::hash_combine(0x6263, (cap * 100 + start * 10 + pre) as u64));
            }
        }
    }
    rep.eval(n);
    rep.hit_n("iterator_conformance_scripts", n);
}

// ------------------------------------------------------------------ a source that is fed later
/// A source over a queue shared with the harness: it is exhausted while the queue is empty and
/// live again once more frames are fed (a channel, a bus output whose sibling runs ahead). Its
/// exhaustion changes BETWEEN calls of the Buffered signal, so whatever Buffered reports must be
/// asked of the source at that moment. Frame ids are unique and increasing.
struct LiveSource {
    q: std::rc::Rc<std::cell::RefCell<VecDeque<f64>>>,
    pulls: std::rc::Rc<Cell<u64>>,
}
impl Signal for LiveSource {
    type Frame = f64;
    fn next(&mut self) -> f64 {
        self.pulls.set(self.pulls.get() + 1);
        self.q.borrow_mut().pop_front().unwrap_or(0.0)
    }
    fn is_exhausted(&self) -> bool {
        self.q.borrow().is_empty()
    }
}
/// ops: 'n' = next(), 'b<j>' = next_frames().take(j), 'f<k>' = feed k more frames to the source
fn run_live(rep: &mut Report, cap: usize, ops: &[(u8, usize)]) -> bool {
    let enc_ops = || ops.iter().map(|(o, k)| format!("{}{}", *o as char, k)).collect::<Vec<_>>().join(".");
    let case = format!("live=1;cap={};ops={}", cap, enc_ops());
    let r = vmon::catch(std::panic::AssertUnwindSafe(|| -> Result<(), (String, String)> {
        let q = std::rc::Rc::new(std::cell::RefCell::new(VecDeque::new()));
        let pulls = std::rc::Rc::new(Cell::new(0u64));
        let mut b = LiveSource { q: q.clone(), pulls: pulls.clone() }.buffered(Bounded::from_raw_parts(ops.len() % cap, 0, vec![-9999.0f64; cap]));
        let (mut msrc, mut mring): (VecDeque<f64>, VecDeque<f64>) = (VecDeque::new(), VecDeque::new());
        let (mut next_id, mut mpulls) = (1.0f64, 0u64);
        for (k, &(op, arg)) in ops.iter().enumerate() {
            let mut refill = |mring: &mut VecDeque<f64>, msrc: &mut VecDeque<f64>, mpulls: &mut u64| {
                for _ in 0..cap {
                    mring.push_back(msrc.pop_front().unwrap_or(0.0));
                    *mpulls += 1;
                }
            };
            match op {
                b'f' => {
                    for _ in 0..arg {
                        q.borrow_mut().push_back(next_id);
                        msrc.push_back(next_id);
                        next_id += 1.0;
                    }
                }
                b'n' => {
                    if mring.is_empty() {
                        refill(&mut mring, &mut msrc, &mut mpulls);
                    }
                    let want = mring.pop_front().unwrap();
                    let got = b.next();
                    if got != want {
                        return Err((format!("buffered|live_source|{}", classify(got, want)), format!("op #{} next() = {}, expected {}", k, got, want)));
                    }
                }
                _ => {
                    if mring.is_empty() {
                        refill(&mut mring, &mut msrc, &mut mpulls);
                    }
                    let want: Vec<f64> = (0..arg.min(mring.len())).map(|_| mring.pop_front().unwrap()).collect();
                    let got: Vec<f64> = b.next_frames().take(arg).collect();
                    if got != want {
                        return Err(("buffered|live_source|batch".into(), format!("op #{} next_frames().take({}) = {:?}, expected {:?}", k, arg, got, want)));
                    }
                }
            }
            bump(&EVALS);
            if pulls.get() != mpulls {
                return Err(("buffered|live_source|pull_count".into(), format!("after op #{} the source was pulled {} times, model {}", k, pulls.get(), mpulls)));
            }
            let want_exh = mring.is_empty() && msrc.is_empty();
            if b.is_exhausted() != want_exh {
                return Err(("buffered|live_source|is_exhausted".into(), format!("after op #{} ({}{}) is_exhausted() = {}, but {} frames are buffered and the source holds {} (exhausted means: nothing buffered AND the source exhausted now)", k, op as char, arg, b.is_exhausted(), mring.len(), msrc.len())));
            }
            if op == b'f' && mring.is_empty() {
                bump(&REVIVED);
            }
        }
        Ok(())
    }));
    match r {
        Ok(Ok(())) => true,
        Ok(Err((sig, d))) => {
            rep.violation(&sig, format!("cap {} ops {}: {}", cap, enc_ops(), d), case);
            false
        }
        Err(m) => {
            rep.violation("buffered|live_source|panic", format!("cap {} ops {}: panicked: {}", cap, enc_ops(), m), case);
            false
        }
    }
}
fn live_histories(rep: &mut Report, seed: u64, n: u64, threads: usize) {
    let reps = vmon::par_for(threads, n, 16, |_| Report::new("C14", "w"), |rep, i| {
        let mut rng = Rng::derive(seed, &[142, i]);
        let cap = 1 + rng.usize_below(6);
        let len = 4 + rng.usize_below(30);
        let ops: Vec<(u8, usize)> = (0..len)
            .map(|_| match rng.below(10) {
                0..=3 => (b'n', 0),
                4..=6 => (b'b', rng.usize_below(cap + 2)),
                _ => (b'f', rng.usize_below(2 * cap + 2)),
            })
            .collect();
        run_live(rep, cap, &ops);
        rep.nontrivial(vmon::hash_combine(cap as u64, vmon::hash_str(&format!("{:?}", ops))));
        flush(rep);
    });
    for r in reps {
        rep.merge(r);
    }
}

/// clone() / clone_from() of a Buffered signal mid-stream
fn clone_conformance(rep: &mut Report, seed: u64) {
    let mut rng = Rng::derive(seed, &[143]);
    let mut n = 0;
    for cap in [1usize, 3, 4] {
        let mk = |v: u64| USource::generated(src_frame, 23, Probe::new()).buffered(Bounded::from_raw_parts((v as usize + 1) % cap, 0, vec![-9999.0f64; cap]));
        let step = |b: &mut dasp_signal::Buffered<USource<f64>, Vec<f64>>, i: u64| {
            let x = if i % 5 == 4 { b.next_frames().take(2).map(|f| f.to_bits()).fold(0u64, |a, f| a.rotate_left(7) ^ f) } else { b.next().to_bits() };
            (x, b.is_exhausted())
        };
        n += checks::cloneconf::check_clone_state("buffered", &format!("clone=1;cap={}", cap), mk, step, rep, &mut rng, 18, 20, 14);
    }
    rep.eval(n);
    rep.hit_n("clone_conformance_scripts", n);
}

/// Capacities n of 2^16 and more in a 32-BIT build - n * n, n * n / 2 ... n * n / 16 pass the
/// machine word there - the counterpart of nothing the 64-bit stages can afford (2^32 frames).
/// A counting source; one `next()` (the refill must pull exactly one buffer's worth), then the
/// rest of the buffer as one batch, then the next refill.
fn large_capacity_refills(rep: &mut Report, shard: u64, nshards: u64, thorough: bool) {
    rep.oblige("refills_of_2_pow_16_frames_and_more_in_a_32_bit_build", 1);
    let caps: &[usize] = if thorough { &[65_537, 92_700, 185_400, 262_147, 131_072] } else { &[65_537, 92_700, 185_400] };
    for (i, &cap) in caps.iter().enumerate() {
        if (i as u64 + 1) % nshards != shard {
            continue;
        }
        let case = format!("largecap={}", cap);
        let pulls = std::rc::Rc::new(Cell::new(0u64));
        let p2 = pulls.clone();
        let res = vmon::catch(std::panic::AssertUnwindSafe(|| -> Result<(), (String, String)> {
            let src = dasp_signal::gen_mut(move || {
                let k = p2.get();
                p2.set(k + 1);
                k as f64 + 1.0
            });
            let mut buf = src.buffered(Bounded::from(vec![0f64; cap]));
            let first = buf.next();
            if first != 1.0 || pulls.get() != cap as u64 {
                return Err(("buffered|large_capacity|refill_not_one_buffer".into(), format!("capacity {}: the first next() returned {} and pulled {} source frames (one buffer's worth is {})", cap, first, pulls.get(), cap)));
            }
            if cap > 100_000 {
                // interpreter time: for the largest capacities only the first refill
                return Ok(());
            }
            let (mut n, mut last, mut ordered) = (0usize, first, true);
            for f in buf.next_frames() {
                ordered &= f == last + 1.0;
                last = f;
                n += 1;
            }
            if n != cap - 1 || !ordered || last != cap as f64 || pulls.get() != cap as u64 {
                return Err(("buffered|large_capacity|batch_wrong".into(), format!("capacity {}: the batch after one next() held {} frames (expected {}), in order: {}, last {}, source pulls {}", cap, n, cap - 1, ordered, last, pulls.get())));
            }
            let again = buf.next();
            if again != cap as f64 + 1.0 || pulls.get() != 2 * cap as u64 {
                return Err(("buffered|large_capacity|second_refill".into(), format!("capacity {}: after the buffer ran empty next() returned {} with {} source pulls in all", cap, again, pulls.get())));
            }
            Ok(())
        }));
        bump(&EVALS);
        match res {
            Ok(Ok(())) => rep.hit("refills_of_2_pow_16_frames_and_more_in_a_32_bit_build"),
            Ok(Err((sig, d))) => rep.violation(&sig, d, case),
            Err(m) => rep.violation("buffered|large_capacity|panic", format!("capacity {}: panicked: {}", cap, m), case),
        }
    }
}

fn classify(got: f64, want: f64) -> &'static str {
    if got == -9999.0 {
        "dead_slot_exposed"
    } else if got < 0.0 && want >= 0.0 {
        "prefill_frame_out_of_place"
    } else if got == 0.0 && want != 0.0 {
        "equilibrium_instead_of_frame"
    } else if got > want && want > 0.0 {
        "source_frame_skipped"
    } else {
        "wrong_frame"
    }
}

fn all_ops(cap: usize) -> Vec<Op> {
    let mut v = vec![Op::Next];
    for j in 0..=cap + 1 {
        v.push(Op::Batch(j));
    }
    v
}

fn enumerate_seqs(alpha: &[Op], len: usize, f: &mut dyn FnMut(&[Op])) {
    fn rec(alpha: &[Op], len: usize, cur: &mut Vec<Op>, f: &mut dyn FnMut(&[Op])) {
        if cur.len() == len {
            f(cur);
            return;
        }
        for &o in alpha {
            cur.push(o);
            rec(alpha, len, cur, f);
            cur.pop();
        }
    }
    let mut cur = Vec::new();
    rec(alpha, len, &mut cur, f);
}

fn flush(rep: &mut Report) {
    rep.eval(EVALS.with(|c| c.replace(0)));
    rep.hit_n("wrapped_prefill", WRAPPED_PREFILL.with(|c| c.replace(0)));
    rep.hit_n("partially_drained_batch", PARTIAL_BATCH.with(|c| c.replace(0)));
    rep.hit_n("drain_ended_with_padding", PADDED.with(|c| c.replace(0)));
    let n = REVIVED.with(|c| c.replace(0));
    if n > 0 {
        rep.hit_n("source_fed_again_after_buffered_ran_dry", n);
    }
}

fn main() {
    let cli = Cli::parse();
    let t0 = Instant::now();
    let mut rep = Report::new("C14", &cli.stage);
    if let Some(cs) = &cli.case {
        let m = vmon::cli::parse_case(cs);
        if m.contains_key("live") {
            let ops: Vec<(u8, usize)> = m["ops"].split('.').filter(|s| !s.is_empty()).map(|s| (s.as_bytes()[0], s[1..].parse().unwrap())).collect();
            run_live(&mut rep, m["cap"].parse().unwrap(), &ops);
            flush(&mut rep);
            finish(&cli, rep, t0);
        }
        if m.contains_key("largecap") {
            large_capacity_refills(&mut rep, 0, 1, true);
            flush(&mut rep);
            finish(&cli, rep, t0);
        }
        if m.contains_key("iterconf") {
            batch_iterator_conformance(&mut rep, cli.seed, m["cap"].parse::<usize>().unwrap().max(1), 60);
            flush(&mut rep);
            finish(&cli, rep, t0);
        }
        run_case(&mut rep, m["cap"].parse().unwrap(), m["start"].parse().unwrap(), m["pre"].parse().unwrap(), m["len"].parse().unwrap(), &dec(&m["ops"]), m["fin"].parse().unwrap(), false);
        flush(&mut rep);
        finish(&cli, rep, t0);
    }
    for o in ["wrapped_prefill", "partially_drained_batch", "drain_ended_with_padding"] {
        rep.oblige(o, 1);
    }
    if cli.stage == "miri" && usize::BITS < 64 {
        large_capacity_refills(&mut rep, cli.shard, cli.nshards, cli.thorough());
        flush(&mut rep);
    }
    let lean = cli.stage == "miri";
    let (max_cap, seq_len, max_src) = match cli.stage.as_str() {
        "miri" => (3usize, cli.get_u64("seq", 2) as usize, 4u64),
        "asan" => (4, 3, 9),
        _ => (5, cli.t(4, 6), 12),
    };
    // job = (cap, start, pre)
    let mut states = Vec::new();
    for cap in 1..=max_cap {
        for start in 0..cap {
            for pre in 0..=cap {
                states.push((cap, start, pre));
            }
        }
    }
    // Batch-only histories first: next_frames() always returns (possibly an empty batch), whereas
    // next() on a buffer that never refills would spin for ever. Whatever these observe is on
    // record (violation side-car) before any history that could hang is started.
    if cli.shard == 0 {
        for &(cap, start, pre) in &states {
            for len in [0u64, 1, cap as u64, 2 * cap as u64 + 1] {
                let ops = [Op::Batch(cap + 1), Op::Batch(1), Op::Batch(cap + 1), Op::Batch(0), Op::Batch(cap)];
                run_case(&mut rep, cap, start, pre, len, &ops, 0, lean);
            }
        }
        flush(&mut rep);
    }
    let (shard, nshards) = (cli.shard, cli.nshards);
    let reps = vmon::par_for(if lean { 1 } else { cli.threads }, states.len() as u64, 1, |_| Report::new("C14", "w"), |rep, si| {
        let (cap, start, pre) = states[si as usize];
        let alpha = all_ops(cap);
        let mut item = 0u64;
        for len in 0..=max_src {
            enumerate_seqs(&alpha, seq_len, &mut |ops| {
                item += 1;
                if item % nshards != shard {
                    return;
                }
                run_case(rep, cap, start, pre, len, ops, (item % 2) as u8, lean);
                if !lean && (start != 0 || pre != 0) {
                    rep.nontrivial(vmon::hash_combine((cap * 100 + start * 10 + pre) as u64 * 64 + len, vmon::hash_str(&enc(ops))));
                }
            });
        }
        flush(rep);
    });
    for r in reps {
        rep.merge(r);
    }
    if cli.stage == "main" || cli.stage == "release" {
        rep.oblige("clone_conformance_scripts", 1);
        clone_conformance(&mut rep, cli.seed);
        rep.oblige("source_fed_again_after_buffered_ran_dry", 1);
        live_histories(&mut rep, cli.seed, cli.t(3_000, 300_000), cli.threads);
        rep.oblige("iterator_conformance_scripts", 1);
        batch_iterator_conformance(&mut rep, cli.seed, cli.t(4, 6), cli.t(8, 40));
        rep.exhaustive(format!("capacities 1..={} x every (start, prefill length) x source lengths 0..={} x every sequence of {} operations from {{next, next_frames().take(j) for j in 0..=cap+1}}, finishing alternately with into_parts and until_exhausted", max_cap, max_src, seq_len));
        // random longer histories, larger capacities
        let n_rand = cli.t(3_000u64, 3_000_000u64);
        let reps = vmon::par_for(cli.threads, n_rand, 16, |_| Report::new("C14", "w"), |rep, i| {
            let mut rng = Rng::derive(cli.seed, &[14, i]);
            let cap = 1 + rng.usize_below(40);
            let start = rng.usize_below(cap);
            let pre = rng.usize_below(cap + 1);
            let len = rng.below(300);
            let n = 5 + rng.usize_below(60);
            let ops: Vec<Op> = (0..n).map(|_| if rng.chance(3, 5) { Op::Next } else { Op::Batch(rng.usize_below(cap + 2)) }).collect();
            run_case(rep, cap, start, pre, len, &ops, (i % 2) as u8, false);
            rep.nontrivial(vmon::hash_combine((cap * 10_000 + start * 100 + pre) as u64 ^ (len << 32), vmon::hash_str(&enc(&ops))));
            if rep.want_sample() && i % 101 == 0 {
                rep.sample(J::obj().set("cap", J::u(cap as u64)).set("start", J::u(start as u64)).set("prefill", J::u(pre as u64)).set("source_len", J::u(len)).set("ops", J::s(enc(&ops[..ops.len().min(30)]))));
            }
            flush(rep);
        });
        for r in reps {
            rep.merge(r);
        }
    }
    flush(&mut rep);
    finish(&cli, rep, t0);
}
