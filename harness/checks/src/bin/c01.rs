//! C01 — integer<->integer sample conversion is exact power-of-two amplitude rescaling.
//!
//! Oracle: vmon::spec::int_to_int (i128 shifts on the signed amplitude), compared with the real
//! conversion through all three public routes, for every value of every <=24-bit source format
//! (quick) / <=32-bit (thorough), and a structured + stratified-random set for 48/64-bit sources.
//! Derived laws are evaluated on the real functions only: narrow(widen(v)) == v, and
//! A->M->B == A->B for every admissible intermediate M.

use checks::*;
use dasp_sample::{FromSample, Sample, I24, I48, U24, U48};
use std::time::Instant;
use vmon::spec::{self, IntFmt, INT_FMTS};
use vmon::{Cli, Report, Rng, J};

include!("../gen/int_pairs.rs");

/// one ordered pair of formats, type-erased
trait PairJob: Sync {
    fn src(&self) -> IntFmt;
    fn dst(&self) -> IntFmt;
    /// real conversion of one raw value (route 3: the conv:: function), raw in / raw out
    fn convert(&self, raw: i128) -> i128;
    /// check raw values lo..=hi of the source format against the spec (all three routes)
    fn check_range(&self, lo: i128, hi: i128, rep: &mut Report);
    fn check_list(&self, vals: &[i128], rep: &mut Report);
}

struct P<S, D> {
    conv: fn(S) -> D,
}

impl<S, D> P<S, D>
where
    S: IntS,
    <S as Sample>::Signed: 'static,
    D: IntS + FromSample<S>,
{
    #[inline]
    fn check_one(&self, raw: i128, rep: &mut Report) {
        let s = S::from_raw(raw);
        let want = spec::int_to_int(S::FMT, D::FMT, raw);
        let g1: D = s.to_sample::<D>();
        let g2: D = D::from_sample(s);
        let g3: D = (self.conv)(s);
        let (r1, r2, r3) = (g1.raw(), g2.raw(), g3.raw());
        // route 4, where the destination is the source's associated `Signed` format: the
        // `to_signed_sample` method (a provided trait method that an impl may override)
        if std::any::TypeId::of::<D>() == std::any::TypeId::of::<<S as Sample>::Signed>() {
            let g4 = s.to_signed_sample();
            let r4 = (&g4 as &dyn std::any::Any).downcast_ref::<D>().map(|d| d.raw()).unwrap_or(want);
            if r4 != want {
                rep.violation(
                    &format!("conv|{}->{}|to_signed_sample_route", S::FMT.name, D::FMT.name),
                    format!("{}({}).to_signed_sample() = {} but to_sample/from_sample/conv give {} (spec {})", S::FMT.name, raw, r4, r1, want),
                    format!("src={};dst={};v={}", S::FMT.name, D::FMT.name, raw),
                );
            }
        }
        if r1 != want || r2 != want || r3 != want {
            let class = if !D::FMT.in_range(r1) || !D::FMT.in_range(r3) {
                "out_of_range"
            } else if S::FMT.amp(raw) < 0 {
                "wrong_value_negative_amplitude"
            } else {
                "wrong_value_nonnegative_amplitude"
            };
            rep.violation(
                &format!("conv|{}->{}|{}", S::FMT.name, D::FMT.name, class),
                format!(
                    "{}({}) -> {}: to_sample={} from_sample={} conv::fn={} spec={}",
                    S::FMT.name, raw, D::FMT.name, r1, r2, r3, want
                ),
                format!("src={};dst={};v={}", S::FMT.name, D::FMT.name, raw),
            );
        }
    }
    fn locate_panic(&self, vals: impl Iterator<Item = i128>, rep: &mut Report) {
        for raw in vals {
            let mut tmp = Report::new("C01", "tmp");
            if let Err(msg) = vmon::catch(|| self.check_one(raw, &mut tmp)) {
                rep.violation(
                    &format!("conv|{}->{}|panic", S::FMT.name, D::FMT.name),
                    format!("{}({}) -> {} panicked: {}", S::FMT.name, raw, D::FMT.name, msg),
                    format!("src={};dst={};v={}", S::FMT.name, D::FMT.name, raw),
                );
                return;
            }
            rep.merge(tmp);
        }
    }
}

impl<S, D> PairJob for P<S, D>
where
    S: IntS,
    <S as Sample>::Signed: 'static,
    D: IntS + FromSample<S>,
{
    fn src(&self) -> IntFmt {
        S::FMT
    }
    fn dst(&self) -> IntFmt {
        D::FMT
    }
    fn convert(&self, raw: i128) -> i128 {
        (self.conv)(S::from_raw(raw)).raw()
    }
    fn check_range(&self, lo: i128, hi: i128, rep: &mut Report) {
        let mut tmp = Report::new("C01", "tmp");
        let r = vmon::catch(|| {
            let mut raw = lo;
            while raw <= hi {
                self.check_one(raw, &mut tmp);
                raw += 1;
            }
        });
        match r {
            Ok(()) => rep.merge(tmp),
            Err(_) => self.locate_panic(lo..=hi, rep),
        }
        rep.eval((hi - lo + 1) as u64);
    }
    fn check_list(&self, vals: &[i128], rep: &mut Report) {
        let mut tmp = Report::new("C01", "tmp");
        let r = vmon::catch(|| {
            for &raw in vals {
                self.check_one(raw, &mut tmp);
            }
        });
        match r {
            Ok(()) => rep.merge(tmp),
            Err(_) => self.locate_panic(vals.iter().copied(), rep),
        }
        rep.eval(vals.len() as u64);
    }
}

fn all_pairs() -> Vec<Box<dyn PairJob>> {
    let mut v: Vec<Box<dyn PairJob>> = Vec::new();
    macro_rules! add {
        ($S:ty, $D:ty, $f:path) => {
            v.push(Box::new(P::<$S, $D> { conv: $f }));
        };
    }
    for_int_pairs!(add);
    v
}

fn fmt_index(f: IntFmt) -> usize {
    INT_FMTS.iter().position(|x| *x == f).unwrap()
}

/// stratified random raw value number `i` of `n` for format f (distinct for distinct i)
fn stratified(f: IntFmt, i: u64, n: u64, rng: &mut Rng) -> i128 {
    let total: u128 = 1u128 << f.bits;
    let width = total / n as u128; // n <= 2^32 << total
    let off = (rng.u64() as u128) % width;
    f.min() + (i as u128 * width + off) as i128
}

fn main() {
    let cli = Cli::parse();
    let t0 = Instant::now();
    let mut rep = Report::new("C01", &cli.stage);
    let pairs = all_pairs();
    assert_eq!(pairs.len(), 132);

    if let Some(case) = &cli.case {
        // replay one recorded case verbosely
        let m = vmon::cli::parse_case(case);
        let v: i128 = m["v"].parse().unwrap();
        for p in &pairs {
            if p.src().name == m["src"] && p.dst().name == m["dst"] {
                p.check_list(&[v], &mut rep);
                eprintln!("replay {}: real={} spec={}", case, p.convert(v), spec::int_to_int(p.src(), p.dst(), v));
            }
        }
        finish(&cli, rep, t0);
    }

    if cli.stage == "miri32" {
        // A 32-BIT build of dasp, executed by the interpreter (usize is 32 bits wide, code under
        // cfg(target_pointer_width = "32") exists). Interpreter-sized: per pair the structured
        // boundary values thinned to ~60 plus 40 random ones, pairs dealt to the shards.
        rep.note(format!("usize::BITS = {} in this stage", usize::BITS));
        if usize::BITS == 32 {
            rep.hit("ran_with_32_bit_usize");
        }
        rep.oblige("ran_with_32_bit_usize", 1);
        for (pi, p) in pairs.iter().enumerate() {
            if pi as u64 % cli.nshards != cli.shard {
                continue;
            }
            let all = spec::structured_values(p.src(), 2, 1);
            let step = (all.len() / cli.t(60usize, 400usize)).max(1);
            let mut vals: Vec<i128> = all.into_iter().step_by(step).collect();
            let mut rng = Rng::derive(cli.seed, &[32, pi as u64]);
            for _ in 0..cli.t(40, 400) {
                vals.push(rng.range_i128(p.src().min(), p.src().max()));
            }
            p.check_list(&vals, &mut rep);
            rep.hit("pairs_exercised");
        }
        finish(&cli, rep, t0);
    }
    let release_stage = cli.stage.starts_with("release");
    let exhaustive_bits: u32 = if release_stage { 16 } else { cli.t(24, 32) };
    let n_random: u64 = if release_stage { 200_000 } else { cli.t(1_000_000, 40_000_000) };

    // ---- job list: (pair, kind, chunk)
    #[derive(Clone, Copy)]
    enum Job {
        Range(usize, i128, i128),
        Structured(usize),
        Random(usize, u64, u64), // pair, first stratum, count
    }
    let mut jobs: Vec<Job> = Vec::new();
    const CHUNK: i128 = 1 << 18;
    for (pi, p) in pairs.iter().enumerate() {
        let s = p.src();
        if s.bits <= exhaustive_bits {
            let mut lo = s.min();
            while lo <= s.max() {
                let hi = (lo + CHUNK - 1).min(s.max());
                jobs.push(Job::Range(pi, lo, hi));
                lo = hi + 1;
            }
        } else {
            jobs.push(Job::Structured(pi));
            let per = 1u64 << 18;
            let mut first = 0;
            while first < n_random {
                let cnt = per.min(n_random - first);
                jobs.push(Job::Random(pi, first, cnt));
                first += cnt;
            }
        }
    }
    let seed = cli.seed;
    let dict = vmon::dict::harvest("/repo", &["dasp_sample"]);
    rep.oblige("source_literals_harvested", 10);
    rep.hit_n("source_literals_harvested", dict.ints.len() as u64);
    rep.note(format!("input dictionary: {} integer and {} float literals harvested from {} source files of dasp_sample", dict.ints.len(), dict.floats.len(), dict.files));
    let reps = vmon::par_for(
        cli.threads,
        jobs.len() as u64,
        1,
        |_| Report::new("C01", "worker"),
        |rep, ji| match jobs[ji as usize] {
            Job::Range(pi, lo, hi) => {
                let p = &pairs[pi];
                p.check_range(lo, hi, rep);
                let s = p.src();
                let mut n = (hi - lo + 1) as u64;
                for t in [s.min(), s.max(), s.equilibrium()] {
                    if t >= lo && t <= hi {
                        n -= 1;
                    }
                }
                rep.nontrivial_by_construction(n);
                rep.count("exhaustive_values", (hi - lo + 1) as u64);
            }
            Job::Structured(pi) => {
                let p = &pairs[pi];
                let mut vals = spec::structured_values(p.src(), 4096, 64);
                // every numeric literal of the crate's own source (and its neighbours / re-based
                // twins) as an input: a special case keyed on one magic value is spelled out there
                let dv = dict.ints_for(p.src().min(), p.src().max(), p.src().bits);
                rep.count("dictionary_values", dv.len() as u64);
                vals.extend(dv);
                p.check_list(&vals, rep);
                rep.count("structured_values", vals.len() as u64);
                if rep.want_sample() {
                    let v = vals[vals.len() / 3];
                    rep.sample(J::obj().set("src", J::s(p.src().name)).set("dst", J::s(p.dst().name)).set("value", J::i(v)).set("real", J::i(p.convert(v))).set("spec", J::i(spec::int_to_int(p.src(), p.dst(), v))));
                }
            }
            Job::Random(pi, first, cnt) => {
                let p = &pairs[pi];
                let mut rng = Rng::derive(seed, &[1, pi as u64, first]);
                let mut vals = Vec::with_capacity(cnt as usize);
                for i in first..first + cnt {
                    vals.push(stratified(p.src(), i, n_random, &mut rng));
                }
                p.check_list(&vals, rep);
                // distinct by construction (one value per stratum); subtract 3 conservatively per
                // job for possible hits on MIN/eq/MAX
                rep.nontrivial_by_construction(cnt.saturating_sub(3));
                rep.count("stratified_random_values", cnt);
            }
        },
    );
    for r in reps {
        rep.merge(r);
    }

    // per-pair obligations: each pair exercised with negative and non-negative amplitudes
    rep.oblige("pairs_exercised", 132);
    rep.hit_n("pairs_exercised", pairs.len() as u64);

    // ---- derived laws on the real functions: roundtrip and composition through intermediates
    let mut table: Vec<Vec<Option<&dyn PairJob>>> = vec![vec![None; 12]; 12];
    for p in &pairs {
        table[fmt_index(p.src())][fmt_index(p.dst())] = Some(p.as_ref());
    }
    let conv = |a: usize, b: usize, raw: i128| -> i128 {
        if a == b {
            raw
        } else {
            table[a][b].unwrap().convert(raw)
        }
    };
    rep.oblige("composition_triples", 1320);
    rep.oblige("roundtrip_pairs", 66);
    let n_law_random = cli.t(2_000u64, 50_000u64);
    let mut law_rng = Rng::derive(seed, &[2]);
    for a in 0..12 {
        let fa = INT_FMTS[a];
        let mut vals = spec::structured_values(fa, 64, 4);
        for _ in 0..n_law_random {
            vals.push(law_rng.range_i128(fa.min(), fa.max()));
        }
        for b in 0..12 {
            if a == b {
                continue;
            }
            let fb = INT_FMTS[b];
            // widening then narrowing back is the identity
            if fb.bits >= fa.bits {
                rep.hit("roundtrip_pairs");
                let r = vmon::catch(|| {
                    for &v in &vals {
                        let back = conv(b, a, conv(a, b, v));
                        if back != v {
                            return Some((v, back));
                        }
                    }
                    None
                });
                rep.eval(vals.len() as u64);
                match r {
                    Ok(None) => {}
                    Ok(Some((v, back))) => rep.violation(
                        &format!("roundtrip|{}->{}->{}", fa.name, fb.name, fa.name),
                        format!("{}({}) -> {} -> {} gives {}", fa.name, v, fb.name, fa.name, back),
                        format!("src={};dst={};v={}", fa.name, fb.name, v),
                    ),
                    Err(m) => rep.violation(&format!("roundtrip|{}->{}|panic", fa.name, fb.name), m, format!("src={};dst={};v=0", fa.name, fb.name)),
                }
            }
            for mi in 0..12 {
                let fm = INT_FMTS[mi];
                if mi == a || mi == b || fm.bits < fa.bits.min(fb.bits) {
                    continue;
                }
                rep.hit("composition_triples");
                let r = vmon::catch(|| {
                    for &v in &vals {
                        let direct = conv(a, b, v);
                        let via = conv(mi, b, conv(a, mi, v));
                        if direct != via {
                            return Some((v, direct, via));
                        }
                    }
                    None
                });
                rep.eval(vals.len() as u64);
                match r {
                    Ok(None) => {}
                    Ok(Some((v, direct, via))) => rep.violation(
                        &format!("composition|{}->{}->{}", fa.name, fm.name, fb.name),
                        format!("{}({}) -> {} directly = {}, via {} = {}", fa.name, v, fb.name, direct, fm.name, via),
                        format!("src={};dst={};v={}", fa.name, fb.name, v),
                    ),
                    Err(m) => rep.violation(&format!("composition|{}->{}->{}|panic", fa.name, fm.name, fb.name), m, format!("src={};dst={};v=0", fa.name, fb.name)),
                }
            }
        }
    }
    // the composition obligation counts admissible triples only; recompute the true number
    let mut admissible = 0;
    let mut widen = 0;
    for a in 0..12 {
        for b in 0..12 {
            if a == b {
                continue;
            }
            if INT_FMTS[b].bits >= INT_FMTS[a].bits {
                widen += 1;
            }
            for m in 0..12 {
                if m != a && m != b && INT_FMTS[m].bits >= INT_FMTS[a].bits.min(INT_FMTS[b].bits) {
                    admissible += 1;
                }
            }
        }
    }
    rep.obligations.insert("composition_triples".into(), (rep.obligations["composition_triples"].0, admissible));
    rep.obligations.insert("roundtrip_pairs".into(), (rep.obligations["roundtrip_pairs"].0, widen));

    for f in INT_FMTS {
        if f.bits <= exhaustive_bits {
            rep.exhaustive(format!("every value of source format {} x 11 destination formats x 3 call routes", f.name));
        }
    }
    rep.note(format!(
        "profile: debug_assertions={} ; sources wider than {} bits use structured (boundary) values + {} stratified random values per pair",
        cfg!(debug_assertions), exhaustive_bits, n_random
    ));
    finish(&cli, rep, t0);
}
