//! C02 — float<->integer conversion is exact scaling / truncation; f32<->f64.
//!
//! int->float oracle: correctly rounded (RNE) quotient amp / 2^(bits-1) computed from the integer
//! (vmon::spec::rne), compared bit-for-bit. float->int oracle: the float decomposed into
//! (sign, mantissa, exponent), trunc(s * 2^(bits-1)) computed exactly in i128.
//! Inputs outside the documented domain [-1, 1), NaN and infinities are never fed to float->int.

use checks::*;
use dasp_sample::{FromSample, Sample, I24, I48, U24, U48};
use std::time::Instant;
use vmon::spec::{self, IntFmt};
use vmon::{Cli, Report, Rng, J};

include!("../gen/float_pairs.rs");

trait FloatS: Sample + Copy + std::fmt::Debug + Send + Sync + 'static {
    const NAME: &'static str;
    const IS32: bool;
    fn spec_from_int(f: IntFmt, raw: i128) -> Self;
    fn bits64(self) -> u64;
    fn decomp(self) -> (bool, u128, i32);
    fn as_f64(self) -> f64;
    fn from_f64_lossy(x: f64) -> Self;
}
impl FloatS for f32 {
    const NAME: &'static str = "f32";
    const IS32: bool = true;
    fn spec_from_int(f: IntFmt, raw: i128) -> f32 {
        spec::int_to_f32(f, raw)
    }
    fn bits64(self) -> u64 {
        self.to_bits() as u64
    }
    fn decomp(self) -> (bool, u128, i32) {
        spec::decompose_f32(self)
    }
    fn as_f64(self) -> f64 {
        self as f64
    }
    fn from_f64_lossy(x: f64) -> f32 {
        x as f32
    }
}
impl FloatS for f64 {
    const NAME: &'static str = "f64";
    const IS32: bool = false;
    fn spec_from_int(f: IntFmt, raw: i128) -> f64 {
        spec::int_to_f64(f, raw)
    }
    fn bits64(self) -> u64 {
        self.to_bits()
    }
    fn decomp(self) -> (bool, u128, i32) {
        spec::decompose_f64(self)
    }
    fn as_f64(self) -> f64 {
        self
    }
    fn from_f64_lossy(x: f64) -> f64 {
        x
    }
}

// ------------------------------------------------------------------ int -> float
trait I2F: Sync {
    fn src(&self) -> IntFmt;
    fn dst(&self) -> &'static str;
    fn check_range(&self, lo: i128, hi: i128, rep: &mut Report);
    fn check_list(&self, vals: &[i128], rep: &mut Report);
    fn sample(&self, raw: i128) -> J;
}
struct PI2F<S, D> {
    conv: fn(S) -> D,
}
impl<S, D> PI2F<S, D>
where
    S: IntS + FromSample<D>,
    <S as Sample>::Float: 'static,
    D: FloatS + FromSample<S>,
{
    #[inline]
    fn one(&self, raw: i128, rep: &mut Report) {
        let s = S::from_raw(raw);
        let want = D::spec_from_int(S::FMT, raw);
        let g1: D = s.to_sample::<D>();
        let g2: D = D::from_sample(s);
        let g3: D = (self.conv)(s);
        let w = want.bits64();
        // route 4, where the destination is the source's associated `Float` format: the
        // `to_float_sample` method (a provided trait method that an impl may override)
        if std::any::TypeId::of::<D>() == std::any::TypeId::of::<<S as Sample>::Float>() {
            let g4 = s.to_float_sample();
            let b4 = (&g4 as &dyn std::any::Any).downcast_ref::<D>().map(|d| d.bits64()).unwrap_or(w);
            if b4 != w {
                rep.violation(
                    &format!("i2f|{}->{}|to_float_sample_route", S::FMT.name, D::NAME),
                    format!("{}({}).to_float_sample() has bits {:x} but the spec (and the other routes: {:x}) is {:x}", S::FMT.name, raw, b4, g1.bits64(), w),
                    format!("dir=i2f;src={};dst={};v={}", S::FMT.name, D::NAME, raw),
                );
            }
        }
        if g1.bits64() != w || g2.bits64() != w || g3.bits64() != w {
            let a = g1.as_f64();
            let class = if !(a >= -1.0 && a <= 1.0) { "outside_unit_interval" } else { "not_correctly_rounded" };
            rep.violation(
                &format!("i2f|{}->{}|{}", S::FMT.name, D::NAME, class),
                format!("{}({}) -> {}: to_sample={:e} from_sample={:e} conv::fn={:e} spec={:e} (bits {:x} vs {:x})", S::FMT.name, raw, D::NAME, g1.as_f64(), g2.as_f64(), g3.as_f64(), want.as_f64(), g1.bits64(), w),
                format!("dir=i2f;src={};dst={};v={}", S::FMT.name, D::NAME, raw),
            );
        }
        // exact inverse wherever the first leg was exact (integer width fits the mantissa)
        let exact = if D::IS32 { S::FMT.bits <= 24 } else { S::FMT.bits <= 53 };
        if exact {
            let back: S = g1.to_sample::<S>();
            if back.raw() != raw {
                rep.violation(
                    &format!("roundtrip|{}->{}->{}", S::FMT.name, D::NAME, S::FMT.name),
                    format!("{}({}) -> {} = {:e} -> {} = {}", S::FMT.name, raw, D::NAME, g1.as_f64(), S::FMT.name, back.raw()),
                    format!("dir=i2f;src={};dst={};v={}", S::FMT.name, D::NAME, raw),
                );
            }
        }
    }
    fn locate_panic(&self, vals: impl Iterator<Item = i128>, rep: &mut Report) {
        for raw in vals {
            let mut tmp = Report::new("C02", "tmp");
            if let Err(msg) = vmon::catch(|| self.one(raw, &mut tmp)) {
                rep.violation(
                    &format!("i2f|{}->{}|panic", S::FMT.name, D::NAME),
                    format!("{}({}) -> {} panicked: {}", S::FMT.name, raw, D::NAME, msg),
                    format!("dir=i2f;src={};dst={};v={}", S::FMT.name, D::NAME, raw),
                );
                return;
            }
            rep.merge(tmp);
        }
    }
}
impl<S, D> I2F for PI2F<S, D>
where
    S: IntS + FromSample<D>,
    <S as Sample>::Float: 'static,
    D: FloatS + FromSample<S>,
{
    fn src(&self) -> IntFmt {
        S::FMT
    }
    fn dst(&self) -> &'static str {
        D::NAME
    }
    fn check_range(&self, lo: i128, hi: i128, rep: &mut Report) {
        let mut tmp = Report::new("C02", "tmp");
        let r = vmon::catch(|| {
            let mut raw = lo;
            while raw <= hi {
                self.one(raw, &mut tmp);
                raw += 1;
            }
        });
        match r {
            Ok(()) => rep.merge(tmp),
            Err(_) => self.locate_panic(lo..=hi, rep),
        }
        rep.eval((hi - lo + 1) as u64);
    }
    fn check_list(&self, vals: &[i128], rep: &mut Report) {
        let mut tmp = Report::new("C02", "tmp");
        let r = vmon::catch(|| {
            for &raw in vals {
                self.one(raw, &mut tmp);
            }
        });
        match r {
            Ok(()) => rep.merge(tmp),
            Err(_) => self.locate_panic(vals.iter().copied(), rep),
        }
        rep.eval(vals.len() as u64);
    }
    fn sample(&self, raw: i128) -> J {
        let g = (self.conv)(S::from_raw(raw));
        J::obj().set("dir", J::s("int->float")).set("src", J::s(S::FMT.name)).set("dst", J::s(D::NAME)).set("value", J::i(raw)).set("real", J::f(g.as_f64())).set("spec", J::f(D::spec_from_int(S::FMT, raw).as_f64()))
    }
}

// ------------------------------------------------------------------ float -> int
trait F2I: Sync {
    fn src(&self) -> &'static str;
    fn dst(&self) -> IntFmt;
    /// all f32 bit patterns lo..=hi (only for f32 sources)
    fn check_bits32(&self, lo: u32, hi: u32, rep: &mut Report);
    /// list of f64 values (converted to the source format first; must be exactly representable)
    fn check_list(&self, vals: &[f64], rep: &mut Report);
    fn sample(&self, x: f64) -> J;
}
struct PF2I<S, D> {
    conv: fn(S) -> D,
}
impl<S, D> PF2I<S, D>
where
    S: FloatS,
    D: IntS + FromSample<S>,
{
    #[inline]
    fn one(&self, s: S, rep: &mut Report) {
        let (neg, m, e) = s.decomp();
        let want = match spec::float_to_int(D::FMT, neg, m, e) {
            Some(w) => w,
            None => {
                rep.count("skipped_out_of_domain", 1);
                return;
            }
        };
        let g1: D = s.to_sample::<D>();
        let g2: D = D::from_sample(s);
        let g3: D = (self.conv)(s);
        if g1.raw() != want || g2.raw() != want || g3.raw() != want {
            let class = if !D::FMT.in_range(g1.raw()) { "out_of_range" } else { "not_truncated_scaling" };
            rep.violation(
                &format!("f2i|{}->{}|{}", S::NAME, D::FMT.name, class),
                format!("{}({:e}, bits {:x}) -> {}: to_sample={} from_sample={} conv::fn={} spec={}", S::NAME, s.as_f64(), s.bits64(), D::FMT.name, g1.raw(), g2.raw(), g3.raw(), want),
                format!("dir=f2i;src={};dst={};bits={}", S::NAME, D::FMT.name, s.bits64()),
            );
        }
    }
    fn locate_panic(&self, vals: impl Iterator<Item = S>, rep: &mut Report) {
        for s in vals {
            let mut tmp = Report::new("C02", "tmp");
            if let Err(msg) = vmon::catch(|| self.one(s, &mut tmp)) {
                rep.violation(
                    &format!("f2i|{}->{}|panic", S::NAME, D::FMT.name),
                    format!("{}({:e}) -> {} panicked: {}", S::NAME, s.as_f64(), D::FMT.name, msg),
                    format!("dir=f2i;src={};dst={};bits={}", S::NAME, D::FMT.name, s.bits64()),
                );
                return;
            }
            rep.merge(tmp);
        }
    }
}
impl<S, D> F2I for PF2I<S, D>
where
    S: FloatS,
    D: IntS + FromSample<S>,
{
    fn src(&self) -> &'static str {
        S::NAME
    }
    fn dst(&self) -> IntFmt {
        D::FMT
    }
    fn check_bits32(&self, lo: u32, hi: u32, rep: &mut Report) {
        assert!(S::IS32);
        let mk = |b: u32| S::from_f64_lossy(f32::from_bits(b) as f64);
        let mut tmp = Report::new("C02", "tmp");
        let r = vmon::catch(|| {
            let mut b = lo;
            loop {
                self.one(mk(b), &mut tmp);
                if b == hi {
                    break;
                }
                b += 1;
            }
        });
        match r {
            Ok(()) => rep.merge(tmp),
            Err(_) => self.locate_panic((lo..=hi).map(mk), rep),
        }
        rep.eval((hi - lo) as u64 + 1);
    }
    fn check_list(&self, vals: &[f64], rep: &mut Report) {
        let mut tmp = Report::new("C02", "tmp");
        let r = vmon::catch(|| {
            for &x in vals {
                self.one(S::from_f64_lossy(x), &mut tmp);
            }
        });
        match r {
            Ok(()) => rep.merge(tmp),
            Err(_) => self.locate_panic(vals.iter().map(|&x| S::from_f64_lossy(x)), rep),
        }
        rep.eval(vals.len() as u64);
    }
    fn sample(&self, x: f64) -> J {
        let s = S::from_f64_lossy(x);
        let (neg, m, e) = s.decomp();
        J::obj().set("dir", J::s("float->int")).set("src", J::s(S::NAME)).set("dst", J::s(D::FMT.name)).set("value", J::f(s.as_f64())).set("real", J::i((self.conv)(s).raw())).set("spec", J::i(spec::float_to_int(D::FMT, neg, m, e).unwrap_or(i128::MIN)))
    }
}

/// f32 bit patterns of the documented domain [-1, 1): positives 0..0x3f80_0000 (exclusive) and
/// negatives 0x8000_0000..=0xbf80_0000.
const POS_LO: u32 = 0;
const POS_HI: u32 = 0x3f80_0000 - 1;
const NEG_LO: u32 = 0x8000_0000;
const NEG_HI: u32 = 0xbf80_0000;

/// structured f32 values in [-1,1): every exponent, mantissas with <= 3 set bits, both signs
fn structured_f32() -> Vec<f32> {
    let mut mants: Vec<u32> = vec![0];
    for a in 0..23 {
        mants.push(1 << a);
        for b in 0..a {
            mants.push(1 << a | 1 << b);
            for c in 0..b {
                mants.push(1 << a | 1 << b | 1 << c);
            }
        }
    }
    // also all-ones style mantissas (just below the next power of two)
    for k in 1..=23 {
        mants.push((1u32 << 23) - (1 << (23 - k)));
        mants.push((1u32 << 23) - 1 - ((1 << (23 - k)) - 1).min((1 << 23) - 1));
    }
    let mut v = Vec::new();
    for e in 0u32..=126 {
        for &m in &mants {
            let b = e << 23 | (m & 0x7f_ffff);
            v.push(f32::from_bits(b));
            v.push(f32::from_bits(b | 0x8000_0000));
        }
    }
    v.push(-1.0);
    v.retain(|x| *x >= -1.0 && *x < 1.0);
    v
}

/// structured f64 values in [-1,1) aimed at the truncation boundaries of a `bits`-bit target
fn structured_f64(bits: u32, rng: &mut Rng, n_random: usize) -> Vec<f64> {
    let mut v: Vec<f64> = Vec::new();
    let scale = spec::pow2(-(bits as i32 - 1));
    let ulps = |x: f64, d: i64| f64::from_bits((x.to_bits() as i64 + d) as u64);
    // neighbours of k * 2^-(bits-1)
    let ks: Vec<i128> = {
        let mut ks: Vec<i128> = (-40..=40).collect();
        let half = 1i128 << (bits - 1);
        for d in 0..=8 {
            ks.push(half - 1 - d);
            ks.push(-half + d);
            ks.push(half / 2 + d);
            ks.push(-half / 2 - d);
            ks.push(half / 3 + d);
        }
        ks
    };
    for k in ks {
        // k * scale is exact when |k| < 2^53
        if k.unsigned_abs() >= (1u128 << 53) {
            // use the nearest representable
        }
        let x = k as f64 * scale;
        for d in -8..=8 {
            v.push(if x == 0.0 { d as f64 * f64::from_bits(1) } else { ulps(x, d) });
        }
    }
    for j in 0..=1074 {
        let p = spec::pow2(-j);
        v.push(p);
        v.push(-p);
        v.push(ulps(p, -1));
        v.push(-ulps(p, -1));
        v.push(ulps(p, 1));
        v.push(-ulps(p, 1));
    }
    v.push(-1.0);
    v.push(0.0);
    v.push(-0.0);
    v.push(ulps(1.0, -1));
    v.push(ulps(1.0, -2));
    // random: uniform in value and uniform in bit pattern
    for i in 0..n_random {
        if i % 2 == 0 {
            v.push(rng.f64_in(-1.0, 1.0));
        } else {
            let b = rng.below(0x3ff0_0000_0000_0000u64);
            let x = f64::from_bits(b);
            v.push(if rng.bool() { x } else { -x });
        }
    }
    v.retain(|x| *x >= -1.0 && *x < 1.0);
    v
}

fn stratified(f: IntFmt, i: u64, n: u64, rng: &mut Rng) -> i128 {
    let total: u128 = 1u128 << f.bits;
    let width = total / n as u128;
    let off = (rng.u64() as u128) % width;
    f.min() + (i as u128 * width + off) as i128
}

fn main() {
    let cli = Cli::parse();
    let t0 = Instant::now();
    let mut rep = Report::new("C02", &cli.stage);
    let seed = cli.seed;

    let mut i2f: Vec<Box<dyn I2F>> = Vec::new();
    macro_rules! add_i2f {
        ($S:ty, $D:ty, $f:path) => {
            i2f.push(Box::new(PI2F::<$S, $D> { conv: $f }));
        };
    }
    for_int_to_float!(add_i2f);
    let mut f2i: Vec<Box<dyn F2I>> = Vec::new();
    macro_rules! add_f2i {
        ($S:ty, $D:ty, $f:path) => {
            f2i.push(Box::new(PF2I::<$S, $D> { conv: $f }));
        };
    }
    for_float_to_int!(add_f2i);
    assert_eq!((i2f.len(), f2i.len()), (24, 24));

    if let Some(case) = &cli.case {
        let m = vmon::cli::parse_case(case);
        match m["dir"].as_str() {
            "i2f" => {
                let v: i128 = m["v"].parse().unwrap();
                for p in &i2f {
                    if p.src().name == m["src"] && p.dst() == m["dst"] {
                        p.check_list(&[v], &mut rep);
                        eprintln!("replay: {}", p.sample(v).to_string());
                    }
                }
            }
            "f2i" => {
                let b: u64 = m["bits"].parse().unwrap();
                let x = if m["src"] == "f32" { f32::from_bits(b as u32) as f64 } else { f64::from_bits(b) };
                for p in &f2i {
                    if p.src() == m["src"] && p.dst().name == m["dst"] {
                        p.check_list(&[x], &mut rep);
                        eprintln!("replay: {}", p.sample(x).to_string());
                    }
                }
            }
            "f2f" => {
                let b: u64 = m["bits"].parse().unwrap();
                if m["src"] == "f32" {
                    check_f32_to_f64(&[b as u32], &mut rep);
                } else {
                    check_f64_to_f32(&[f64::from_bits(b)], &mut rep);
                }
            }
            _ => panic!("bad case"),
        }
        finish(&cli, rep, t0);
    }

    let release_stage = cli.stage.starts_with("release");
    let exhaustive_bits: u32 = if release_stage { 16 } else { cli.t(24, 32) };
    let n_random: u64 = if release_stage { 100_000 } else { cli.t(500_000, 20_000_000) };
    let f32_exhaustive = cli.thorough() && !release_stage;
    let n_f32_random: u64 = if release_stage { 200_000 } else { cli.t(4_000_000, 0) };
    let n_f64_random: usize = if release_stage { 100_000 } else { cli.t(300_000, 10_000_000) };

    #[derive(Clone, Copy)]
    enum Job {
        IRange(usize, i128, i128),
        IStruct(usize),
        IRandom(usize, u64, u64),
        FBits(usize, u32, u32),
        FStruct32(usize),
        FRandom32(usize, u64, u64),
        FStruct64(usize),
    }
    let mut jobs: Vec<Job> = Vec::new();
    const CHUNK: i128 = 1 << 18;
    for (pi, p) in i2f.iter().enumerate() {
        let s = p.src();
        if s.bits <= exhaustive_bits {
            let mut lo = s.min();
            while lo <= s.max() {
                let hi = (lo + CHUNK - 1).min(s.max());
                jobs.push(Job::IRange(pi, lo, hi));
                lo = hi + 1;
            }
        } else {
            jobs.push(Job::IStruct(pi));
            let per = 1u64 << 18;
            let mut first = 0;
            while first < n_random {
                let cnt = per.min(n_random - first);
                jobs.push(Job::IRandom(pi, first, cnt));
                first += cnt;
            }
        }
    }
    for (pi, p) in f2i.iter().enumerate() {
        if p.src() == "f32" {
            jobs.push(Job::FStruct32(pi));
            if f32_exhaustive {
                for (lo, hi) in [(POS_LO, POS_HI), (NEG_LO, NEG_HI)] {
                    let mut a = lo as u64;
                    while a <= hi as u64 {
                        let b = (a + (1 << 20) - 1).min(hi as u64);
                        jobs.push(Job::FBits(pi, a as u32, b as u32));
                        a = b + 1;
                    }
                }
            } else {
                let per = 1u64 << 18;
                let mut first = 0;
                while first < n_f32_random {
                    let cnt = per.min(n_f32_random - first);
                    jobs.push(Job::FRandom32(pi, first, cnt));
                    first += cnt;
                }
            }
        } else {
            jobs.push(Job::FStruct64(pi));
        }
    }

    let dict = vmon::dict::harvest("/repo", &["dasp_sample"]);
    let dict_floats = dict.floats_all();
    rep.oblige("source_literals_harvested", 10);
    rep.hit_n("source_literals_harvested", dict.ints.len() as u64);
    rep.note(format!("input dictionary: {} integer and {} float literals harvested from {} source files of dasp_sample ({} derived float inputs)", dict.ints.len(), dict.floats.len(), dict.files, dict_floats.len()));
    let s32 = structured_f32();
    let s32_as64: Vec<f64> = s32.iter().map(|x| *x as f64).collect();
    let reps = vmon::par_for(
        cli.threads,
        jobs.len() as u64,
        1,
        |_| Report::new("C02", "worker"),
        |rep, ji| match jobs[ji as usize] {
            Job::IRange(pi, lo, hi) => {
                let p = &i2f[pi];
                p.check_range(lo, hi, rep);
                let s = p.src();
                let mut n = (hi - lo + 1) as u64;
                for t in [s.min(), s.equilibrium()] {
                    if t >= lo && t <= hi {
                        n -= 1;
                    }
                }
                rep.nontrivial_by_construction(n);
                rep.count("i2f_exhaustive_values", (hi - lo + 1) as u64);
            }
            Job::IStruct(pi) => {
                let p = &i2f[pi];
                let mut vals = spec::structured_values(p.src(), 4096, 64);
                // the inputs on which correct rounding differs from truncation / double rounding
                let prec = if p.dst() == "f32" { 24 } else { 53 };
                let rb = spec::rounding_boundaries(p.src(), prec, seed ^ pi as u64);
                rep.count("i2f_rounding_boundary_values", rb.len() as u64);
                vals.extend(rb);
                // numeric literals of the crate's own source as inputs (magic-value special cases)
                let dv = dict.ints_for(p.src().min(), p.src().max(), p.src().bits);
                rep.count("dictionary_values", dv.len() as u64);
                vals.extend(dv);
                p.check_list(&vals, rep);
                rep.count("i2f_structured_values", vals.len() as u64);
                if rep.want_sample() {
                    rep.sample(p.sample(vals[vals.len() / 3]));
                }
            }
            Job::IRandom(pi, first, cnt) => {
                let p = &i2f[pi];
                let mut rng = Rng::derive(seed, &[1, pi as u64, first]);
                let vals: Vec<i128> = (first..first + cnt).map(|i| stratified(p.src(), i, n_random, &mut rng)).collect();
                p.check_list(&vals, rep);
                rep.nontrivial_by_construction(cnt.saturating_sub(2));
                rep.count("i2f_stratified_random_values", cnt);
            }
            Job::FBits(pi, lo, hi) => {
                let p = &f2i[pi];
                p.check_bits32(lo, hi, rep);
                // trivial points: 0.0, -0.0, -1.0
                let mut n = (hi - lo) as u64 + 1;
                for t in [0u32, 0x8000_0000, 0xbf80_0000] {
                    if t >= lo && t <= hi {
                        n -= 1;
                    }
                }
                rep.nontrivial_by_construction(n);
                rep.count("f2i_f32_exhaustive_patterns", (hi - lo) as u64 + 1);
            }
            Job::FStruct32(pi) => {
                let p = &f2i[pi];
                p.check_list(&s32_as64, rep);
                let dv: Vec<f64> = dict_floats.iter().map(|x| *x as f32 as f64).collect();
                p.check_list(&dv, rep);
                rep.count("dictionary_values", dv.len() as u64);
                rep.count("f2i_f32_structured_values", s32_as64.len() as u64);
                if rep.want_sample() {
                    rep.sample(p.sample(s32_as64[s32_as64.len() / 2 + 7]));
                }
            }
            Job::FRandom32(pi, first, cnt) => {
                // stratified over the two bit-pattern intervals: distinct by construction
                let p = &f2i[pi];
                let mut rng = Rng::derive(seed, &[2, pi as u64, first]);
                let total = (POS_HI as u64 - POS_LO as u64 + 1) + (NEG_HI as u64 - NEG_LO as u64 + 1);
                let width = total / n_f32_random;
                let vals: Vec<f64> = (first..first + cnt)
                    .map(|i| {
                        let k = i * width + rng.below(width);
                        let b = if k <= POS_HI as u64 { k as u32 } else { (k - (POS_HI as u64 + 1)) as u32 + NEG_LO };
                        f32::from_bits(b) as f64
                    })
                    .collect();
                p.check_list(&vals, rep);
                rep.nontrivial_by_construction(cnt.saturating_sub(3));
                rep.count("f2i_f32_stratified_patterns", cnt);
            }
            Job::FStruct64(pi) => {
                let p = &f2i[pi];
                let mut rng = Rng::derive(seed, &[3, pi as u64]);
                let mut vals = structured_f64(p.dst().bits, &mut rng, n_f64_random);
                vals.extend_from_slice(&s32_as64);
                vals.extend_from_slice(&dict_floats);
                rep.count("dictionary_values", dict_floats.len() as u64);
                p.check_list(&vals, rep);
                for x in &vals {
                    if *x != 0.0 && *x != -1.0 {
                        rep.nontrivial(vmon::hash_combine(pi as u64, x.to_bits()));
                    }
                }
                rep.count("f2i_f64_values", vals.len() as u64);
                if rep.want_sample() {
                    rep.sample(p.sample(vals[vals.len() / 2]));
                }
            }
        },
    );
    for r in reps {
        rep.merge(r);
    }
    rep.oblige("conversions_exercised", 48);
    rep.hit_n("conversions_exercised", (i2f.len() + f2i.len()) as u64);

    // ---- f32 <-> f64
    let mut rng = Rng::derive(seed, &[4]);
    if f32_exhaustive {
        let reps = vmon::par_for(
            cli.threads,
            1 << 12,
            1,
            |_| Report::new("C02", "worker"),
            |rep, i| {
                let lo = (i as u32) << 20;
                let pats: Vec<u32> = (lo..=lo + ((1 << 20) - 1)).collect();
                check_f32_to_f64(&pats, rep);
                rep.nontrivial_by_construction(pats.len() as u64 - 2);
            },
        );
        for r in reps {
            rep.merge(r);
        }
        rep.exhaustive("every f32 bit pattern (2^32) -> f64");
    } else {
        let mut pats: Vec<u32> = s32.iter().map(|x| x.to_bits()).collect();
        for e in 0..=255u32 {
            for m in [0u32, 1, 0x40_0000, 0x7f_ffff] {
                pats.push(e << 23 | m);
                pats.push(e << 23 | m | 0x8000_0000);
            }
        }
        for _ in 0..cli.t(1_000_000, 0) {
            pats.push(rng.u32());
        }
        check_f32_to_f64(&pats, &mut rep);
        for p in &pats {
            rep.nontrivial(vmon::hash_combine(0xf32f64, *p as u64));
        }
    }
    {
        // f64 -> f32: structured (rounding boundaries of the 24-bit mantissa, subnormal and
        // overflow thresholds) + random bit patterns
        let mut vals: Vec<f64> = Vec::new();
        let ulps = |x: f64, d: i64| f64::from_bits((x.to_bits() as i64 + d) as u64);
        for x in s32.iter().step_by(17) {
            let x = *x as f64;
            // midpoint between x and the next f32 up, and its neighbours
            let nx = f32::from_bits((*(&(x as f32))).to_bits() + 1) as f64;
            let mid = (x + nx) / 2.0;
            for d in -2..=2 {
                vals.push(ulps(mid, d));
                vals.push(ulps(x, d));
            }
        }
        for e in -160..=130 {
            let p = spec::pow2(e);
            for d in -2..=2 {
                vals.push(ulps(p, d));
                vals.push(-ulps(p, d));
                vals.push(ulps(p * 1.5, d));
                vals.push(ulps(p * (1.0 + spec::pow2(-24)), d));
                vals.push(ulps(p * (1.0 + 3.0 * spec::pow2(-24)), d));
            }
        }
        vals.extend_from_slice(&[0.0, -0.0, f64::INFINITY, f64::NEG_INFINITY, f64::NAN, f64::MAX, f64::MIN, f32::MAX as f64, ulps(f32::MAX as f64, 1), 3.4028235677973366e38, f64::from_bits(1)]);
        for _ in 0..cli.t(2_000_000, 50_000_000) {
            vals.push(f64::from_bits(rng.u64()));
            // concentrate on the f32 exponent range too
            let b = rng.u64();
            let e = 1023 - 160 + rng.below(300);
            vals.push(f64::from_bits((b & 0x800f_ffff_ffff_ffff) | (e << 52)));
        }
        check_f64_to_f32(&vals, &mut rep);
        for (i, x) in vals.iter().enumerate() {
            if i < 1_500_000 {
                rep.nontrivial(vmon::hash_combine(0xf64f32, x.to_bits()));
            }
        }
    }

    for f in spec::INT_FMTS {
        if f.bits <= exhaustive_bits {
            rep.exhaustive(format!("every value of {} -> f32 and f64 (3 call routes, plus round trip where exact)", f.name));
        }
    }
    if f32_exhaustive {
        rep.exhaustive("every f32 bit pattern in [-1,1) -> all 12 integer formats (3 call routes)");
    }
    rep.note(format!("profile: debug_assertions={}", cfg!(debug_assertions)));
    finish(&cli, rep, t0);
}

fn check_f32_to_f64(pats: &[u32], rep: &mut Report) {
    for &b in pats {
        let s = f32::from_bits(b);
        let g1: f64 = s.to_sample::<f64>();
        let g2: f64 = dasp_sample::conv::f32::to_f64(s);
        // exactness: decompose both and compare the rational values
        let ok = if s.is_nan() {
            g1.is_nan() && g2.is_nan()
        } else if s.is_infinite() {
            g1 == s as f64 && g2 == g1 && g1.is_infinite() && (g1 > 0.0) == (s > 0.0)
        } else {
            let (n1, m1, e1) = spec::decompose_f32(s);
            let (n2, m2, e2) = spec::decompose_f64(g1);
            // m1 * 2^e1 == m2 * 2^e2
            let same_val = if m1 == 0 || m2 == 0 { m1 == m2 } else if e1 >= e2 { (e1 - e2) < 100 && (m1 << (e1 - e2) as u32) == m2 } else { (e2 - e1) < 100 && (m2 << (e2 - e1) as u32) == m1 };
            n1 == n2 && same_val && g2.to_bits() == g1.to_bits()
        };
        if !ok {
            rep.violation("f2f|f32->f64|inexact", format!("f32 bits {:x} ({:e}) -> f64 {:e} / {:e}", b, s, g1, g2), format!("dir=f2f;src=f32;bits={}", b));
        }
    }
    rep.eval(pats.len() as u64);
}

fn check_f64_to_f32(vals: &[f64], rep: &mut Report) {
    for &x in vals {
        let want = spec::f64_to_f32(x);
        let g1: f32 = x.to_sample::<f32>();
        let g2: f32 = dasp_sample::conv::f64::to_f32(x);
        let same = |a: f32, b: f32| a.to_bits() == b.to_bits() || (a.is_nan() && b.is_nan());
        if !same(g1, want) || !same(g2, want) {
            rep.violation("f2f|f64->f32|not_correctly_rounded", format!("f64 {:e} (bits {:x}) -> f32 {:e}/{:e}, correctly rounded {:e}", x, x.to_bits(), g1, g2, want), format!("dir=f2f;src=f64;bits={}", x.to_bits()));
        }
    }
    rep.eval(vals.len() as u64);
}
