#![cfg_attr(target_pointer_width = "32", allow(arithmetic_overflow))] // the zero-sized-frame and 2^32 probes exist only in the 64-bit stages
//! C20 — windowing yields the documented window shape and chunk schedule.
//!
//! Window functions against 0.5(1 - cos 2 pi p) on a dense grid (range, symmetry, end points);
//! Window iterators item by item; Windower over every (L, bin, hop) triple up to a bound:
//! chunk count, chunk contents (frames all distinct) and size_hint consistency before every
//! next() (remaining chunks counted by draining a clone).

use checks::*;
use dasp_frame::Frame;
use dasp_signal::window::{self, Window, Windower};
use dasp_window::{Hann, Rectangle, Window as WindowFn};
use std::cell::Cell;
use std::time::Instant;
use vmon::{Cli, Report, Rng, J};

const U64F: f64 = 1.110_223_024_625_156_5e-16;
const U32F: f64 = 5.960_464_477_539_063e-8;
const TWO_PI: f64 = std::f64::consts::PI * 2.0;

thread_local! {
    static EVALS: Cell<u64> = const { Cell::new(0) };
    static ITER_SCRIPTS: Cell<u64> = const { Cell::new(0) };
    static FIELD_ROUTES: Cell<u64> = const { Cell::new(0) };
}
fn flush_tl(rep: &mut Report) {
    rep.eval(EVALS.with(|c| c.replace(0)));
    for (c, name) in [(&ITER_SCRIPTS, "iterator_conformance_scripts"), (&FIELD_ROUTES, "windower_state_set_through_public_fields")] {
        let n = c.with(|c| c.replace(0));
        if n > 0 {
            rep.hit_n(name, n);
        }
    }
}
fn ev(n: u64) {
    EVALS.with(|c| c.set(c.get() + n));
}

fn hann_ref(p: f64) -> f64 {
    0.5 * (1.0 - (TWO_PI * p).cos())
}

fn check_window_fns(rep: &mut Report, grid_bits: u32, n_random: u64, seed: u64) {
    let n = 1u64 << grid_bits;
    let mut rng = Rng::derive(seed, &[20]);
    let mut ps: Vec<f64> = (0..=n).map(|i| i as f64 / n as f64).collect();
    ps.extend_from_slice(&[0.0, 0.5, 1.0, U64F, 1.0 - U64F, 0.25, 0.75, 1.0 / 3.0]);
    for _ in 0..n_random {
        ps.push(rng.f64());
    }
    for &p in &ps {
        let case = || format!("kind=fn;p={:e}", p);
        // f64 phase
        let w: f64 = <Hann as WindowFn<f64>>::window(p);
        let want = hann_ref(p);
        if !(w >= 0.0 && w <= 1.0) {
            rep.violation("hann|f64|out_of_unit_interval", format!("hann({:e}) = {:e}", p, w), case());
        } else if (w - want).abs() > 4.0 * U64F {
            rep.violation("hann|f64|not_raised_cosine", format!("hann({:e}) = {:e}, 0.5(1-cos 2 pi p) = {:e}", p, w, want), case());
        }
        let wm: f64 = <Hann as WindowFn<f64>>::window(1.0 - p);
        if (w - wm).abs() > 8.0 * U64F {
            rep.violation("hann|f64|not_symmetric", format!("hann({:e}) = {:e} but hann(1-p) = {:e}", p, w, wm), case());
        }
        let r: f64 = <Rectangle as WindowFn<f64>>::window(p);
        if r != 1.0 {
            rep.violation("rectangle|f64|not_one", format!("rectangle({:e}) = {:e}", p, r), case());
        }
        // f32 phase
        let pf = p as f32;
        let wf: f32 = <Hann as WindowFn<f32>>::window(pf);
        let wantf = hann_ref(pf as f64);
        if !(wf >= 0.0 && wf <= 1.0) {
            rep.violation("hann|f32|out_of_unit_interval", format!("hann({:e}f32) = {:e}", pf, wf), case());
        } else if (wf as f64 - wantf).abs() > 4.0 * U32F {
            rep.violation("hann|f32|not_raised_cosine", format!("hann({:e}f32) = {:e}, expected {:e}", pf, wf, wantf), case());
        }
        let rf: f32 = <Rectangle as WindowFn<f32>>::window(pf);
        if rf != 1.0 {
            rep.violation("rectangle|f32|not_one", format!("rectangle({:e}f32) = {:e}", pf, rf), case());
        }
        ev(6);
    }
    // end points and centre, exactly
    let (w0, wh, w1): (f64, f64, f64) = (<Hann as WindowFn<f64>>::window(0.0), <Hann as WindowFn<f64>>::window(0.5), <Hann as WindowFn<f64>>::window(1.0));
    if w0 != 0.0 || wh != 1.0 || !(w1 >= 0.0 && w1 <= 4.0 * U64F) {
        rep.violation("hann|f64|end_points", format!("hann(0) = {:e}, hann(0.5) = {:e}, hann(1) = {:e}", w0, wh, w1), "kind=fn;p=0".to_string());
    }
    rep.hit("window_function_grid");
}

/// Window iterators: item i == w(i/(n-1)) within the accumulated-phase tolerance; channels equal
fn check_window_iter(rep: &mut Report, n: usize) {
    let case = || format!("kind=iter;n={}", n);
    let tol = |i: usize| (i as f64 + 2.0) * 8.0 * U64F * TWO_PI;
    let h64: Vec<f64> = window::hann::<f64>(n).take(n).collect();
    let h32x2: Vec<[f32; 2]> = window::hann::<[f32; 2]>(n).take(n).collect();
    let r64x3: Vec<[f64; 3]> = window::rectangle::<[f64; 3]>(n).take(n).collect();
    let generic: Vec<f64> = Window::<f64, Hann>::new(n).take(n).collect();
    if h64.len() != n || h32x2.len() != n || r64x3.len() != n {
        rep.violation("window_iter|length", format!("n = {}: iterators yielded {} / {} / {}", n, h64.len(), h32x2.len(), r64x3.len()), case());
        return;
    }
    for i in 0..n {
        let p = i as f64 / (n as f64 - 1.0);
        let want = hann_ref(p);
        if (h64[i] - want).abs() > tol(i) || !(h64[i] >= 0.0 && h64[i] <= 1.0) {
            rep.violation("window_iter|hann_f64|wrong_shape", format!("hann::<f64>({})[{}] = {:e}, w({}/{}) = {:e}", n, i, h64[i], i, n - 1, want), case());
            return;
        }
        if generic[i].to_bits() != h64[i].to_bits() {
            rep.violation("window_iter|new_vs_hann", format!("Window::new({})[{}] = {:e} but hann({})[{}] = {:e}", n, i, generic[i], n, i, h64[i]), case());
            return;
        }
        let f = h32x2[i];
        if f[0].to_bits() != f[1].to_bits() || (f[0] as f64 - want).abs() > tol(i) + 2.0 * U32F {
            rep.violation("window_iter|hann_f32x2|wrong_shape_or_channels_differ", format!("hann::<[f32;2]>({})[{}] = {:?}, expected {:e}", n, i, f, want), case());
            return;
        }
        if r64x3[i] != [1.0; 3] {
            rep.violation("window_iter|rectangle|not_one", format!("rectangle::<[f64;3]>({})[{}] = {:?}", n, i, r64x3[i]), case());
            return;
        }
        ev(4);
    }
    rep.hit("window_iterators");
}

trait WKind: WindowFn<f64, Output = f64> + Clone + 'static {
    const NAME: &'static str;
}
impl WKind for Hann {
    const NAME: &'static str = "hann";
}
impl WKind for Rectangle {
    const NAME: &'static str = "rectangle";
}

/// one (L, bin, hop) triple for window W and frame type F
fn check_windower<F, W>(rep: &mut Report, l: usize, b: usize, h: usize, route: usize)
where
    F: Frame + std::fmt::Debug,
    F::Sample: AnyS,
    W: WKind,
{
    let case = || format!("kind=windower;w={};fmt={};ch={};l={};b={};h={}", W::NAME, <F::Sample as AnyS>::NAME, F::CHANNELS, l, b, h);
    let fname = <F::Sample as AnyS>::NAME;
    let frames: Vec<F> = (0..l).map(|i| F::from_fn(|c| <F::Sample as AnyS>::distinct((i * F::CHANNELS + c) as u64))).collect();
    let want_chunks = if l >= b { (l - b) / h + 1 } else { 0 };
    // route 0: constructed with (frames, bin, hop). Routes 1/2 reach the same state through the
    // documented public fields: constructed with other values, then `bin`/`hop` (1) or `frames`
    // (2) assigned - everything below must not be able to tell the difference.
    // route 3: a windower that has already yielded a chunk under OTHER settings (two extra
    // leading frames, bin 2, hop 2) and whose bin/hop are then changed mid-stream
    let frames_ext: Vec<F> = (0..2).map(|i| F::from_fn(|c| <F::Sample as AnyS>::distinct((900 + i * F::CHANNELS + c) as u64))).chain(frames.iter().cloned()).collect();
    let mut wr: Windower<F, W> = match route {
        0 => Windower::new(&frames[..], b, h),
        3 => {
            let mut w = Windower::new(&frames_ext[..], 2, 2);
            let first: Vec<F> = w.next().map(|c| c.take(2).collect()).unwrap_or_default();
            if first.len() != 2 {
                rep.violation("windower|chunk_too_short", format!("warm-up chunk (bin 2, hop 2) over {} frames yielded {} frames", frames_ext.len(), first.len()), case());
                return;
            }
            w.bin = b;
            w.hop = h;
            w
        }
        1 => {
            let mut w = Windower::new(&frames[..], b + 3, if h < usize::MAX - 2 { h + 2 } else { h - 2 });
            w.bin = b;
            w.hop = h;
            w
        }
        _ => {
            let mut w = Windower::new(&frames[..0], b, h);
            w.frames = &frames[..];
            w
        }
    };
    if route != 0 {
        FIELD_ROUTES.with(|c| c.set(c.get() + 1));
    }
    let weights: Vec<F::Float> = Window::<F::Float, W>::new(b).take(b).collect();
    let mut k = 0usize;
    loop {
        // size_hint must be consistent with what is actually still yielded
        let (lo, hi) = wr.size_hint();
        let remaining = wr.clone().count();
        ev(1);
        if lo > remaining || hi.map_or(false, |hi| hi < remaining) {
            let which = if lo > remaining { "lower_bound_above_remaining" } else { "upper_bound_below_remaining" };
            rep.violation(&format!("windower|size_hint|{}", which), format!("{} {}x{} L={} bin={} hop={}: before chunk {} size_hint = ({}, {:?}) but {} chunks remain", W::NAME, fname, F::CHANNELS, l, b, h, k, lo, hi, remaining), case());
            return;
        }
        if remaining != want_chunks - k.min(want_chunks) {
            rep.violation("windower|chunk_count", format!("{} L={} bin={} hop={}: {} chunks remain before chunk {}, expected {} in total", W::NAME, l, b, h, remaining, k, want_chunks), case());
            return;
        }
        let chunk = match wr.next() {
            Some(c) => c,
            None => break,
        };
        if k >= want_chunks {
            rep.violation("windower|too_many_chunks", format!("{} L={} bin={} hop={}: chunk {} yielded, expected {}", W::NAME, l, b, h, k, want_chunks), case());
            return;
        }
        let got: Vec<F> = chunk.take(b).collect();
        if got.len() != b {
            rep.violation("windower|chunk_too_short", format!("chunk {} has {} frames, bin {}", k, got.len(), b), case());
            return;
        }
        for j in 0..b {
            let want = frames[k * h + j].mul_amp(weights[j]);
            if got[j] != want {
                rep.violation("windower|wrong_chunk_content", format!("{} {}x{} L={} bin={} hop={}: chunk {} frame {} = {:?}, expected frame[{}] * w[{}] = {:?}", W::NAME, fname, F::CHANNELS, l, b, h, k, j, got[j], k * h + j, j, want), case());
                return;
            }
        }
        ev(b as u64);
        k += 1;
    }
    if k != want_chunks {
        rep.violation("windower|chunk_count", format!("{} L={} bin={} hop={}: yielded {} chunks, expected {}", W::NAME, l, b, h, k, want_chunks), case());
        return;
    }
    // None is final
    if wr.next().is_some() {
        rep.violation("windower|yields_after_none", format!("L={} bin={} hop={}", l, b, h), case());
    }
}

/// Slices of ZERO-SIZED frames ([f32; 0] is a Frame through the const-generic impl) can be longer
/// than any slice of real memory: L up to usize::MAX. The chunk schedule and the size hint are
/// pure index arithmetic and must hold there too (hops of 2^58 and more keep the counts small).
fn zero_sized_frames(rep: &mut Report) {
    let top = usize::MAX;
    let cases: [(usize, usize, usize); 9] = [
        (top, 2, 1 << 62),
        ((1 << 63) + 10, 2, 1 << 63),
        (top, 2, top / 2),
        (top, 2, top),
        (top, top, 1),
        (top - 1, 3, (1 << 61) + 5),
        ((1 << 63) + 1, 1 << 62, 1 << 62),
        (top, 2, (1 << 58) + 1),
        (1 << 40, 2, 1 << 35),
    ];
    for (l, b, h) in cases {
        let case = format!("kind=zst;l={};b={};h={}", l, b, h);
        let r = vmon::catch(|| -> Result<u64, String> {
            let frames: Vec<[f32; 0]> = vec![[]; l];
            let want = if l >= b { (l - b) / h + 1 } else { 0 };
            let mut wr: Windower<[f32; 0], Rectangle> = Windower::new(&frames[..], b, h);
            let mut k = 0usize;
            loop {
                let (lo, hi) = wr.size_hint();
                let remaining = want - k;
                if lo > remaining || hi.map_or(false, |x| x < remaining) {
                    return Err(format!("before chunk {} size_hint = ({}, {:?}) but {} of {} chunks remain", k, lo, hi, remaining, want));
                }
                match wr.next() {
                    Some(_) => k += 1,
                    None => break,
                }
                if k > want {
                    return Err(format!("chunk {} yielded, expected {}", k, want));
                }
            }
            if k != want {
                return Err(format!("{} chunks yielded, expected floor((L-b)/h)+1 = {}", k, want));
            }
            Ok(k as u64 + 1)
        });
        match r {
            Ok(Ok(n)) => ev(n),
            Ok(Err(d)) => {
                rep.violation("windower|zero_sized_frames|size_hint_or_count", format!("L={} bin={} hop={} over [f32; 0] frames: {}", l, b, h, d), case);
                return;
            }
            Err(m) => {
                rep.violation("windower|zero_sized_frames|panic", format!("L={} bin={} hop={}: {}", l, b, h, m), case);
                return;
            }
        }
        rep.hit("windower_over_zero_sized_frames");
    }
}

/// ONE chunk of more than 2^24 frames (the largest count a single-precision float holds exactly):
/// every frame of the chunk must be the source frame times the weight the standalone window
/// iterator of the same length yields at that position - bit for bit, all 16.7 million of them.
fn long_bin(rep: &mut Report) {
    for b in [(1usize << 24) + 1, (1usize << 24) + 3] {
        let case = format!("kind=longbin;b={}", b);
        let r = vmon::catch(|| -> Result<u64, String> {
            let frames: Vec<f32> = (0..b + 5).map(|i| ((i % 251) as f32 + 1.0) / 256.0).collect();
            let mut wr: Windower<f32, Hann> = Windower::new(&frames[..], b, b);
            if wr.size_hint() != (1, Some(1)) {
                return Err(format!("size_hint = {:?} for one chunk", wr.size_hint()));
            }
            let chunk = wr.next().ok_or("no chunk")?;
            let mut weights = Window::<f32, Hann>::new(b);
            let mut n = 0u64;
            for (j, got) in chunk.take(b).enumerate() {
                let w = weights.next().ok_or("standalone window ended early")?;
                let want = frames[j].mul_amp(w);
                if got.to_bits() != want.to_bits() {
                    return Err(format!("frame {} of the chunk = {:e}, but frame * w[{}] of the standalone window of the same length = {:e} (weight {:e})", j, got, j, want, w));
                }
                n += 1;
            }
            if n != b as u64 {
                return Err(format!("chunk yielded {} frames, bin {}", n, b));
            }
            if wr.next().is_some() {
                return Err("a second chunk was yielded".into());
            }
            Ok(n)
        });
        match r {
            Ok(Ok(n)) => ev(n),
            Ok(Err(d)) => {
                rep.violation("windower|bin_above_2_pow_24|wrong_chunk_content", format!("bin {}: {}", b, d), case);
                return;
            }
            Err(m) => {
                rep.violation("windower|bin_above_2_pow_24|panic", format!("bin {}: {}", b, m), case);
                return;
            }
        }
        rep.hit("windower_bin_above_2_pow_24");
    }
}

/// Positions beyond the schedule whose product with the hop WRAPS THE MACHINE WORD onto a valid
/// chunk start (result-targeted operands, for the word of the build under test): a slice of more
/// than 2^(BITS/2) frames, an ordinary hop h <= L - b and an ordinary n <= L - b with
/// n * h = 2^BITS + r, r < n. `nth(n)` and `step_by` must see the end of the schedule there, and
/// the chunks that exist must be found at their places. Only affordable where 2^(BITS/2) frames
/// can be allocated, i.e. in a 32-bit build.
fn wrapped_position_probes(rep: &mut Report, seed: u64) {
    rep.oblige("positions_whose_product_with_the_hop_wraps_the_word", 1);
    let word: u128 = 1u128 << usize::BITS;
    let mut rng = Rng::derive(seed, &[2032]);
    for l in [66_000usize, 70_000, 100_003, 131_075] {
        let frames: Vec<f64> = (0..l).map(|i| i as f64).collect();
        for b in [2usize, 8, 33] {
            let lo = (word / (l - b) as u128) as usize + 1;
            for k in 0..6usize {
                let n = if k == 0 { l - b } else if k == 1 { lo } else { lo + rng.usize_below(l - b - lo) };
                let h = ((word + n as u128 - 1) / n as u128) as usize; // n * h = 2^BITS + r, 0 <= r < n
                if h > l - b || h == 0 {
                    continue;
                }
                let case = format!("kind=wrapnth;l={};b={};h={};n={}", l, b, h, n);
                let count = (l - b) / h + 1;
                let res = vmon::catch(std::panic::AssertUnwindSafe(|| -> Result<(), String> {
                    let mut w: Windower<f64, Rectangle> = Windower::new(&frames[..], b, h);
                    let (lo_hint, hi_hint) = w.size_hint();
                    if lo_hint > count || hi_hint.map_or(false, |x| x < count) {
                        return Err(format!("size_hint ({}, {:?}) with {} chunks in the schedule", lo_hint, hi_hint, count));
                    }
                    if let Some(c) = w.nth(n) {
                        let first: Vec<f64> = c.take(1).collect();
                        return Err(format!("nth({}) returned a chunk starting with frame {:?}; the schedule has {} chunks", n, first, count));
                    }
                    if w.next().is_some() {
                        return Err(format!("next() after nth({}) = None yields another chunk", n));
                    }
                    // the chunks that do exist, through nth
                    for j in 0..count {
                        let mut w: Windower<f64, Rectangle> = Windower::new(&frames[..], b, h);
                        let got: Option<Vec<f64>> = w.nth(j).map(|c| c.take(b).collect());
                        let want: Vec<f64> = (0..b).map(|i| (j * h + i) as f64).collect();
                        if got.as_ref() != Some(&want) {
                            return Err(format!("nth({}) = {:?}, expected the chunk starting at frame {}", j, got.map(|g| g[0]), j * h));
                        }
                    }
                    let w: Windower<f64, Rectangle> = Windower::new(&frames[..], b, h);
                    let stepped = w.step_by(n).count();
                    if stepped != 1 {
                        return Err(format!("step_by({}).count() = {}, the schedule has {} chunks", n, stepped, count));
                    }
                    let w: Windower<f64, Rectangle> = Windower::new(&frames[..], b, h);
                    let total = w.count();
                    if total != count {
                        return Err(format!("count() = {}, the schedule has {} chunks", total, count));
                    }
                    Ok(())
                }));
                ev(4 + count as u64);
                match res {
                    Ok(Ok(())) => rep.hit("positions_whose_product_with_the_hop_wraps_the_word"),
                    Ok(Err(d)) => {
                        rep.violation("windower|wrapped_position|chunk_outside_the_schedule_or_wrong", format!("L {} bin {} hop {}: {}", l, b, h, d), case);
                        return;
                    }
                    Err(m) => {
                        rep.violation("windower|wrapped_position|panic", format!("L {} bin {} hop {} n {}: panicked: {}", l, b, h, n, m), case);
                        return;
                    }
                }
            }
        }
    }
}

fn windower_all(rep: &mut Report, l: usize, b: usize, h: usize) {
    if let Err(m) = vmon::catch(std::panic::AssertUnwindSafe(|| windower_all_inner(rep, l, b, h))) {
        rep.violation("windower|panic", format!("L={} bin={} hop={}: panicked: {}", l, b, h, m), format!("kind=windower;w=any;fmt=any;ch=0;l={};b={};h={}", l, b, h));
    }
}

fn windower_all_inner(rep: &mut Report, l: usize, b: usize, h: usize) {
    check_windower::<f64, Hann>(rep, l, b, h, 0);
    check_windower::<f64, Rectangle>(rep, l, b, h, 0);
    check_windower::<[f32; 2], Hann>(rep, l, b, h, 0);
    check_windower::<[f32; 2], Rectangle>(rep, l, b, h, 0);
    check_windower::<[i16; 2], Hann>(rep, l, b, h, 0);
    check_windower::<[i16; 2], Rectangle>(rep, l, b, h, 0);
    if (l + b + h % 2) % 2 == 0 {
        check_windower::<f64, Hann>(rep, l, b, h, 1);
        check_windower::<[f32; 2], Hann>(rep, l, b, h, 2);
        check_windower::<[i16; 2], Rectangle>(rep, l, b, h, 1);
    }
    if (l + b + h % 3) % 3 == 0 {
        check_windower::<f64, Hann>(rep, l, b, h, 3);
        check_windower::<[f32; 2], Hann>(rep, l, b, h, 3);
    }
    // iterator protocol of the three window iterators (nth / fold / count / last / skip /
    // step_by / size_hint / clone against plain next())
    if l <= 12 && h <= 6 {
        let frames: Vec<f64> = (0..l).map(|i| (i as f64 + 1.0) / 64.0).collect();
        let cs = format!("kind=windower;w=any;fmt=any;ch=0;l={};b={};h={}", l, b, h);
        let mut rng = Rng::derive((l * 10_000 + b * 100 + h) as u64, &[203]);
        let mk = || checks::iterconf::forward(Windower::<f64, Hann>::new(&frames[..], b, h), |w| w.take(b).collect::<Vec<f64>>());
        let mut n = checks::iterconf::check_iter("windower", &cs, mk, rep, &mut rng, 10);
        n += checks::iterconf::check_clone("windower", &cs, mk, rep, &mut rng);
        if l >= b {
            n += checks::iterconf::check_iter("windowed_chunk", &cs, || Windower::<f64, Hann>::new(&frames[..], b, h).next().unwrap().take(b + 2), rep, &mut rng, 10);
        }
        n += checks::iterconf::check_iter("window", &cs, || Window::<f64, Hann>::new(b).take(b + 2), rep, &mut rng, 8);
        ITER_SCRIPTS.with(|c| c.set(c.get() + n));
        ev(n);
    }
}

fn main() {
    let cli = Cli::parse();
    let t0 = Instant::now();
    let mut rep = Report::new("C20", &cli.stage);
    if let Some(cs) = &cli.case {
        let m = vmon::cli::parse_case(cs);
        match m["kind"].as_str() {
            "fn" => check_window_fns(&mut rep, 10, 0, 0),
            "iter" => check_window_iter(&mut rep, m["n"].parse().unwrap()),
            "zst" => zero_sized_frames(&mut rep),
            "longbin" => long_bin(&mut rep),
            "wrapnth" => wrapped_position_probes(&mut rep, cli.seed),
            _ => windower_all(&mut rep, m["l"].parse().unwrap(), m["b"].parse().unwrap(), m["h"].parse().unwrap()),
        }
        flush_tl(&mut rep);
        finish(&cli, rep, t0);
    }
    if cli.stage == "miri32" {
        // A 32-BIT build of dasp, executed by the interpreter: usize (frame counts, bin, hop) is 32
        // bits wide. Interpreter-sized: small (L, bin, hop) triples, hops around the 8/16/24/31-bit
        // boundaries and the top of the 32-bit range, short Window iterators; dealt to the shards.
        rep.note(format!("usize::BITS = {} in this stage", usize::BITS));
        if usize::BITS == 32 {
            rep.hit("ran_with_32_bit_usize");
        }
        rep.oblige("ran_with_32_bit_usize", 1);
        rep.oblige("windower_triples_32_bit", 1);
        rep.oblige("windower_wide_hops_32_bit", 1);
        let mut item = 0u64;
        let mut mine = || {
            item += 1;
            item % cli.nshards == cli.shard
        };
        for n in [2usize, 3, 4, 7, 16, 33] {
            if mine() {
                check_window_iter(&mut rep, n);
                flush_tl(&mut rep);
            }
        }
        let lmax = cli.t(6usize, 9usize);
        for l in 0..=lmax {
            for b in 2..=l + 2 {
                for h in 1..=l + 2 {
                    if mine() {
                        windower_all(&mut rep, l, b, h);
                        rep.hit("windower_triples_32_bit");
                        flush_tl(&mut rep);
                    }
                }
            }
        }
        if usize::BITS < 64 && cli.shard == 0 {
            wrapped_position_probes(&mut rep, cli.seed);
            flush_tl(&mut rep);
        }
        for l in [0usize, 3, 5] {
            for b in [2usize, l, l + 1] {
                if b < 2 {
                    continue;
                }
                for h in vmon::edge::wide_usizes(2) {
                    if h > 300 && mine() {
                        windower_all(&mut rep, l, b, h);
                        rep.hit("windower_wide_hops_32_bit");
                        flush_tl(&mut rep);
                    }
                }
            }
        }
        finish(&cli, rep, t0);
    }
    rep.oblige("window_function_grid", 1);
    rep.oblige("window_iterators", 1);
    rep.oblige("windower_l_equals_bin", 1);
    rep.oblige("windower_l_less_than_bin", 1);
    rep.oblige("windower_hop_ge_remaining", 1);
    rep.oblige("windower_bin_above_2_pow_24", 2);
    long_bin(&mut rep);
    if usize::BITS >= 64 {
        rep.oblige("windower_over_zero_sized_frames", 9);
        zero_sized_frames(&mut rep);
    }
    rep.oblige("iterator_conformance_scripts", 1);
    rep.oblige("windower_state_set_through_public_fields", 1);

    check_window_fns(&mut rep, cli.t(16, 20), cli.t(100_000, 2_000_000), cli.seed);
    flush_tl(&mut rep);

    let nmax = cli.t(257usize, 8192usize);
    let reps = vmon::par_for(cli.threads, (nmax - 1) as u64, 8, |_| Report::new("C20", "w"), |rep, i| {
        check_window_iter(rep, i as usize + 2);
        rep.nontrivial(vmon::hash_combine(0x77, i + 2));
        flush_tl(rep);
    });
    for r in reps {
        rep.merge(r);
    }
    rep.exhaustive(format!("Window iterators hann/rectangle/new for every n in 2..={}", nmax));

    // every (L, bin, hop)
    let lmax = cli.t(24usize, 96usize);
    let mut triples = Vec::new();
    for l in 0..=lmax {
        for b in 2..=l + 2 {
            for h in 1..=l + 2 {
                triples.push((l, b, h));
            }
        }
    }
    let reps = vmon::par_for(cli.threads, triples.len() as u64, 16, |_| Report::new("C20", "w"), |rep, i| {
        let (l, b, h) = triples[i as usize];
        windower_all(rep, l, b, h);
        if l == b {
            rep.hit("windower_l_equals_bin");
        }
        if l < b {
            rep.hit("windower_l_less_than_bin");
        }
        if l >= b && h >= l {
            rep.hit("windower_hop_ge_remaining");
        }
        rep.nontrivial(vmon::hash_combine(0x88, (l * 10_000 + b * 100 + h) as u64));
        flush_tl(rep);
    });
    for r in reps {
        rep.merge(r);
    }
    rep.exhaustive(format!("Windower: every (L in 0..={}, bin in 2..=L+2, hop in 1..=L+2) x {{hann, rectangle}} x {{f64, [f32;2], [i16;2]}}", lmax));
    // hops around the integer-width boundaries (2^32 + small, multiples of 2^32, 2^63, ...): a hop
    // handled in a narrower type looks like a small hop (or zero) there
    {
        let mut wide = Vec::new();
        for l in [0usize, 2, 3, 5, 16, 24] {
            for b in [2usize, l / 2, l, l + 1] {
                if b < 2 {
                    continue;
                }
                for h in vmon::edge::wide_usizes(l + 2) {
                    if h > 300 {
                        wide.push((l, b, h));
                    }
                }
            }
        }
        rep.oblige("windower_hop_at_least_2_pow_32", 1);
        let reps = vmon::par_for(cli.threads, wide.len() as u64, 64, |_| Report::new("C20", "w"), |rep, i| {
            let (l, b, h) = wide[i as usize];
            windower_all(rep, l, b, h);
            if (h as u128) >= (1u128 << 32) && l >= b {
                rep.hit("windower_hop_at_least_2_pow_32");
            }
            rep.nontrivial(vmon::hash_combine(0x89, vmon::hash_combine((l * 100 + b) as u64, h as u64)));
            flush_tl(rep);
        });
        for r in reps {
            rep.merge(r);
        }
    }
    // a few long inputs
    let mut rng = Rng::derive(cli.seed, &[201]);
    for _ in 0..cli.t(20, 5_000) {
        let l = 100 + rng.usize_below(3000);
        let b = 2 + rng.usize_below(l + 2);
        let h = 1 + rng.usize_below(l / 2 + 2);
        check_windower::<[f32; 2], Hann>(&mut rep, l, b, h, 0);
        check_windower::<f64, Rectangle>(&mut rep, l, b, h, 0);
    }
    flush_tl(&mut rep);
    rep.sample(J::obj().set("kind", J::s("windower")).set("L", J::u(8)).set("bin", J::u(2)).set("hop", J::u(1)).set("expect", J::s("7 chunks; size_hint before each next() brackets the remaining count; chunk k frame j == frame[k+j] * w[j]")));
    rep.sample(J::obj().set("kind", J::s("window_iter")).set("n", J::u(9)).set("expect", J::s("hann(9)[i] == 0.5(1-cos(2 pi i/8)) within (i+2)*8u*2pi, [f32;2] channels equal, rectangle == 1")));
    finish(&cli, rep, t0);
}
