//! C07 — no heap allocation in steady state: the realtime-safety promise.
//!
//! Instrument: vmon's counting #[global_allocator] (thread-local counters). Every catalogue entry
//! is  construct (may allocate) -> warm-up -> measured section of N calls with varying inputs,
//! which must show 0 allocations / reallocations / frees. The monitor's own bookkeeping is
//! allocation-free and self-tested each run (an empty section reads 0, a Vec growth reads >= 1).

use checks::tree::*;
use checks::*;
use dasp_envelope::Detector;
use dasp_frame::Frame;
use dasp_graph::node::{Delay as GDelay, GraphNode, Pass, Sum, SumBuffers};
use dasp_graph::{BoxedNode, Buffer, NodeData, Processor};
use dasp_interpolate::floor::Floor;
use dasp_interpolate::linear::Linear;
use dasp_interpolate::sinc::Sinc;
use dasp_interpolate::Interpolator;
use dasp_peak as peak;
use dasp_ring_buffer::{Bounded, Fixed};
use dasp_rms::Rms;
use dasp_sample::{Sample, I24, I48, U24, U48};
use dasp_signal::bus::SignalBus;
use dasp_signal::envelope::SignalEnvelope;
use dasp_signal::rms::SignalRms;
use dasp_signal::window::{self, Windower};
use dasp_signal::{self as signal, Signal};
use dasp_window::{Hann, Rectangle, Window as WindowFn};
use petgraph::graph::NodeIndex;
use petgraph::stable_graph::StableGraph;
use petgraph::Graph;
use std::hint::black_box as bb;
use std::time::Instant;
use vmon::{alloc, Cli, Report, Rng, J};

#[global_allocator]
static A: alloc::CountingAlloc = alloc::CountingAlloc;

include!("../gen/int_pairs.rs");

struct Cat<'a> {
    rep: &'a mut Report,
    calls: u64,
    names: Vec<&'static str>,
}
impl<'a> Cat<'a> {
    /// warm-up, then a measured section that must not touch the heap
    fn entry(&mut self, name: &'static str, mut f: impl FnMut(u64)) {
        self.entry_n(name, self.calls, &mut f)
    }
    fn entry_n(&mut self, name: &'static str, calls: u64, f: &mut dyn FnMut(u64)) {
        let r = vmon::catch(std::panic::AssertUnwindSafe(|| {
            for i in 0..16 {
                f(i);
            }
            let before = alloc::snap();
            for i in 0..calls {
                f(16 + i);
            }
            alloc::snap().since(&before)
        }));
        let d = match r {
            Ok(d) => d,
            Err(m) => {
                self.names.push(name);
                self.rep.violation(&format!("alloc|{}|panic", name), format!("{}: panicked: {}", name, m), format!("entry={}", name));
                return;
            }
        };
        self.names.push(name);
        self.rep.eval(calls);
        self.rep.hit("catalogue_entries_measured");
        if !d.is_zero_traffic() {
            self.rep.violation(&format!("alloc|{}", name), format!("{}: {} measured calls after warm-up caused {} allocations, {} reallocations, {} frees ({} bytes allocated, live delta {})", name, calls, d.allocs, d.reallocs, d.deallocs, d.bytes_allocated, d.live_bytes), format!("entry={}", name));
        }
    }
}

fn amp(i: u64) -> f64 {
    ((i.wrapping_mul(2654435761) % 2001) as f64 - 1000.0) / 1024.0
}
fn famp(i: u64) -> f32 {
    amp(i) as f32
}
fn iamp(i: u64) -> i16 {
    (amp(i) * 8000.0) as i16
}

fn conversions(c: &mut Cat) {
    // every integer<->integer conversion route, varying values
    macro_rules! pair {
        ($S:ty, $D:ty, $f:path) => {{
            c.entry_n(concat!("conv::", stringify!($S), "->", stringify!($D)), 256, &mut |i| {
                let f = <$S as IntS>::FMT;
                let span = (f.max() - f.min()) as u128 + 1;
                let raw = f.min() + ((i as u128).wrapping_mul(0x9e37_79b9_7f4a_7c15) % span) as i128;
                let s = <$S as IntS>::from_raw(raw);
                bb($f(s));
                bb(s.to_sample::<$D>());
                bb(<$D as Sample>::from_sample(s));
            });
        }};
    }
    for_int_pairs!(pair);
    macro_rules! fl {
        ($($T:ty),*) => {$(
            c.entry(concat!("conv::float<->", stringify!($T)), |i| {
                let x = amp(i) * 0.99;
                bb(x.to_sample::<$T>());
                bb((x as f32).to_sample::<$T>());
                let f = <$T as IntS>::FMT;
                let s = <$T as IntS>::from_raw(f.from_amp((i as i128 * 37) % 50));
                bb(s.to_sample::<f32>());
                bb(s.to_sample::<f64>());
                bb(Sample::add_amp(s, Sample::to_signed_sample(s)));
                bb(Sample::mul_amp(s, <<$T as Sample>::Float as Sample>::from_sample(0.5f64)));
                bb(s.to_float_sample());
            });
        )*};
    }
    fl!(i8, i16, I24, i32, I48, i64, u8, u16, U24, u32, U48, u64);
    // the arithmetic operators and constructors of the custom-width types themselves (in-range
    // operands and results; nothing else in the library ever multiplies two samples)
    macro_rules! custom_ops {
        ($($T:ty: $R:ty),*) => {$(
            c.entry(concat!("types::", stringify!($T), " new / From / + - * / comparison"), |i| {
                let a = <$T>::new(((i * 7) % 23 + 2) as $R).unwrap();
                let b = <$T>::new(3 as $R).unwrap();
                let (hi, lo) = if a > b { (a, b) } else { (b, a) };
                bb(hi + lo);
                bb(hi - lo);
                bb(a * b);
                bb(<$T>::new(bb(a.inner())));
                bb(<$T>::from(bb(a.inner())));
                bb(a == b);
                bb(a.cmp(&b));
            });
        )*};
    }
    {
        use dasp_sample::types::{I11, I20, U11, U20};
        custom_ops!(I24: i32, I48: i64, U24: i32, U48: i64, I11: i16, I20: i32, U11: i16, U20: i32);
    }
    c.entry("conv::f32<->f64 + float sample ops", |i| {
        bb(amp(i).to_sample::<f32>());
        bb(famp(i).to_sample::<f64>());
        bb(Sample::mul_amp(Sample::add_amp(amp(i), 0.25), 0.5));
        bb(Sample::mul_amp(Sample::add_amp(famp(i), 0.25f32), 0.5f32));
    });
}

fn frames(c: &mut Cat) {
    macro_rules! fr {
        ($($n:literal),*) => {$(
            c.entry(concat!("frame::[i16;", stringify!($n), "] all methods"), |i| {
                let f: [i16; $n] = Frame::from_fn(|ch| iamp(i + ch as u64));
                let o: [i16; $n] = Frame::from_fn(|ch| iamp(i * 3 + ch as u64) / 2);
                let g: [f32; $n] = Frame::from_fn(|ch| famp(i + 7 * ch as u64));
                bb(Frame::map::<[i16; $n], _>(f, |s: i16| s / 2));
                bb(f.zip_map::<[i16; $n], [i16; $n], _>(o, |a: i16, b: i16| a / 2 + b / 2));
                bb(f.offset_amp(100));
                bb(f.scale_amp(0.5));
                bb(Frame::add_amp(f.scale_amp(0.5), o));
                bb(Frame::mul_amp(f, g));
                bb(f.to_signed_frame());
                bb(f.to_float_frame());
                let mut it = f.iter().copied();
                bb(<[i16; $n] as Frame>::from_samples(&mut it));
                let mut short = f.iter().copied().take($n - 1);
                bb(<[i16; $n] as Frame>::from_samples(&mut short));
                let mut acc = 0i32;
                for s in f.channels() {
                    acc += s as i32;
                }
                for s in f.channels_ref().rev() {
                    acc += *s as i32;
                }
                let mut h = f;
                for s in h.channels_mut() {
                    *s = s.wrapping_add(1);
                }
                bb((acc, h.channel(0).copied(), h.channel($n).copied()));
            });
            c.entry(concat!("frame::[f64;", stringify!($n), "] all methods"), |i| {
                let f: [f64; $n] = Frame::from_fn(|ch| amp(i + ch as u64));
                let o: [f64; $n] = Frame::from_fn(|ch| amp(i * 3 + ch as u64));
                bb(f.offset_amp(0.1).scale_amp(0.5));
                bb(Frame::add_amp(f, o));
                bb(Frame::mul_amp(f, o));
                bb(f.to_float_frame().to_signed_frame());
                bb(peak::full_wave(f));
                bb(peak::positive_half_wave(f));
                bb(peak::negative_half_wave(f));
            });
        )*};
    }
    fr!(1, 2, 8, 32);
    c.entry("frame::mono sample as frame", |i| {
        let s = iamp(i);
        bb(Frame::scale_amp(s, 0.5));
        bb(Frame::add_amp(s, 3i16));
        bb(Frame::offset_amp(I24::new_unchecked(s as i32), I24::new_unchecked(5)));
        bb(Frame::to_float_frame(s));
        let mut n = 0;
        for x in Frame::channels(s) {
            n += x as i32;
        }
        bb(n);
    });
}

fn slices(c: &mut Cat) {
    let mut a: Vec<[i16; 2]> = (0..64).map(|i| [iamp(i), iamp(i + 1)]).collect();
    let b: Vec<[i16; 2]> = (0..64).map(|i| [iamp(i * 5) / 4, iamp(i * 7) / 4]).collect();
    let mut samples: Vec<f32> = (0..96).map(famp).collect();
    let (pa, ca) = (a.as_ptr(), a.capacity());
    c.entry("slice::borrowed conversions and in-place ops", |i| {
        let n = (i % 30) as usize;
        {
            let fs: Option<&[[f32; 3]]> = dasp_slice::to_frame_slice(&samples[..n * 3]);
            bb(fs.map(|f| f.len()));
            let none: Option<&[[f32; 4]]> = dasp_slice::to_frame_slice(&samples[..(n * 4) % 92 + 1]);
            bb(none.is_some());
        }
        {
            let fm: Option<&mut [[f32; 2]]> = dasp_slice::to_frame_slice_mut(&mut samples[..2 * (n / 2)]);
            if let Some(f) = fm {
                dasp_slice::map_in_place(f, |x| x.scale_amp(0.999));
                let back: &mut [f32] = dasp_slice::to_sample_slice_mut(f);
                bb(back.len());
            }
        }
        let flat: &[i16] = dasp_slice::to_sample_slice(&a[..n]);
        bb(flat.len());
        dasp_slice::equilibrium(&mut a[n..n + 2]);
        dasp_slice::write(&mut a[..n], &b[..n]);
        dasp_slice::add_in_place(&mut a[..n], &b[..n]);
        dasp_slice::zip_map_in_place(&mut a[..n], &b[..n], |x, y| [x[0] / 2 + y[1] / 2, x[1] / 2]);
        dasp_slice::add_in_place_with_amp_per_channel(&mut a[..n], &b[..n], [0.25f32, -0.25]);
        dasp_slice::map_in_place(&mut a[..n], |f| f.scale_amp(0.5));
    });
    if a.as_ptr() != pa || a.capacity() != ca {
        c.rep.violation("alloc|slice|user_storage_moved", "Vec passed by slice moved or was resized".to_string(), "entry=slice".to_string());
    }
}

fn ring_buffers(c: &mut Cat) {
    macro_rules! bounded_entry {
        ($name:expr, $mk:expr) => {{
            let mut rb = $mk;
            c.entry($name, |i| {
                let k = i as i64;
                match i % 11 {
                    0 | 1 | 2 | 3 => {
                        bb(rb.push(k));
                    }
                    4 | 5 => {
                        bb(rb.pop());
                    }
                    6 => {
                        let n = rb.drain().take(2).count();
                        bb(n);
                    }
                    7 => {
                        bb(rb.get((i % 9) as usize).copied());
                        if let Some(x) = rb.get_mut((i % 5) as usize) {
                            *x += 1;
                        }
                    }
                    8 => {
                        let s: i64 = rb.iter().sum();
                        for x in rb.iter_mut() {
                            *x ^= 1;
                        }
                        bb(s);
                    }
                    9 => {
                        let (a, b) = rb.slices();
                        bb(a.len() + b.len());
                        let (a, b) = rb.slices_mut();
                        bb(a.len() + b.len());
                    }
                    _ => {
                        rb.extend([k, k + 1, k + 2]);
                        bb((rb.len(), rb.is_full(), rb.is_empty(), rb.max_len()));
                    }
                }
            });
        }};
    }
    bounded_entry!("ring::Bounded<[i64;8]>", Bounded::from([0i64; 8]));
    bounded_entry!("ring::Bounded<Box<[i64]>>", Bounded::from(vec![0i64; 7].into_boxed_slice()));
    {
        let v = vec![0i64; 9];
        let (p, cap) = (v.as_ptr(), v.capacity());
        let mut rb = Bounded::from(v);
        c.entry("ring::Bounded<Vec<i64>>", |i| {
            if i % 3 == 2 {
                bb(rb.pop());
            } else {
                bb(rb.push(i as i64));
            }
            bb(rb.get(3).copied());
        });
        let (_, _, v) = unsafe { rb.into_raw_parts() };
        if v.as_ptr() != p || v.capacity() != cap || v.len() != 9 {
            c.rep.violation("alloc|ring|user_storage_resized", "Vec storage of a Bounded ring buffer was moved or resized".to_string(), "entry=ring".to_string());
        }
    }
    {
        let mut store = [0i64; 5];
        let mut rb = Bounded::from(&mut store[..]);
        c.entry("ring::Bounded<&mut [i64]>", |i| {
            bb(rb.push(i as i64));
            if i % 4 == 0 {
                bb(rb.drain().count());
            }
        });
    }
    macro_rules! fixed_entry {
        ($name:expr, $mk:expr) => {{
            let mut rb = $mk;
            c.entry($name, |i| {
                bb(rb.push(i as i64));
                bb(*rb.get((i % 13) as usize));
                *rb.get_mut((i % 3) as usize) += 1;
                rb[(i % 7) as usize] ^= 1;
                if i % 5 == 0 {
                    rb.set_first((i % 11) as usize);
                }
                let s: i64 = rb.iter().sum::<i64>() + rb.iter_loop().take(9).sum::<i64>();
                for x in rb.iter_mut() {
                    *x += 1;
                }
                let (a, b) = rb.slices();
                bb((s, a.len(), b.len(), rb.len()));
                rb.extend([1, 2]);
            });
        }};
    }
    fixed_entry!("ring::Fixed<[i64;6]>", Fixed::from([0i64; 6]));
    fixed_entry!("ring::Fixed<Vec<i64>>", Fixed::from(vec![0i64; 5]));
    fixed_entry!("ring::Fixed<Box<[i64]>>", Fixed::from(vec![0i64; 4].into_boxed_slice()));
}

fn detectors(c: &mut Cat) {
    let mut rms: Rms<[f32; 2], [[f32; 2]; 16]> = Rms::new(Fixed::from([[0.0f32; 2]; 16]));
    c.entry("rms::Rms<[f32;2], array window>", |i| {
        bb(rms.next([famp(i), famp(i + 3)]));
        bb(rms.next_squared([famp(i * 5), 0.0]));
        bb(rms.current());
        if i % 97 == 0 {
            rms.reset();
        }
    });
    let mut rmsv: Rms<[i16; 1], Vec<[f32; 1]>> = Rms::new(Fixed::from(vec![[0.0f32]; 100]));
    c.entry("rms::Rms<[i16;1], Vec window>", |i| {
        bb(rmsv.next([iamp(i)]));
        bb(rmsv.window_frames());
    });
    let mut d1: Detector<[f32; 2], _> = Detector::peak(10.0, 100.0);
    let mut d2: Detector<[i16; 1], _> = Detector::peak_positive_half_wave(0.0, 3.0);
    let mut d3: Detector<[u8; 2], _> = Detector::peak_negative_half_wave(5.0, 0.0);
    let mut d4: Detector<[f64; 1], _> = Detector::rms(Fixed::from(vec![[0.0f64]; 32]), 4.0, 40.0);
    c.entry("envelope::Detector peak x3 + rms, set_attack/release", |i| {
        bb(d1.next([famp(i), famp(i + 1)]));
        bb(d2.next([iamp(i)]));
        bb(d3.next([(128.0 + amp(i) * 100.0) as u8, 128]));
        bb(d4.next([amp(i)]));
        if i % 50 == 0 {
            d1.set_attack_frames((i % 7) as f32);
            d1.set_release_frames((i % 11) as f32);
            d4.set_attack_frames(1.5);
        }
    });
}

fn interpolators(c: &mut Cat) {
    let mut fl = Floor::new([0.0f32; 2]);
    let mut li = Linear::new([0i16; 2], [0i16; 2]);
    let mut si = Sinc::new(Fixed::from([[0.0f64; 2]; 16]));
    let mut siv = Sinc::new(Fixed::from(vec![0.0f32; 64]));
    c.entry("interpolate::Floor/Linear/Sinc interpolate, next_source_frame, reset", |i| {
        let x = (i % 100) as f64 / 100.0;
        fl.next_source_frame([famp(i), famp(i + 1)]);
        li.next_source_frame([iamp(i), iamp(i + 1)]);
        si.next_source_frame([amp(i), amp(i + 1)]);
        siv.next_source_frame(famp(i));
        bb((fl.interpolate(x), li.interpolate(x), si.interpolate(x), siv.interpolate(x)));
        if i % 333 == 0 {
            fl.reset();
            li.reset();
            si.reset();
            siv.reset();
        }
    });
    c.entry("window::Hann/Rectangle functions", |i| {
        let p = (i % 1000) as f64 / 1000.0;
        bb(<Hann as WindowFn<f64>>::window(p));
        bb(<Hann as WindowFn<f32>>::window(p as f32));
        bb(<Rectangle as WindowFn<f64>>::window(p));
    });
}

fn sources(c: &mut Cat) {
    let mut eq = signal::equilibrium::<[f32; 2]>();
    let mut gen = signal::gen(|| [0.5f64]);
    let mut st = 0.0f64;
    let mut gen_mut = signal::gen_mut(move || {
        st += 0.001;
        st
    });
    let data: Vec<[i16; 2]> = (0..5000).map(|i| [iamp(i), iamp(i + 9)]).collect();
    let flat: Vec<f32> = (0..10_000).map(famp).collect();
    let mut from_iter = signal::from_iter(data.iter().cloned().cycle());
    let mut from_samples = signal::from_interleaved_samples_iter::<_, [f32; 3]>(flat.iter().cloned().cycle());
    let mut phase = signal::rate(44_100.0).const_hz(440.0).phase();
    let mut sine = signal::rate(44_100.0).const_hz(441.0).sine();
    let mut saw = signal::rate(48_000.0).const_hz(100.0).saw();
    let mut square = signal::rate(48_000.0).const_hz(1000.0).square();
    let mut noise = signal::noise(7);
    let mut simplex = signal::rate(44_100.0).const_hz(500.0).noise_simplex();
    let mut vsine = signal::rate(44_100.0).hz(signal::gen(|| 440.0)).sine();
    let mut vsaw = signal::rate(44_100.0).hz(signal::rate(44_100.0).const_hz(2.0).sine().map(|s: f64| 200.0 + s * 100.0)).saw();
    c.entry("signal::sources (equilibrium, gen, gen_mut, from_iter, from_interleaved_samples_iter, phase, sine, saw, square, noise, noise_simplex, variable hz)", |_| {
        bb((eq.next(), gen.next(), gen_mut.next(), from_iter.next(), from_samples.next()));
        bb((phase.next(), sine.next(), saw.next(), square.next(), noise.next(), simplex.next(), vsine.next(), vsaw.next()));
        bb((from_iter.is_exhausted(), vsaw.is_exhausted()));
    });
}

fn adaptors(c: &mut Cat, seed: u64, n_trees: u64) {
    let src = || signal::from_iter((0u64..).map(|i| [famp(i), famp(i * 3)]));
    let mut a1 = src().map(|f: [f32; 2]| f.scale_amp(0.5));
    let mut a2 = src().zip_map(src(), |a: [f32; 2], b: [f32; 2]| [a[0] + b[1], a[1] - b[0]]);
    let mut a3 = src().add_amp(src()).mul_amp(src()).scale_amp(0.5).offset_amp(0.1);
    let mut a4 = src().scale_amp_per_channel([0.5, 0.25]).offset_amp_per_channel([0.1, -0.1]).clip_amp(0.4);
    let mut seen = 0u64;
    let mut a5 = src().inspect(move |f: &[f32; 2]| {
        seen += f[0].to_bits() as u64 & 1;
        bb(seen);
    });
    let mut a6 = src().delay(10);
    c.entry("signal::map, zip_map, add_amp, mul_amp, scale_amp, offset_amp, per-channel variants, clip_amp, inspect, delay", |_| {
        bb((a1.next(), a2.next(), a3.next(), a4.next(), a5.next(), a6.next()));
        bb((a3.is_exhausted(), a6.is_exhausted()));
    });
    // rate conversion with every interpolator, ratios < 1, > 1, varying
    let msrc = || signal::from_iter((0u64..).map(amp));
    let mut c1 = msrc().scale_hz(Floor::new(0.0f64), 0.37);
    let mut c2 = msrc().from_hz_to_hz(Linear::new(0.0f64, 0.0), 44_100.0, 48_000.0);
    let mut c3 = msrc().scale_hz(Sinc::new(Fixed::from([0.0f64; 32])), 2.7);
    let mut c4 = msrc().mul_hz(Linear::new(0.0f64, 0.0), signal::rate(100.0).const_hz(1.0).sine().map(|s: f64| 1.0 + 0.5 * s));
    let mut c5 = msrc().mul_hz(Sinc::new(Fixed::from(vec![0.0f64; 16])), signal::gen(|| 0.9));
    c.entry("signal::scale_hz / from_hz_to_hz / mul_hz with floor, linear, sinc", |i| {
        bb((c1.next(), c2.next(), c3.next(), c4.next(), c5.next()));
        if i % 100 == 0 {
            c1.set_playback_hz_scale(0.2 + (i % 7) as f64);
            c2.set_hz_to_hz(48_000.0, 44_100.0 + (i % 3) as f64);
            c3.set_sample_hz_scale(0.5);
        }
    });
    // fork by reference, every kind of schedule
    let mut fork = msrc().fork(Bounded::from([0.0f64; 8]));
    {
        let (mut a, mut b) = fork.by_ref();
        let mut lead: i64 = 0;
        c.entry("signal::fork by_ref (alternating, racing, lead at capacity, sign flips)", |i| {
            let want_a = match (i / 64) % 4 {
                0 => i % 2 == 0,
                1 => lead < 8,
                2 => lead <= -8,
                _ => (i * 7) % 3 == 0,
            };
            let is_a = if want_a { lead < 8 } else { lead <= -8 };
            if is_a {
                bb(a.next());
                lead += 1;
            } else {
                bb(b.next());
                lead -= 1;
            }
            bb((a.pending_frames(), b.pending_frames()));
        });
    }
    // by_rc: exactly one allocation (the Rc) at creation, nothing afterwards
    {
        let fork2 = msrc().fork(Bounded::from([0.0f64; 4]));
        let before = alloc::snap();
        let (mut a, mut b) = fork2.by_rc();
        let d = alloc::snap().since(&before);
        if d.allocs != 1 || d.reallocs != 0 || d.deallocs != 0 {
            c.rep.violation("alloc|signal::fork by_rc creation", format!("by_rc() made {} allocations, {} reallocations, {} frees; documented: exactly the Rc", d.allocs, d.reallocs, d.deallocs), "entry=by_rc".to_string());
        }
        c.entry("signal::fork by_rc (after creation)", |i| {
            if i % 3 == 0 {
                bb(b.next());
            } else if a.pending_frames() < 3 || i % 2 == 0 {
                bb(a.next());
                bb(b.next());
            } else {
                bb(a.next());
                bb(b.next());
            }
        });
    }
    // buffered
    let mut buf = msrc().buffered(Bounded::from([0.0f64; 16]));
    let mut bufv = msrc().buffered(Bounded::from(vec![0.0f64; 33]));
    c.entry("signal::buffered next / next_frames", |i| {
        bb(buf.next());
        if i % 5 == 0 {
            bb(buf.next_frames().take((i % 20) as usize).fold(0.0, |a, b| a + b));
        }
        bb(bufv.next());
        bb(bufv.is_exhausted());
    });
    // iterator conversions
    let mut sig = msrc();
    let mut samples = src().into_interleaved_samples();
    c.entry("signal::take, until_exhausted, into_interleaved_samples, by_ref", |_| {
        bb(sig.by_ref().take(5).fold(0.0, |a, b| a + b));
        bb(sig.by_ref().until_exhausted().take(3).count());
        bb(samples.next_sample());
    });
    let mut lifted = signal::lift((0u64..).map(amp), |s| s.offset_amp(0.1).scale_amp(0.5));
    c.entry("signal::lift", |_| {
        bb(lifted.next());
    });
    // rms / envelope adaptors
    let mut r = src().rms(Fixed::from([[0.0f32; 2]; 32]));
    let mut e = src().detect_envelope(Detector::peak(3.0, 30.0));
    let mut e2 = msrc().detect_envelope(Detector::rms(Fixed::from(vec![0.0f64; 20]), 2.0, 50.0));
    c.entry("signal::rms, detect_envelope", |i| {
        bb((r.next(), r.next_squared(), e.next(), e2.next()));
        if i % 64 == 0 {
            e.set_attack_frames(1.0 + (i % 5) as f32);
            e2.set_release_frames(9.0);
        }
    });
    // windows
    let mut wh = window::hann::<[f32; 2]>(64);
    let mut wr = window::rectangle::<f64>(10);
    let wdata: Vec<[f32; 2]> = (0..512).map(|i| [famp(i), famp(i + 1)]).collect();
    c.entry("signal::window hann/rectangle iterators, Windower chunks and their frames", |i| {
        bb((wh.next(), wr.next()));
        if i % 16 == 0 {
            let mut acc = 0.0f32;
            for chunk in Windower::hann(&wdata[..], 32, 16).take(6) {
                for f in chunk.take(32) {
                    acc += f[0];
                }
            }
            for chunk in Windower::rectangle(&wdata[..200], 50, 7) {
                for f in chunk.take(3) {
                    acc += f[1];
                }
            }
            bb((acc, Windower::hann(&wdata[..], 32, 16).size_hint()));
        }
    });
    // bus: documented exception, but pulled in step its heap footprint stops growing
    {
        let bus = msrc().bus();
        let mut outs = [bus.send(), bus.send(), bus.send()];
        for _ in 0..4 {
            for o in outs.iter_mut() {
                for _ in 0..64 {
                    bb(o.next());
                }
            }
        }
        let base = alloc::snap();
        let mut worst = 0i64;
        for _ in 0..(c.calls / 64).max(4) {
            for o in outs.iter_mut() {
                for _ in 0..64 {
                    bb(o.next());
                }
            }
            worst = worst.max(alloc::snap().since(&base).live_bytes);
        }
        c.names.push("signal::bus lock-step (documented exception: no growth)");
        c.rep.hit("catalogue_entries_measured");
        if worst > 0 {
            c.rep.violation("alloc|signal::bus lock-step growth", format!("three outputs pulled in blocks of 64: live heap grew by {} bytes after warm-up", worst), "entry=bus".to_string());
        }
    }
    // bus again, after outputs came and went: one output races ahead and is dropped, a laggard
    // is dropped, a new one attaches - the survivors pulled in step must not grow the backlog
    {
        let bus = msrc().bus();
        let mut outs = vec![bus.send(), bus.send()];
        {
            let mut lead = bus.send();
            for _ in 0..37 {
                bb(lead.next());
            }
            let mut lag = bus.send();
            bb(lag.next());
            drop(lead);
            for o in outs.iter_mut() {
                for _ in 0..5 {
                    bb(o.next());
                }
            }
            // the laggard goes out of scope while its thread is unwinding from a (caught) panic:
            // destructors run then too, and it must be deregistered like any other output
            let _ = vmon::catch(std::panic::AssertUnwindSafe(move || {
                let _held = lag;
                panic!("unwinding while a bus output is alive");
            }));
        }
        outs.push(bus.send());
        for _ in 0..4 {
            for o in outs.iter_mut() {
                for _ in 0..64 {
                    bb(o.next());
                }
            }
        }
        // bring every survivor to the same position first (they attached at different times)
        let target = outs.iter().map(|o| o.pending_frames()).max().unwrap();
        for o in outs.iter_mut() {
            while o.pending_frames() > 0 {
                bb(o.next());
            }
        }
        bb(target);
        let base = alloc::snap();
        let mut worst = 0i64;
        let mut worst_backlog = 0usize;
        for _ in 0..(c.calls / 64).max(4) {
            for o in outs.iter_mut() {
                for _ in 0..64 {
                    bb(o.next());
                }
            }
            worst = worst.max(alloc::snap().since(&base).live_bytes);
            worst_backlog = worst_backlog.max(bus.verif_backlog_len());
        }
        c.names.push("signal::bus lock-step after outputs were dropped/attached (no growth)");
        c.rep.hit("catalogue_entries_measured");
        if worst > 0 || worst_backlog > 0 {
            c.rep.violation("alloc|signal::bus growth after dropped outputs", format!("after dropping a leading and a lagging output, three survivors pulled in blocks of 64: live heap grew by {} bytes, backlog at cycle boundaries up to {} frames", worst, worst_backlog), "entry=bus2".to_string());
        }
    }
    // random adaptor trees (C04's generator), without harness-side logging closures
    let mut rng = Rng::derive(seed, &[7]);
    let mut done = 0;
    while done < n_trees {
        let (node, nl) = random_bounded_tree(&mut rng, 5, 5);
        if node.encode().contains("inspect") {
            continue;
        }
        done += 1;
        let leaves: Vec<LeafSpec> = (0..nl).map(|_| LeafSpec { len: None, probe: Probe::new() }).collect();
        macro_rules! run_tree {
            ($F:ty) => {{
                let mut sig: Dyn<$F> = build::<$F>(&node, &leaves, &mut Vec::new());
                for _ in 0..8 {
                    bb(sig.next());
                }
                let before = alloc::snap();
                for _ in 0..200 {
                    bb(sig.next());
                    bb(sig.is_exhausted());
                }
                let d = alloc::snap().since(&before);
                c.rep.eval(200);
                if !d.is_zero_traffic() {
                    c.rep.violation("alloc|signal::random adaptor tree", format!("tree {} over {}: {} allocations / {} reallocations / {} frees in 200 outputs", node.encode(), stringify!($F), d.allocs, d.reallocs, d.deallocs), format!("entry=tree:{}", node.encode()));
                }
            }};
        }
        match done % 4 {
            0 => run_tree!(f64),
            1 => run_tree!([f32; 2]),
            2 => run_tree!([i16; 3]),
            _ => run_tree!([u8; 2]),
        }
        c.rep.nontrivial(vmon::hash_str(&node.encode()));
    }
    c.names.push("signal::random adaptor trees");
    c.rep.hit("catalogue_entries_measured");
}

// ------------------------------------------------------------------------------ graph
struct Counter2 {
    k: u32,
}
impl reg_signal::Signal for Counter2 {
    type Frame = [f32; 2];
    fn next(&mut self) -> [f32; 2] {
        self.k = self.k.wrapping_add(1);
        [(self.k % 100) as f32, 1.0]
    }
}

fn stock_node(rng: &mut Rng, depth: usize) -> BoxedNode {
    match rng.below(if depth == 0 { 7 } else { 6 }) {
        0 => BoxedNode::new(Sum),
        1 => BoxedNode::new(SumBuffers),
        2 => BoxedNode::new(Pass),
        3 => BoxedNode::new(GDelay(vec![reg_ring_buffer::Fixed::from(vec![0.0f32; 1 + rng.usize_below(100)]), reg_ring_buffer::Fixed::from(vec![0.0f32; 64])])),
        4 => BoxedNode::new(Box::new(Counter2 { k: 0 }) as Box<dyn reg_signal::Signal<Frame = [f32; 2]>>),
        5 => BoxedNode::new(BoxedNode::new(Sum)),
        _ => {
            // nested graph node
            let mut g: Graph<NodeData<BoxedNode>, ()> = Graph::new();
            let a = g.add_node(NodeData::new2(stock_node(rng, depth + 1)));
            let b = g.add_node(NodeData::new2(BoxedNode::new(Sum)));
            g.add_edge(a, b, ());
            let p = Processor::with_capacity(g.node_count());
            BoxedNode::new(GraphNode { processor: p, graph: g, input_nodes: vec![a], output_node: b, node_type: std::marker::PhantomData })
        }
    }
}

/// random graph on `n` nodes; every node has at most `n` incoming edges (so that the processor's
/// input list, sized by with_capacity(n), is large enough: "a graph of that size")
fn random_graph<G>(rng: &mut Rng, n: usize, nested: bool, add_node: &mut dyn FnMut(&mut G, NodeData<BoxedNode>) -> NodeIndex, add_edge: &mut dyn FnMut(&mut G, NodeIndex, NodeIndex), g: &mut G) -> Vec<NodeIndex> {
    let ids: Vec<NodeIndex> = (0..n).map(|_| add_node(g, NodeData::new(stock_node(rng, if nested { 0 } else { 1 }), vec![Buffer::SILENT; 1 + rng.usize_below(3)]))).collect();
    let mut indeg = vec![0usize; n];
    for _ in 0..rng.usize_below(4 * n + 1) {
        let (a, b) = (rng.usize_below(n), rng.usize_below(n));
        if indeg[b] < n {
            indeg[b] += 1;
            add_edge(g, ids[a], ids[b]);
            if rng.chance(1, 6) && indeg[b] < n {
                indeg[b] += 1;
                add_edge(g, ids[a], ids[b]); // parallel edge
            }
        }
    }
    ids
}

/// classify heap traffic of a single process() call for the signature
fn traffic_class(d: &alloc::Snap) -> &'static str {
    if d.allocs == 0 && d.deallocs == 0 && d.reallocs > 0 {
        "realloc_only"
    } else {
        "allocates"
    }
}

fn graphs(c: &mut Cat, seed: u64, n_graphs: u64) {
    // the minimal input of the recorded finding, probed deterministically on every run:
    // two nodes, three parallel edges a -> b
    {
        let mut g: Graph<NodeData<BoxedNode>, ()> = Graph::with_capacity(2, 3);
        let a = g.add_node(NodeData::new1(BoxedNode::new(Sum)));
        let b = g.add_node(NodeData::new1(BoxedNode::new(Sum)));
        for _ in 0..3 {
            g.add_edge(a, b, ());
        }
        let mut p = Processor::<Graph<NodeData<BoxedNode>, ()>>::with_capacity(2);
        p.process(&mut g, a);
        p.process(&mut g, a);
        let before = alloc::snap();
        p.process(&mut g, b);
        let d = alloc::snap().since(&before);
        c.rep.eval(1);
        if !d.is_zero_traffic() {
            c.rep.violation(&format!("alloc|graph::process|{}_on_new_output_node_of_a_processed_graph", traffic_class(&d)), format!("2 nodes a,b with 3 parallel edges a->b, Processor::with_capacity(2): process(a) twice, then process(b) made {} allocations / {} reallocations / {} frees", d.allocs, d.reallocs, d.deallocs), "entry=graphB:min:2".to_string());
        }
    }
    // wide fan-in, steady state: one Sum node fed by W others (W across the 256 / 1024 / 4096 /
    // 65536 thresholds a bounded or shrunk input list would have); every call after the first
    // with the same request must leave the heap alone
    for w in [300usize, 1500, 5000, 70_000] {
        let mut g: Graph<NodeData<BoxedNode>, ()> = Graph::with_capacity(w + 1, w + 8);
        let ids: Vec<NodeIndex> = (0..=w).map(|_| g.add_node(NodeData::new1(BoxedNode::new(Sum)))).collect();
        for i in 0..w {
            g.add_edge(ids[i], ids[w], ());
        }
        g.add_edge(ids[0], ids[w], ());
        let mut p = Processor::<Graph<NodeData<BoxedNode>, ()>>::with_capacity(w + 1);
        p.process(&mut g, ids[w]);
        let before = alloc::snap();
        for _ in 0..4 {
            p.process(&mut g, ids[w]);
        }
        let d = alloc::snap().since(&before);
        c.rep.eval(4);
        if !d.is_zero_traffic() {
            c.rep.violation("alloc|graph::process|steady_state_wide_fan_in", format!("Graph: one Sum node with {} incoming edges from {} nodes, Processor::with_capacity({}): after the first call, 4 more identical calls made {} allocations / {} reallocations / {} frees", w + 1, w, w + 1, d.allocs, d.reallocs, d.deallocs), format!("entry=graphW:{}", w));
        }
        c.rep.nontrivial(vmon::hash_combine(0x77, w as u64));
        // two sinks of very different fan-in on the same graph, rendered alternately by the same
        // processor: once each has been rendered, alternating between them must not touch the heap
        let narrow = g.add_node(NodeData::new1(BoxedNode::new(Sum)));
        g.add_edge(ids[1], narrow, ());
        g.add_edge(ids[2], narrow, ());
        p.process(&mut g, narrow);
        p.process(&mut g, ids[w]);
        p.process(&mut g, narrow);
        let before = alloc::snap();
        for _ in 0..4 {
            p.process(&mut g, ids[w]);
            p.process(&mut g, narrow);
        }
        let d = alloc::snap().since(&before);
        c.rep.eval(8);
        if !d.is_zero_traffic() {
            c.rep.violation("alloc|graph::process|steady_state_alternating_wide_and_narrow_sinks", format!("Graph: a Sum node with {} incoming edges and one with 2 on the same graph, each rendered before: 4 more alternations made {} allocations / {} reallocations / {} frees", w + 1, d.allocs, d.reallocs, d.deallocs), format!("entry=graphW2:{}", w));
        }
    }
    // warmed up on one thread, rendered on another (graph and processor are Send with
    // BoxedNodeSend): whatever "has processed a graph of that size once" leaves behind must travel
    // with the processor, not stay with the thread
    for w in [3usize, 40, 700] {
        use dasp_graph::BoxedNodeSend;
        let mut g: Graph<NodeData<BoxedNodeSend>, ()> = Graph::with_capacity(w + 3, 2 * w + 4);
        let ids: Vec<NodeIndex> = (0..w + 2).map(|_| g.add_node(NodeData::new1(BoxedNodeSend::new(Sum)))).collect();
        for i in 0..w {
            g.add_edge(ids[i], ids[w], ());
        }
        g.add_edge(ids[w], ids[w + 1], ());
        let out = ids[w + 1];
        let mut p = Processor::<Graph<NodeData<BoxedNodeSend>, ()>>::with_capacity(w + 2);
        p.process(&mut g, out);
        p.process(&mut g, out);
        let d = std::thread::spawn(move || {
            let _ = alloc::snap(); // first touch of the thread-local counters
            let before = alloc::snap();
            for _ in 0..4 {
                p.process(&mut g, out);
            }
            let d = alloc::snap().since(&before);
            drop((g, p));
            d
        })
        .join()
        .expect("render thread");
        c.rep.eval(4);
        if !d.is_zero_traffic() {
            c.rep.violation("alloc|graph::process|after_moving_processor_and_graph_to_another_thread", format!("Graph<BoxedNodeSend> with fan-in {}: processed twice on the constructing thread, then 4 calls on another thread made {} allocations / {} reallocations / {} frees", w, d.allocs, d.reallocs, d.deallocs), format!("entry=graphT:{}", w));
        }
        c.rep.nontrivial(vmon::hash_combine(0x7468, w as u64));
    }
    let mut rng = Rng::derive(seed, &[77]);
    for gi in 0..n_graphs {
        let n = 1 + rng.usize_below(if gi % 10 == 0 { 64 } else { 12 });
        let stable = gi % 2 == 1;
        macro_rules! run {
            ($G:ty) => {{
                let mut g: $G = <$G>::with_capacity(n, 4 * n);
                let ids = random_graph(&mut rng, n, true, &mut |g: &mut $G, w| g.add_node(w), &mut |g: &mut $G, a, b| {
                    g.add_edge(a, b, ());
                }, &mut g);
                // ---- A. steady state: once every request has been served once, serving the same
                // requests again must not touch the heap at all
                let mut p = Processor::<$G>::with_capacity(n);
                for id in &ids {
                    p.process(&mut g, *id);
                }
                let before = alloc::snap();
                for _round in 0..3 {
                    for id in &ids {
                        p.process(&mut g, *id);
                    }
                }
                let d = alloc::snap().since(&before);
                c.rep.eval(3 * n as u64);
                if !d.is_zero_traffic() {
                    c.rep.violation("alloc|graph::process|steady_state_same_requests", format!("{} with {} nodes: every node processed as output once, then 3 more rounds made {} allocations / {} reallocations / {} frees", stringify!($G), n, d.allocs, d.reallocs, d.deallocs), format!("entry=graphA:{}:{}", gi, n));
                }
                // ---- B. the statement as written: after ONE process call on a graph of this size
                // nothing allocates, whichever output node is asked for next
                let mut p2 = Processor::<$G>::with_capacity(n);
                let out = ids[rng.usize_below(n)];
                p2.process(&mut g, out);
                p2.process(&mut g, out);
                for id in &ids {
                    let before = alloc::snap();
                    p2.process(&mut g, *id);
                    let d = alloc::snap().since(&before);
                    c.rep.eval(1);
                    if !d.is_zero_traffic() {
                        c.rep.violation(&format!("alloc|graph::process|{}_on_new_output_node_of_a_processed_graph", traffic_class(&d)), format!("{} with {} nodes ({} edges): processor had processed the graph from node {} twice, then processing from node {} made {} allocations / {} reallocations / {} frees", stringify!($G), n, g.edge_count(), out.index(), id.index(), d.allocs, d.reallocs, d.deallocs), format!("entry=graphB:{}:{}", gi, n));
                        break;
                    }
                }
                // ---- C. a differently shaped but not larger graph (no nested graphs, whose own
                // processors would be new) on the warmed processor of A
                let m = 1 + rng.usize_below(n);
                let mut g2: $G = <$G>::with_capacity(m, 4 * m);
                let ids2 = random_graph(&mut rng, m, false, &mut |g: &mut $G, w| g.add_node(w), &mut |g: &mut $G, a, b| {
                    g.add_edge(a, b, ());
                }, &mut g2);
                for k in 0..m.min(8) {
                    let before = alloc::snap();
                    p.process(&mut g2, ids2[(k * 3) % m]);
                    let d = alloc::snap().since(&before);
                    c.rep.eval(1);
                    if !d.is_zero_traffic() {
                        c.rep.violation(&format!("alloc|graph::process|{}_on_other_graph_not_larger", traffic_class(&d)), format!("{}: processor warmed on {} nodes, then a {}-node graph ({} edges): {} allocations / {} reallocations / {} frees", stringify!($G), n, m, g2.edge_count(), d.allocs, d.reallocs, d.deallocs), format!("entry=graphC:{}:{}", gi, m));
                        break;
                    }
                }
                c.rep.nontrivial(vmon::hash_combine(gi, (n * 100 + m) as u64));
            }};
        }
        if stable {
            run!(StableGraph<NodeData<BoxedNode>, ()>);
        } else {
            run!(Graph<NodeData<BoxedNode>, ()>);
        }
    }
    c.names.push("graph::Processor::process with stock nodes (Sum, SumBuffers, Pass, Delay, signal node, nested BoxedNode, GraphNode) on Graph and StableGraph");
    c.rep.hit("catalogue_entries_measured");
}

fn main() {
    let cli = Cli::parse();
    let t0 = Instant::now();
    let mut rep = Report::new("C07", &cli.stage);
    // ---- self-test of the monitor: negative and positive control
    {
        let (_, d0) = alloc::measure(|| bb(1 + 1));
        let mut v: Vec<u64> = Vec::new();
        let (_, d1) = alloc::measure(|| {
            for i in 0..100 {
                v.push(i);
            }
        });
        let (_, d2) = alloc::measure(|| drop(v));
        rep.oblige("allocator_monitor_selftest", 1);
        if d0.is_zero_traffic() && d1.allocs + d1.reallocs >= 1 && d2.deallocs == 1 {
            rep.hit("allocator_monitor_selftest");
        } else {
            rep.note(format!("allocator self-test failed: {:?} {:?} {:?}", d0, d1, d2));
        }
    }
    let calls = cli.t(2_000u64, 4_000_000u64);
    let mut names: Vec<&'static str>;
    {
        let mut cat = Cat { rep: &mut rep, calls, names: Vec::new() };
        let only = cli.case.as_ref().map(|c| c.clone());
        let _ = only;
        conversions(&mut cat);
        frames(&mut cat);
        slices(&mut cat);
        ring_buffers(&mut cat);
        detectors(&mut cat);
        interpolators(&mut cat);
        sources(&mut cat);
        adaptors(&mut cat, cli.seed, cli.t(200, 50_000));
        graphs(&mut cat, cli.seed, cli.t(60, 60_000));
        names = std::mem::take(&mut cat.names);
    }
    rep.oblige("catalogue_entries_measured", names.len() as u64);
    names.sort();
    rep.nontrivial_by_construction(names.len() as u64);
    rep.note(format!("catalogue ({} entries, {} measured calls each unless noted): {}", names.len(), calls, names.join(" | ")));
    rep.sample(J::obj().set("entry", J::s("signal::scale_hz / from_hz_to_hz / mul_hz with floor, linear, sinc")).set("measured_calls", J::u(calls)).set("expected_heap_traffic", J::s("0 allocations, 0 reallocations, 0 frees")));
    rep.sample(J::obj().set("entry", J::s("graph::process")).set("shape", J::s("random Graph/StableGraph, 1..=64 nodes, cycles, parallel edges, stock nodes incl. nested GraphNode")).set("protocol", J::s("2 warm-up calls, 100 measured calls == 0/0/0, then a not-larger graph on the same processor == 0/0/0")));
    finish(&cli, rep, t0);
}
