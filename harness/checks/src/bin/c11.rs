//! C11 — windowed RMS equals the true RMS of the last N frames, in std and no_std builds.
//!
//! Oracle with a running, rigorous floating-point error analysis: the monitor keeps the exact
//! inputs of the last N frames, the exact sum of their squares T (double-double), the squares
//! exactly as the implementation stores them (one IEEE multiply in the float companion type) and an
//! a-posteriori bound `e` on the drift of the implementation's running sum (two rounded
//! operations per step, bound grows accordingly; reset() zeroes it). Every output must lie inside
//! the interval that bound allows around sqrt(T/N).
//!
//! The same source is built in the std workspace (exact sqrt) and in /verif/harness_nostd
//! (dasp built with default-features = false: bit-trick sqrt, allowed 7% relative error).

use checks::*;
use dasp_frame::Frame;
use dasp_ring_buffer as ring_buffer;
use dasp_rms::Rms;
use dasp_sample::{Sample, I24, U48};
use dasp_signal::rms::SignalRms;
use dasp_signal::Signal;
use std::cell::Cell;
use std::collections::VecDeque;
use std::rc::Rc;
use std::time::Instant;
use vmon::dd::DD;
use vmon::spec;
use vmon::{Cli, Report, Rng, J};

trait Fl: Sample + Copy + std::fmt::Debug + PartialOrd + 'static {
    const U: f64;
    /// smallest positive subnormal (absolute rounding error unit in the underflow range)
    const ETA: f64;
    const P: u32;
    const FNAME: &'static str;
    fn to64(self) -> f64;
    fn from64(x: f64) -> Self;
    /// the square exactly as the implementation computes it: one rounded multiply in this type
    fn sq(x: f64) -> f64;
    fn nan(self) -> bool;
}
impl Fl for f32 {
    const U: f64 = 5.960_464_477_539_063e-8; // 2^-24
    const ETA: f64 = 1.401_298_464_324_817e-45; // 2^-149
    const P: u32 = 24;
    const FNAME: &'static str = "f32";
    fn to64(self) -> f64 {
        self as f64
    }
    fn from64(x: f64) -> f32 {
        x as f32
    }
    fn sq(x: f64) -> f64 {
        let v = x as f32;
        (v * v) as f64
    }
    fn nan(self) -> bool {
        self.is_nan()
    }
}
impl Fl for f64 {
    const U: f64 = 1.110_223_024_625_156_5e-16; // 2^-53
    const ETA: f64 = 5e-324; // 2^-1074
    const P: u32 = 53;
    const FNAME: &'static str = "f64";
    fn to64(self) -> f64 {
        self
    }
    fn from64(x: f64) -> f64 {
        x
    }
    fn sq(x: f64) -> f64 {
        x * x
    }
    fn nan(self) -> bool {
        self.is_nan()
    }
}

/// exact value of a sample after conversion to its float companion (C02's spec arithmetic)
fn companion_value<S: AnyS>(s: S) -> f64
where
    S::Float: Fl,
{
    match s.val() {
        Val::F(x) => x,
        Val::I(raw) => {
            let f = S::INT.unwrap();
            let amp = f.amp(raw);
            let (p, emin) = if <S::Float as Fl>::P == 24 { (24, -126) } else { (53, -1022) };
            spec::rne(amp < 0, amp.unsigned_abs(), -((f.bits - 1) as i32), p, emin)
        }
    }
}

#[derive(Clone)]
struct Chan {
    xs: VecDeque<f64>,
    qs: VecDeque<f64>,
    t: DD,
    p: DD,
    e: f64,
    steps_since_exact: u32,
}
impl Chan {
    fn new(n: usize) -> Chan {
        Chan { xs: std::iter::repeat(0.0).take(n).collect(), qs: std::iter::repeat(0.0).take(n).collect(), t: DD::ZERO, p: DD::ZERO, e: 0.0, steps_since_exact: 0 }
    }
    fn reset(&mut self) {
        let n = self.xs.len();
        *self = Chan::new(n);
    }
    fn recompute(&mut self) {
        let mut t = DD::ZERO;
        let mut p = DD::ZERO;
        for x in &self.xs {
            t = t.add(DD::prod(*x, *x));
        }
        for q in &self.qs {
            p = p.add_f(*q);
        }
        self.t = t;
        self.p = p;
        self.steps_since_exact = 0;
    }
    fn push<T: Fl>(&mut self, x: f64) {
        let u = T::U;
        let q = T::sq(x);
        let r = *self.qs.front().unwrap();
        let a = self.p.add_f(q).to_f64().abs();
        let e1 = self.e + u * (a + self.e) * (1.0 + 8.0 * u) + T::ETA;
        let after = (a - r).abs();
        let e2 = e1 + u * (after + e1) * (1.0 + 8.0 * u) + T::ETA;
        self.e = e2;
        let x_old = self.xs.pop_front().unwrap();
        self.qs.pop_front();
        self.xs.push_back(x);
        self.qs.push_back(q);
        self.t = self.t.add(DD::prod(x, x)).sub(DD::prod(x_old, x_old));
        self.p = self.p.add_f(q).add_f(-r);
        self.steps_since_exact += 1;
        if self.steps_since_exact >= 2048 {
            self.recompute();
        }
    }
    /// interval that the implementation's mean square may lie in
    fn ms_interval<T: Fl>(&self) -> (f64, f64, f64) {
        let n = self.xs.len() as f64;
        let u = T::U;
        let t = self.t.to_f64().max(0.0);
        // |sum of stored squares - T| <= u*T ; running sum within e of that ; one rounded division
        // (plus absolute underflow terms: each stored square and each running-sum operation may
        // round in the subnormal range, where the error is absolute, <= ETA)
        let slack = (1.02 * u * t + self.e) * (1.0 + 4.0 * u) + (n + 2.0) * T::ETA;
        let lo = ((t - slack) / n) * (1.0 - 4.0 * u) - T::ETA;
        let hi = ((t + slack) / n) * (1.0 + 4.0 * u) + T::ETA;
        (lo.max(0.0), hi, t / n)
    }
}

#[derive(Clone, Copy, PartialEq)]
enum SqrtKind {
    Exact,
    Approx,
}

struct Ctx<'a> {
    rep: &'a mut Report,
    sqrt: SqrtKind,
    fmt: &'static str,
    n: usize,
    ch: usize,
    hist: &'static str,
    seed: u64,
}
impl<'a> Ctx<'a> {
    fn case(&self, step: usize) -> String {
        format!("fmt={};n={};ch={};hist={};seed={};step={}", self.fmt, self.n, self.ch, self.hist, self.seed, step)
    }
    fn sig(&self, what: &str) -> String {
        let cfg = if self.sqrt == SqrtKind::Approx { "no_std" } else { "std" };
        format!("rms|{}|{}|{}", cfg, self.fmt, what)
    }
}

thread_local! {
    static EVALS: Cell<u64> = const { Cell::new(0) };
    static CLAMP_REGION: Cell<u64> = const { Cell::new(0) };
    static TIGHT: Cell<u64> = const { Cell::new(0) };
    static ROTATED: Cell<u64> = const { Cell::new(0) };
}

fn check_ms<T: Fl>(cx: &mut Ctx, step: usize, c: usize, ch: &Chan, got: f64, which: &str) -> bool {
    let (lo, hi, truth) = ch.ms_interval::<T>();
    EVALS.with(|x| x.set(x.get() + 1));
    if got.is_nan() || got < 0.0 {
        cx.rep.violation(&cx.sig(&format!("{}_negative_or_nan", which)), format!("step {} channel {}: {} = {:e} (true mean square {:e})", step, c, which, got, truth), cx.case(step));
        return false;
    }
    if got < lo || got > hi {
        cx.rep.violation(&cx.sig(&format!("{}_outside_error_bound", which)), format!("step {} channel {}: {} = {:e}, true mean square {:e}, allowed [{:e}, {:e}] (drift bound e = {:e})", step, c, which, got, truth, lo, hi, ch.e), cx.case(step));
        return false;
    }
    if hi > 0.0 && (hi - lo) <= 1e-3 * hi {
        TIGHT.with(|x| x.set(x.get() + 1));
    }
    if truth > 0.0 && ch.e > 0.25 * truth {
        CLAMP_REGION.with(|x| x.set(x.get() + 1));
    }
    true
}

fn check_rms<T: Fl>(cx: &mut Ctx, step: usize, c: usize, ch: &Chan, got: f64, which: &str) -> bool {
    let (lo, hi, truth) = ch.ms_interval::<T>();
    EVALS.with(|x| x.set(x.get() + 1));
    if got.is_nan() || got < 0.0 {
        cx.rep.violation(&cx.sig(&format!("{}_negative_or_nan", which)), format!("step {} channel {}: {} = {:e} (true rms {:e})", step, c, which, got, truth.sqrt()), cx.case(step));
        return false;
    }
    let u = T::U;
    let (rlo, rhi) = match cx.sqrt {
        SqrtKind::Exact => (lo.sqrt() * (1.0 - 3.0 * u) - T::ETA, hi.sqrt() * (1.0 + 3.0 * u) + T::ETA),
        SqrtKind::Approx => {
            let abs = if T::P == 24 { spec::pow2(-60) } else { spec::pow2(-500) };
            ((lo.sqrt() * 0.93 - abs).max(0.0), hi.sqrt() * 1.07 + abs)
        }
    };
    if got < rlo || got > rhi {
        cx.rep.violation(&cx.sig(&format!("{}_outside_error_bound", which)), format!("step {} channel {}: {} = {:e}, true rms {:e}, allowed [{:e}, {:e}]", step, c, which, got, truth.sqrt(), rlo, rhi), cx.case(step));
        return false;
    }
    true
}

#[derive(Clone, Copy, Debug)]
enum Act {
    Next,
    NextSquared,
    Reset,
    Current,
}

/// one history through the detector itself
fn run_detector<F>(cx: &mut Ctx, n: usize, frames: &[F], acts: &[Act]) -> bool
where
    F: Frame,
    F::Sample: AnyS,
    <F::Sample as Sample>::Float: Fl,
{
    type T<F> = <<F as Frame>::Sample as Sample>::Float;
    // the all-equilibrium window is handed over at a rotation derived from the case (a ring
    // buffer that has been used before, or built with from_raw_parts, starts anywhere)
    let first = (frames.len() + 3 * acts.len()) % n;
    if first != 0 {
        ROTATED.with(|c| c.set(c.get() + 1));
    }
    let mut rms: Rms<F, Vec<F::Float>> = Rms::new(ring_buffer::Fixed::from_raw_parts(first, vec![F::Float::EQUILIBRIUM; n]));
    let nch = F::CHANNELS;
    let mut chans: Vec<Chan> = (0..nch).map(|_| Chan::new(n)).collect();
    if rms.window_frames() != n {
        cx.rep.violation(&cx.sig("window_frames"), format!("window_frames() = {} expected {}", rms.window_frames(), n), cx.case(0));
        return false;
    }
    let mut last_next: Option<Vec<f64>> = None;
    for (step, (fr, act)) in frames.iter().zip(acts.iter().cycle()).enumerate() {
        match act {
            Act::Reset => {
                rms.reset();
                for ch in chans.iter_mut() {
                    ch.reset();
                }
                let cur = rms.current();
                let (win, sum) = rms.clone().into_parts();
                for c in 0..nch {
                    let v = cur.channel(c).unwrap().to64();
                    if !check_rms::<T<F>>(cx, step, c, &chans[c], v, "current_after_reset") {
                        return false;
                    }
                    let s = sum.channel(c).unwrap().to64();
                    if s != 0.0 || win.iter().any(|w| w.channel(c).unwrap().to64() != 0.0) {
                        cx.rep.violation(&cx.sig("reset_not_all_zero"), format!("step {}: after reset() the window/sum of channel {} is not all zero (sum {:e})", step, c, s), cx.case(step));
                        return false;
                    }
                }
                last_next = None;
                cx.rep.hit("reset_mid_stream");
                continue;
            }
            Act::Current => {
                let cur = rms.current();
                for c in 0..nch {
                    let v = cur.channel(c).unwrap().to64();
                    if !check_rms::<T<F>>(cx, step, c, &chans[c], v, "current") {
                        return false;
                    }
                    if let Some(l) = &last_next {
                        if l[c].to_bits() != v.to_bits() {
                            cx.rep.violation(&cx.sig("current_differs_from_last_next"), format!("step {} channel {}: current() = {:e} but the last next() returned {:e}", step, c, v, l[c]), cx.case(step));
                            return false;
                        }
                    }
                }
                continue;
            }
            Act::Next | Act::NextSquared => {}
        }
        for c in 0..nch {
            let x = companion_value::<F::Sample>(*fr.channel(c).unwrap());
            chans[c].push::<T<F>>(x);
        }
        match act {
            Act::Next => {
                let out = rms.next(*fr);
                let mut vals = Vec::with_capacity(nch);
                for c in 0..nch {
                    let v = out.channel(c).unwrap().to64();
                    vals.push(v);
                    if !check_rms::<T<F>>(cx, step, c, &chans[c], v, "next") {
                        return false;
                    }
                }
                last_next = Some(vals);
            }
            _ => {
                let out = rms.next_squared(*fr);
                for c in 0..nch {
                    let v = out.channel(c).unwrap().to64();
                    if !check_ms::<T<F>>(cx, step, c, &chans[c], v, "next_squared") {
                        return false;
                    }
                }
                last_next = None;
            }
        }
    }
    true
}

/// the same monitor on the signal adaptor: one source pull per output, exhaustion forwarded
fn run_adaptor<F>(cx: &mut Ctx, n: usize, frames: &[F]) -> bool
where
    F: Frame + 'static,
    F::Sample: AnyS,
    <F::Sample as Sample>::Float: Fl,
{
    type T<F> = <<F as Frame>::Sample as Sample>::Float;
    let probe = Probe::new();
    let src = USource::finite(Rc::new(frames.to_vec()), probe.clone());
    let first = (frames.len() + 1) % n;
    if first != 0 {
        ROTATED.with(|c| c.set(c.get() + 1));
    }
    let mut sig = src.rms(ring_buffer::Fixed::from_raw_parts(first, vec![F::Float::EQUILIBRIUM; n]));
    let nch = F::CHANNELS;
    let mut chans: Vec<Chan> = (0..nch).map(|_| Chan::new(n)).collect();
    for (step, fr) in frames.iter().enumerate() {
        if sig.is_exhausted() {
            cx.rep.violation(&cx.sig("adaptor_exhausted_early"), format!("step {}", step), cx.case(step));
            return false;
        }
        for c in 0..nch {
            chans[c].push::<T<F>>(companion_value::<F::Sample>(*fr.channel(c).unwrap()));
        }
        let squared = step % 3 == 2;
        let out = if squared { sig.next_squared() } else { sig.next() };
        if probe.pulls() != step as u64 + 1 {
            cx.rep.violation(&cx.sig("adaptor_pull_count"), format!("after {} outputs the source was pulled {} times", step + 1, probe.pulls()), cx.case(step));
            return false;
        }
        for c in 0..nch {
            let v = out.channel(c).unwrap().to64();
            let ok = if squared { check_ms::<T<F>>(cx, step, c, &chans[c], v, "adaptor_next_squared") } else { check_rms::<T<F>>(cx, step, c, &chans[c], v, "adaptor_next") };
            if !ok {
                return false;
            }
        }
    }
    if !sig.is_exhausted() {
        cx.rep.violation(&cx.sig("adaptor_not_exhausted"), "source exhausted but adaptor is not".to_string(), cx.case(frames.len()));
        return false;
    }
    let (_s, det) = sig.into_parts();
    if det.window_frames() != n {
        cx.rep.violation(&cx.sig("adaptor_into_parts"), "window length changed".to_string(), cx.case(0));
        return false;
    }
    cx.rep.hit("adaptor_histories");
    true
}

const HISTS: [&str; 8] = ["random", "loud_then_silent", "alternating", "tiny", "large", "constant", "ramp", "bursts"];

/// amplitude in [-1, 1) for history kind `h` at step i
fn amp(h: &str, i: usize, len: usize, rng: &mut Rng) -> f64 {
    match h {
        "random" => rng.f64_in(-1.0, 1.0),
        "loud_then_silent" => {
            if i < len / 2 {
                rng.f64_in(-1.0, 1.0)
            } else {
                0.0
            }
        }
        "alternating" => {
            if i % 2 == 0 {
                0.999
            } else {
                -1.0
            }
        }
        "tiny" => rng.f64_in(-1.0, 1.0) * 1e-20,
        "large" => rng.f64_in(-1.0, 1.0), // scaled by the float formats below
        "constant" => 0.37,
        "ramp" => (i as f64 / len.max(1) as f64) * 1.8 - 0.9,
        _ => {
            if (i / 7) % 3 == 0 {
                rng.f64_in(-1.0, 1.0)
            } else {
                rng.f64_in(-1e-4, 1e-4)
            }
        }
    }
}

trait MkSample: AnyS {
    fn from_amp(a: f64, h: &str) -> Self;
}
macro_rules! mk_int {
    ($($T:ty),*) => {$(
        impl MkSample for $T {
            fn from_amp(a: f64, _h: &str) -> Self {
                let f = <$T as IntS>::FMT;
                let half = f.half() as f64;
                let v = (a * half).floor().clamp(-(half), half - 1.0) as i128;
                <$T as IntS>::from_raw(f.from_amp(v))
            }
        }
    )*};
}
mk_int!(i16, u8, I24, i32, U48);
impl MkSample for f32 {
    fn from_amp(a: f64, h: &str) -> Self {
        (if h == "large" { a * 1e15 } else { a }) as f32
    }
}
impl MkSample for f64 {
    fn from_amp(a: f64, h: &str) -> Self {
        if h == "large" {
            a * 1e15
        } else {
            a
        }
    }
}

fn gen_frames<F>(h: &'static str, len: usize, rng: &mut Rng) -> Vec<F>
where
    F: Frame,
    F::Sample: MkSample,
{
    (0..len).map(|i| F::from_fn(|_| <F::Sample as MkSample>::from_amp(amp(h, i, len, rng), h))).collect()
}

fn gen_acts(rng: &mut Rng, resets: bool) -> Vec<Act> {
    let mut v = Vec::new();
    for _ in 0..97 {
        v.push(match rng.below(40) {
            0 if resets => Act::Reset,
            1 | 2 => Act::Current,
            3..=14 => Act::NextSquared,
            _ => Act::Next,
        });
    }
    v
}

fn one_config<F>(rep: &mut Report, sqrt: SqrtKind, fmt: &'static str, n: usize, hist: &'static str, len: usize, seed: u64, only_step: Option<usize>)
where
    F: Frame + 'static,
    F::Sample: MkSample,
    <F::Sample as Sample>::Float: Fl,
{
    let _ = only_step;
    let mut rng = Rng::derive(seed, &[11, vmon::hash_str(fmt), n as u64, vmon::hash_str(hist), F::CHANNELS as u64]);
    let frames: Vec<F> = gen_frames::<F>(hist, len, &mut rng);
    let acts = gen_acts(&mut rng, true);
    let mut cx = Ctx { rep, sqrt, fmt, n, ch: F::CHANNELS, hist, seed };
    let r = vmon::catch(std::panic::AssertUnwindSafe(|| {
        let ok = run_detector::<F>(&mut cx, n, &frames, &acts);
        if ok && len <= 5000 {
            run_adaptor::<F>(&mut cx, n, &frames);
        }
    }));
    if let Err(m) = r {
        let (sig, case) = (cx.sig("panic"), cx.case(0));
        cx.rep.violation(&sig, format!("window {} history {} length {}: panicked: {}", n, hist, len, m), case);
    }
    cx.rep.hit("configs_run");
    cx.rep.nontrivial(vmon::hash_combine(vmon::hash_str(fmt), vmon::hash_combine(n as u64 * 16 + F::CHANNELS as u64, vmon::hash_combine(vmon::hash_str(hist), len as u64))));
    if cx.rep.want_sample() && n == 4 && F::CHANNELS == 2 {
        let s = J::obj().set("fmt", J::s(fmt)).set("window", J::u(n as u64)).set("channels", J::u(F::CHANNELS as u64)).set("history", J::s(hist)).set("frames", J::u(len as u64)).set("sqrt", J::s(if sqrt == SqrtKind::Approx { "no_std approximation (7%)" } else { "exact" }));
        cx.rep.sample(s);
    }
}

macro_rules! formats {
    ($m:ident) => {
        $m!("f32", f32);
        $m!("f64", f64);
        $m!("i16", i16);
        $m!("u8", u8);
        $m!("I24", I24);
        $m!("i32", i32);
        $m!("U48", U48);
    };
}

fn main() {
    let cli = Cli::parse();
    let t0 = Instant::now();
    let mut rep = Report::new("C11", &cli.stage);
    let sqrt = if cli.get_str("sqrt") == Some("approx") { SqrtKind::Approx } else { SqrtKind::Exact };
    // sanity: the build really has the sqrt flavour the driver claims (std: exact sqrt(2))
    {
        use dasp_sample::FloatSample;
        let s = 2.0f32.sample_sqrt();
        let exact = s == 2.0f32.sqrt();
        if exact != (sqrt == SqrtKind::Exact) {
            rep.note(format!("build/config mismatch: sample_sqrt(2.0) = {} but stage expects {:?} sqrt", s, if sqrt == SqrtKind::Exact { "exact" } else { "approx" }));
            rep.oblige("build_matches_configuration", 1);
        } else {
            rep.hit("build_matches_configuration");
        }
    }
    let windows: Vec<usize> = vec![1, 2, 3, 4, 7, 64, 1000];
    let seed = cli.seed;

    if let Some(cs) = &cli.case {
        let m = vmon::cli::parse_case(cs);
        let n: usize = m["n"].parse().unwrap();
        let ch: usize = m["ch"].parse().unwrap();
        let hist: &'static str = HISTS.iter().copied().find(|h| *h == m["hist"]).unwrap();
        let cseed: u64 = m["seed"].parse().unwrap();
        let len: usize = m.get("len").map(|l| l.parse().unwrap()).unwrap_or(0);
        let _ = len;
        macro_rules! rp {
            ($name:expr, $S:ty) => {
                if m["fmt"] == $name {
                    for len in lens(&cli, n) {
                        match ch {
                            1 => one_config::<[$S; 1]>(&mut rep, sqrt, $name, n, hist, len, cseed, None),
                            2 => one_config::<[$S; 2]>(&mut rep, sqrt, $name, n, hist, len, cseed, None),
                            _ => one_config::<[$S; 5]>(&mut rep, sqrt, $name, n, hist, len, cseed, None),
                        }
                    }
                }
            };
        }
        formats!(rp);
        flush(&mut rep);
        finish(&cli, rep, t0);
    }

    rep.oblige("configs_run", 1);
    rep.oblige("reset_mid_stream", 1);
    rep.oblige("adaptor_histories", 1);
    rep.oblige("tight_interval_checks", 1);
    rep.oblige("window_handed_over_rotated", 1);
    rep.oblige("clone_conformance_scripts", 1);
    clone_conformance(&mut rep, cli.seed);
    rep.oblige("channel_next_to_an_overflowing_channel", 1);
    channel_isolation(&mut rep);
    rep.oblige("drift_dominated_checks", 0);

    // job list: (format, window, history, channels)
    let mut jobs: Vec<(usize, usize, &'static str, usize)> = Vec::new();
    for fi in 0..7 {
        for &n in &windows {
            for h in HISTS {
                if (h == "tiny" || h == "large") && fi >= 2 {
                    continue; // float-only magnitudes
                }
                for ch in [1usize, 2, 5] {
                    jobs.push((fi, n, h, ch));
                }
            }
        }
    }
    let cli2 = cli.clone();
    let reps = vmon::par_for(cli.threads, jobs.len() as u64, 1, |_| Report::new("C11", "w"), |rep, ji| {
        let (fi, n, h, ch) = jobs[ji as usize];
        let mut k = 0;
        macro_rules! run {
            ($name:expr, $S:ty) => {
                if k == fi {
                    for len in lens(&cli2, n) {
                        match ch {
                            1 => one_config::<[$S; 1]>(rep, sqrt, $name, n, h, len, seed, None),
                            2 => one_config::<[$S; 2]>(rep, sqrt, $name, n, h, len, seed, None),
                            _ => one_config::<[$S; 5]>(rep, sqrt, $name, n, h, len, seed, None),
                        }
                    }
                }
                k += 1;
            };
        }
        formats!(run);
        let _ = k;
        flush(rep);
    });
    for r in reps {
        rep.merge(r);
    }
    // mono sample-as-frame path
    one_config::<f32>(&mut rep, sqrt, "f32", 4, "random", 300, seed, None);
    one_config::<i16>(&mut rep, sqrt, "i16", 7, "bursts", 300, seed, None);
    one_config::<f64>(&mut rep, sqrt, "f64", 3, "loud_then_silent", 300, seed, None);
    flush(&mut rep);
    rep.note(format!("configuration: sqrt = {}", if sqrt == SqrtKind::Approx { "no_std bit-trick approximation (7% + 2^-60/2^-500)" } else { "std exact" }));
    finish(&cli, rep, t0);
}

/// `clone()` / `clone_from()` of a detector mid-stream (also onto a detector with another history
/// and another rotation) must carry the whole state: window AND running sum
fn clone_conformance(rep: &mut Report, seed: u64) {
    let mut rng = Rng::derive(seed, &[112]);
    let mut n = 0;
    for win in [1usize, 2, 5, 16] {
        let cs = format!("kind=clone;n={}", win);
        let mk = |v: u64| Rms::<[f32; 2], Vec<[f32; 2]>>::new(ring_buffer::Fixed::from_raw_parts((v as usize * 3 + 1) % win, vec![[0.0f32; 2]; win]));
        let step = |r: &mut Rms<[f32; 2], Vec<[f32; 2]>>, i: u64| {
            if i % 23 == 22 {
                r.reset();
            }
            let x = ((i * 37 % 101) as f32 - 50.0) / 64.0;
            let o = r.next([x, -x * 0.5]);
            [o[0].to_bits(), o[1].to_bits()]
        };
        n += checks::cloneconf::check_clone_state("rms", &cs, mk, step, rep, &mut rng, 24, 3 * win + 4, 2 * win + 3);
        let mk64 = |v: u64| Rms::<f64, Vec<f64>>::new(ring_buffer::Fixed::from_raw_parts((v as usize + 2) % win, vec![0.0f64; win]));
        let step64 = |r: &mut Rms<f64, Vec<f64>>, i: u64| r.next_squared(((i * 29 % 97) as f64 - 40.0) / 128.0).to_bits();
        n += checks::cloneconf::check_clone_state("rms", &cs, mk64, step64, rep, &mut rng, 12, 3 * win + 4, 2 * win + 3);
    }
    rep.eval(n);
    rep.hit_n("clone_conformance_scripts", n);
}

/// Channels are independent: while one channel of a stereo detector is fed finite samples whose
/// squares overflow (its own reading is then inf / NaN - outside the statement), the OTHER channel
/// must still read exactly what a mono detector fed the same values reads (same arithmetic, so
/// bit for bit).
fn channel_isolation(rep: &mut Report) {
    let mut n_checked = 0u64;
    for win in [1usize, 4, 16] {
        for huge_in in [0usize, 1] {
            let case = format!("kind=isolation;n={};huge_in={}", win, huge_in);
            let r = vmon::catch(|| -> Result<u64, String> {
                let mut st = Rms::<[f32; 2], Vec<[f32; 2]>>::new(ring_buffer::Fixed::from(vec![[0.0f32; 2]; win]));
                let mut mono = Rms::<f32, Vec<f32>>::new(ring_buffer::Fixed::from(vec![0.0f32; win]));
                let mut k = 0u64;
                for i in 0..240u64 {
                    if i == 150 {
                        st.reset();
                        mono.reset();
                    }
                    let x = ((i * 37 % 101) as f32 - 50.0) / 64.0;
                    let h = if i % 17 == 5 { 1e30f32 } else if i % 29 == 3 { -3e38f32 } else { 0.25 };
                    let fr = if huge_in == 0 { [h, x] } else { [x, h] };
                    let (a, b) = (st.next(fr), mono.next(x));
                    let got = a[1 - huge_in];
                    if got.to_bits() != b.to_bits() {
                        return Err(format!("window {}: step {}: the ordinary channel reads {:e} but a mono detector fed the same values reads {:e} (the other channel was fed {:e} at steps = 5 mod 17)", win, i, got, b, 1e30f32));
                    }
                    k += 1;
                }
                Ok(k)
            });
            match r {
                Ok(Ok(k)) => n_checked += k,
                Ok(Err(d)) => {
                    rep.violation("rms|channel_disturbed_by_overflow_in_another_channel", d, case);
                    return;
                }
                Err(m) => {
                    rep.violation("rms|channel_isolation|panic", m, case);
                    return;
                }
            }
        }
    }
    rep.eval(n_checked);
    rep.hit_n("channel_next_to_an_overflowing_channel", n_checked);
}

/// history lengths for window n
fn lens(cli: &Cli, n: usize) -> Vec<usize> {
    if cli.thorough() {
        vec![3 * n + 5, 40 * n.min(64) + 17, 200_000.max(50 * n)]
    } else {
        vec![3 * n + 5, (30 * n + 11).min(20_000)]
    }
}

fn flush(rep: &mut Report) {
    rep.eval(EVALS.with(|c| c.replace(0)));
    rep.hit_n("tight_interval_checks", TIGHT.with(|c| c.replace(0)));
    rep.hit_n("drift_dominated_checks", CLAMP_REGION.with(|c| c.replace(0)));
    rep.hit_n("window_handed_over_rotated", ROTATED.with(|c| c.replace(0)));
}
