//! C16 — built-in graph nodes compute their documented mixing, routing and delay functions.
//!
//! Each node under test sits in a real graph behind `Feed` nodes that emit prepared buffers, is
//! driven through `Processor::process` for several consecutive calls, and its output buffers are
//! compared with a per-node oracle (sample-wise sums, copies, a model delay line per channel,
//! de-interleaved frames of an index-valued signal, the inner graph processed directly).
//! Wrappers (&mut, Box, BoxedNode, BoxedNodeSend, closures, fn pointer) run side by side with the
//! bare node and must produce bit-identical buffers.

use dasp_graph::node::{Delay, GraphNode, Pass, Sum, SumBuffers};
use dasp_graph::{BoxedNode, BoxedNodeSend, Buffer, Input, Node, NodeData, Processor};
use petgraph::graph::NodeIndex;
use petgraph::Graph;
use std::cell::Cell;
use std::rc::Rc;
use std::time::Instant;
use vmon::{Cli, Report, Rng, J};

const LEN: usize = Buffer::LEN;

thread_local! {
    static EVALS: Cell<u64> = const { Cell::new(0) };
    static HINTED: Cell<u64> = const { Cell::new(0) };
    static ROTATED: Cell<u64> = const { Cell::new(0) };
    static INNER_STATE: Cell<u64> = const { Cell::new(0) };
    static FED_INSIDE: Cell<u64> = const { Cell::new(0) };
}
fn ev(n: u64) {
    EVALS.with(|c| c.set(c.get() + n));
}

type Block = Vec<[f32; LEN]>; // one node's buffers for one call

/// emits prepared buffers, one Block per process call
struct Feed {
    data: Rc<Vec<Block>>,
    call: usize,
}
impl Node for Feed {
    fn process(&mut self, _inputs: &[Input], output: &mut [Buffer]) {
        let blk = &self.data[self.call.min(self.data.len() - 1)];
        for (o, d) in output.iter_mut().zip(blk.iter()) {
            o.copy_from_slice(d);
        }
        self.call += 1;
    }
}

/// leaves its buffers alone (used as the input nodes of a nested graph)
struct Hold;
impl Node for Hold {
    fn process(&mut self, _inputs: &[Input], _output: &mut [Buffer]) {}
}

fn garbage(seed: usize) -> Buffer {
    let mut b = Buffer::SILENT;
    for (i, s) in b.iter_mut().enumerate() {
        *s = -7777.0 - (seed * 64 + i) as f32;
    }
    b
}

/// Drive `node` (any Node) with `feeds` (per input: per call: Block) for `calls` calls and return
/// the node's output buffers after each call. Output buffers start as recognisable garbage.
fn drive<'a>(node: &'a mut dyn Node, feeds: &[Rc<Vec<Block>>], n_out: usize, calls: usize) -> Vec<Vec<[f32; LEN]>> {
    // graph over &mut dyn Node weights so that borrowed nodes, boxed nodes and closures all fit
    let mut feed_nodes: Vec<Feed> = feeds.iter().map(|d| Feed { data: d.clone(), call: 0 }).collect();
    let mut g: Graph<NodeData<&mut dyn Node>, ()> = Graph::new();
    let mut ins = Vec::new();
    for (f, d) in feed_nodes.iter_mut().zip(feeds) {
        let nb = d[0].len();
        ins.push(g.add_node(NodeData::new(f as &mut dyn Node, vec![Buffer::SILENT; nb])));
    }
    let t = g.add_node(NodeData::new(node, (0..n_out).map(garbage).collect()));
    // edges are added in reverse so that petgraph's newest-first neighbour order presents the
    // inputs in the order given
    for i in ins.iter().rev() {
        g.add_edge(*i, t, ());
    }
    let mut p = Processor::with_capacity(g.node_count());
    let mut outs = Vec::new();
    for _ in 0..calls {
        p.process(&mut g, t);
        outs.push(g[t].buffers.iter().map(|b| {
            let mut a = [0f32; LEN];
            a.copy_from_slice(&b[..]);
            a
        }).collect());
    }
    outs
}

fn block(rng: &mut Rng, n_bufs: usize, integer: bool) -> Block {
    (0..n_bufs)
        .map(|_| {
            let mut a = [0f32; LEN];
            for s in a.iter_mut() {
                *s = if integer { rng.range_i64(-1000, 1000) as f32 } else { rng.f64_in(-1.0, 1.0) as f32 };
            }
            a
        })
        .collect()
}

fn garbage_arr(seed: usize) -> [f32; LEN] {
    let g = garbage(seed);
    let mut a = [0f32; LEN];
    a.copy_from_slice(&g[..]);
    a
}

struct Cx<'a> {
    rep: &'a mut Report,
    case: String,
}
impl<'a> Cx<'a> {
    fn fail(&mut self, sig: &str, detail: String) {
        self.rep.violation(&format!("node|{}", sig), format!("{} [{}]", detail, self.case), self.case.clone());
    }
}

fn same_bits(a: &[f32; LEN], b: &[f32; LEN]) -> bool {
    a.iter().zip(b.iter()).all(|(x, y)| x.to_bits() == y.to_bits())
}

// ------------------------------------------------------------------ Sum / SumBuffers / Pass
fn check_sum(cx: &mut Cx, in_bufs: &[usize], n_out: usize, integer: bool, calls: usize, seed: u64) -> bool {
    let mut rng = Rng::derive(seed, &[16, 1]);
    let feeds: Vec<Rc<Vec<Block>>> = in_bufs.iter().map(|nb| Rc::new((0..calls).map(|_| block(&mut rng, *nb, integer)).collect())).collect();
    let mut node = Sum;
    let outs = drive(&mut node, &feeds, n_out, calls);
    for (k, out) in outs.iter().enumerate() {
        for c in 0..n_out {
            for s in 0..LEN {
                let mut want = 0.0f64;
                let mut mag = 0.0f64;
                for f in &feeds {
                    if let Some(b) = f[k].get(c) {
                        want += b[s] as f64;
                        mag += (b[s] as f64).abs();
                    }
                }
                let got = out[c][s] as f64;
                let tol = if integer { 0.0 } else { in_bufs.len() as f64 * 6.0e-8 * mag + 1e-30 };
                if (got - want).abs() > tol {
                    let what = if in_bufs.iter().all(|nb| *nb <= c) { "sum|output_not_silenced" } else { "sum|wrong_sum" };
                    cx.fail(what, format!("call {} channel {} sample {}: {} expected {} (inputs with that channel: {})", k, c, s, got, want, in_bufs.iter().filter(|nb| **nb > c).count()));
                    return false;
                }
            }
        }
        ev((n_out * LEN) as u64);
    }
    true
}

fn check_sum_buffers(cx: &mut Cx, in_bufs: &[usize], n_out: usize, integer: bool, calls: usize, seed: u64) -> bool {
    let mut rng = Rng::derive(seed, &[16, 2]);
    let feeds: Vec<Rc<Vec<Block>>> = in_bufs.iter().map(|nb| Rc::new((0..calls).map(|_| block(&mut rng, *nb, integer)).collect())).collect();
    let mut node = SumBuffers;
    let outs = drive(&mut node, &feeds, n_out, calls);
    let total: usize = in_bufs.iter().sum();
    for (k, out) in outs.iter().enumerate() {
        for c in 0..n_out {
            for s in 0..LEN {
                let mut want = 0.0f64;
                let mut mag = 0.0f64;
                for f in &feeds {
                    for b in f[k].iter() {
                        want += b[s] as f64;
                        mag += (b[s] as f64).abs();
                    }
                }
                let got = out[c][s] as f64;
                let tol = if integer { 0.0 } else { total as f64 * 6.0e-8 * mag + 1e-30 };
                if (got - want).abs() > tol {
                    cx.fail("sum_buffers|wrong_sum", format!("call {} output buffer {} sample {}: {} expected {} (sum of all {} input buffers)", k, c, s, got, want, total));
                    return false;
                }
            }
        }
        ev((n_out * LEN) as u64);
    }
    true
}

fn check_pass(cx: &mut Cx, in_bufs: Option<usize>, n_out: usize, calls: usize, seed: u64) -> bool {
    let mut rng = Rng::derive(seed, &[16, 3]);
    let feeds: Vec<Rc<Vec<Block>>> = in_bufs.iter().map(|nb| Rc::new((0..calls).map(|_| block(&mut rng, *nb, false)).collect())).collect();
    let mut node = Pass;
    let outs = drive(&mut node, &feeds, n_out, calls);
    for (k, out) in outs.iter().enumerate() {
        for c in 0..n_out {
            let want: [f32; LEN] = match in_bufs {
                Some(nb) if c < nb => feeds[0][k][c],
                _ => garbage_arr(c), // untouched
            };
            if !same_bits(&out[c], &want) {
                let what = if matches!(in_bufs, Some(nb) if c < nb) { "pass|not_a_copy_of_the_input" } else { "pass|surplus_output_modified" };
                cx.fail(what, format!("call {} output buffer {}: first samples {:?}, expected {:?}", k, c, &out[c][..3], &want[..3]));
                return false;
            }
        }
        ev((n_out * LEN) as u64);
    }
    true
}

// ------------------------------------------------------------------ Delay
fn check_delay(cx: &mut Cx, ring_lens: &[usize], in_bufs: Option<usize>, n_out: usize, calls: usize, seed: u64) -> bool {
    let mut rng = Rng::derive(seed, &[16, 4]);
    let feeds: Vec<Rc<Vec<Block>>> = in_bufs.iter().map(|nb| Rc::new((0..calls).map(|_| block(&mut rng, *nb, false)).collect())).collect();
    // initial ring contents: distinctive negative values
    // the rings are handed over rotated (first index derived from the seed): logical element i
    // of channel ch lives in physical slot (first + i) % len
    let rings: Vec<reg_ring_buffer::Fixed<Vec<f32>>> = ring_lens
        .iter()
        .enumerate()
        .map(|(ch, l)| {
            let first = (seed as usize + 3 * ch + 1) % *l;
            let mut phys = vec![0f32; *l];
            for i in 0..*l {
                phys[(first + i) % *l] = -(1000.0 * (ch + 1) as f32) - i as f32;
            }
            if first != 0 {
                ROTATED.with(|c| c.set(c.get() + 1));
            }
            reg_ring_buffer::Fixed::from_raw_parts(first, phys)
        })
        .collect();
    let mut node = Delay(rings);
    let outs = drive(&mut node, &feeds, n_out, calls);
    let active = match in_bufs {
        Some(nb) => ring_lens.len().min(nb).min(n_out),
        None => 0,
    };
    for (k, out) in outs.iter().enumerate() {
        for c in 0..n_out {
            for s in 0..LEN {
                let want: f32 = if c < active {
                    let t = k * LEN + s; // stream position of this channel
                    let l = ring_lens[c];
                    if t < l {
                        -(1000.0 * (c + 1) as f32) - t as f32
                    } else {
                        let src = t - l;
                        feeds[0][src / LEN][c][src % LEN]
                    }
                } else {
                    garbage_arr(c)[s]
                };
                if out[c][s].to_bits() != want.to_bits() {
                    let what = if c < active { "delay|not_delayed_by_ring_length" } else { "delay|inactive_output_modified" };
                    cx.fail(what, format!("call {} channel {} sample {}: {} expected {} (ring lengths {:?})", k, c, s, out[c][s], want, ring_lens));
                    return false;
                }
            }
        }
        ev((n_out * LEN) as u64);
    }
    true
}

// ------------------------------------------------------------------ signal node
/// registry-trait signal yielding frame k = [k*N + c] (exact in f32 for the lengths used)
struct Counter<const N: usize> {
    k: u32,
    /// Some(L): exhausted after L frames, equilibrium (0.0) from then on
    len: Option<u32>,
}
impl<const N: usize> reg_signal::Signal for Counter<N>
where
    [f32; N]: reg_frame::Frame<Sample = f32>,
{
    type Frame = [f32; N];
    fn next(&mut self) -> [f32; N] {
        let k = self.k;
        self.k += 1;
        if matches!(self.len, Some(l) if k >= l) {
            return [0.0; N];
        }
        core::array::from_fn(|c| (k * N as u32 + c as u32 + 1) as f32)
    }
    fn is_exhausted(&self) -> bool {
        matches!(self.len, Some(l) if self.k >= l)
    }
}

fn check_signal_node<const N: usize>(cx: &mut Cx, n_out: usize, calls: usize) -> bool
where
    [f32; N]: reg_frame::Frame<Sample = f32>,
{
    // an endless signal, one that runs dry in the middle of a buffer, one that is empty
    for len in [None, Some(100u32), Some(64), Some(0)] {
        if !check_signal_node_len::<N>(cx, n_out, calls, len) {
            return false;
        }
    }
    true
}

fn check_signal_node_len<const N: usize>(cx: &mut Cx, n_out: usize, calls: usize, len: Option<u32>) -> bool
where
    [f32; N]: reg_frame::Frame<Sample = f32>,
{
    let mut node: Box<dyn reg_signal::Signal<Frame = [f32; N]>> = Box::new(Counter::<N> { k: 0, len });
    let outs = drive(&mut node, &[], n_out, calls);
    for (k, out) in outs.iter().enumerate() {
        for c in 0..n_out {
            for s in 0..LEN {
                let frame = (k * LEN + s) as u32;
                let past_end = matches!(len, Some(l) if frame >= l);
                let want = if c < N { if past_end { 0.0 } else { (frame * N as u32 + c as u32 + 1) as f32 } } else { garbage_arr(c)[s] };
                if out[c][s].to_bits() != want.to_bits() {
                    let what = if c < N && past_end { "signal|exhausted_signal_not_written_as_equilibrium" } else if c < N { "signal|wrong_frame_or_channel" } else { "signal|surplus_buffer_modified" };
                    cx.fail(what, format!("{}-channel signal (length {:?}) into {} buffers: call {} buffer {} sample {}: {} expected {}", N, len, n_out, k, c, s, out[c][s], want));
                    return false;
                }
            }
        }
        ev((n_out * LEN) as u64);
    }
    true
}

/// Signal nodes whose signal is a chain of real dasp_signal adaptors over an exhaustible source.
/// Adaptors forward or combine the `is_exhausted()` *hint* of their sources while still yielding
/// non-equilibrium frames (an offset, the other operand of a sum), so the node must keep writing
/// what `next()` yields whatever the hint says. The reference is a second, identical instance of
/// the same chain stepped directly with `next()`.
fn adaptor_chain<const N: usize>(which: usize, len: u32) -> Box<dyn reg_signal::Signal<Frame = [f32; N]>>
where
    [f32; N]: reg_frame::Frame<Sample = f32, Signed = [f32; N], Float = [f32; N]>,
{
    use reg_signal::Signal;
    let finite = move || reg_signal::from_iter((0..len).map(|k| -> [f32; N] { core::array::from_fn(|c| ((k * N as u32 + c as u32) % 97) as f32 / 128.0 + 0.125) }));
    let mut t = 0u32;
    let bed = move || {
        reg_signal::gen_mut(move || -> [f32; N] {
            t += 1;
            core::array::from_fn(|c| ((t + c as u32) % 13) as f32 / 64.0 - 0.0625)
        })
    };
    let half: [f32; N] = [0.5; N];
    match which {
        0 => Box::new(finite().offset_amp(0.5)),
        1 => Box::new(bed().add_amp(finite())),
        2 => Box::new(finite().add_amp(bed())),
        3 => Box::new(finite().map(move |f: [f32; N]| -> [f32; N] { core::array::from_fn(|c| f[c] + 0.25) })),
        4 => Box::new(finite().scale_amp(0.5).offset_amp(-0.25)),
        5 => Box::new(finite().zip_map(bed(), |a: [f32; N], b: [f32; N]| -> [f32; N] { core::array::from_fn(|c| a[c] - b[c] + 0.75) })),
        _ => Box::new(reg_signal::from_iter(std::iter::repeat(half).take(len as usize)).mul_amp(bed()).offset_amp(0.375)),
    }
}

fn check_signal_chain<const N: usize>(cx: &mut Cx, n_out: usize, calls: usize) -> bool
where
    [f32; N]: reg_frame::Frame<Sample = f32, Signed = [f32; N], Float = [f32; N]>,
{
    // interpreter-sized selection under Miri (cfg(miri) is set by `cargo miri`)
    let (chains, lens): (&[usize], &[u32]) = if cfg!(miri) { (&[0, 1, 5], &[40]) } else { (&[0, 1, 2, 3, 4, 5, 6], &[0, 1, 40, 64, 100]) };
    for &which in chains {
        for &len in lens {
            let mut node = adaptor_chain::<N>(which, len);
            let mut twin = adaptor_chain::<N>(which, len);
            let hint_at_start = twin.is_exhausted();
            let outs = drive(&mut node, &[], n_out, calls);
            let mut hint_seen = hint_at_start;
            for (k, out) in outs.iter().enumerate() {
                for s in 0..LEN {
                    let want_frame = twin.next();
                    for c in 0..n_out {
                        let want = if c < N { want_frame[c] } else { garbage_arr(c)[s] };
                        if out[c][s].to_bits() != want.to_bits() {
                            let what = if c >= N {
                                "signal|surplus_buffer_modified"
                            } else if hint_seen {
                                "signal|frames_not_written_while_exhaustion_hint_set"
                            } else {
                                "signal|wrong_frame_or_channel"
                            };
                            cx.fail(what, format!("{}-channel adaptor chain #{} over a {}-frame source into {} buffers: call {} buffer {} sample {}: {} but next() of an identical signal yields {} (is_exhausted() hint {})", N, which, len, n_out, k, c, s, out[c][s], want, hint_seen));
                            return false;
                        }
                    }
                    hint_seen = twin.is_exhausted();
                }
                ev((n_out * LEN) as u64);
            }
            if hint_seen {
                HINTED.with(|c| c.set(c.get() + 1));
            }
        }
    }
    true
}

// ------------------------------------------------------------------ nested graph
fn check_graph_node(cx: &mut Cx, in_bufs: &[usize], n_out: usize, calls: usize, seed: u64) -> bool {
    let mut rng = Rng::derive(seed, &[16, 5]);
    let feeds: Vec<Rc<Vec<Block>>> = in_bufs.iter().map(|nb| Rc::new((0..calls).map(|_| block(&mut rng, *nb, true)).collect())).collect();
    // inner graph: one Hold node per input (2 buffers each) -> Sum (2 buffers) -> Pass (n_out buffers)
    let build_inner = || {
        let mut g: Graph<NodeData<BoxedNode>, ()> = Graph::new();
        // On odd seeds the FIRST designated input node is a Pass with two buffers that is also fed
        // from inside the inner graph by a one-buffer signal node: processing it overwrites only
        // buffer 0, buffer 1 keeps what the outer input put there.
        let fed_inside = seed % 2 == 1;
        let holds: Vec<NodeIndex> = in_bufs.iter().enumerate().map(|(k, _)| if fed_inside && k == 0 { g.add_node(NodeData::new(BoxedNode::new(Pass), vec![Buffer::SILENT; 2])) } else { g.add_node(NodeData::new(BoxedNode::new(Hold), vec![Buffer::SILENT; 2])) }).collect();
        if fed_inside {
            let feeder = g.add_node(NodeData::new(BoxedNode::new(Box::new(Counter::<1> { k: 1000, len: None }) as Box<dyn reg_signal::Signal<Frame = [f32; 1]>>), vec![Buffer::SILENT; 1]));
            g.add_edge(feeder, holds[0], ());
            FED_INSIDE.with(|c| c.set(c.get() + 1));
        }
        let sum = g.add_node(NodeData::new(BoxedNode::new(Sum), vec![Buffer::SILENT; 2]));
        let out = g.add_node(NodeData::new(BoxedNode::new(Pass), vec![Buffer::SILENT; 2]));
        // a stateful inner source (a counting signal node): the inner graph has a history of its
        // own, so a nested graph that is not processed on some call falls behind for good
        let ctr = g.add_node(NodeData::new(BoxedNode::new(Box::new(Counter::<2> { k: 0, len: None }) as Box<dyn reg_signal::Signal<Frame = [f32; 2]>>), vec![Buffer::SILENT; 2]));
        for h in &holds {
            g.add_edge(*h, sum, ());
        }
        g.add_edge(ctr, sum, ());
        g.add_edge(sum, out, ());
        (g, holds, out)
    };
    let (g, holds, out) = build_inner();
    let mut node = GraphNode { processor: Processor::with_capacity(g.node_count()), graph: g, input_nodes: holds, output_node: out, node_type: std::marker::PhantomData };
    let outs = drive(&mut node, &feeds, n_out, calls);
    // reference: process an identical inner graph directly with the inputs copied in
    let (mut g2, holds2, out2) = build_inner();
    let mut p2 = Processor::with_capacity(g2.node_count());
    for k in 0..calls {
        for (h, f) in holds2.iter().zip(&feeds) {
            for (b, d) in g2[*h].buffers.iter_mut().zip(f[k].iter()) {
                b.copy_from_slice(d);
            }
        }
        p2.process(&mut g2, out2);
        for c in 0..n_out {
            let want: [f32; LEN] = if c < 2 {
                let mut a = [0f32; LEN];
                a.copy_from_slice(&g2[out2].buffers[c][..]);
                a
            } else {
                garbage_arr(c)
            };
            if !same_bits(&outs[k][c], &want) {
                cx.fail("graph_node|differs_from_processing_the_inner_graph_directly", format!("call {} buffer {}: {:?} expected {:?}", k, c, &outs[k][c][..3], &want[..3]));
                return false;
            }
        }
        ev((n_out * LEN) as u64);
    }
    // the wrapped graph itself (public field) must be in the state the directly processed twin
    // is in - whatever the outer node's buffer count, zero included
    for ix in g2.node_indices() {
        let (a, b) = (&node.graph[ix].buffers, &g2[ix].buffers);
        if a.len() != b.len() || a.iter().zip(b.iter()).any(|(x, y)| x.iter().zip(y.iter()).any(|(p, q)| p.to_bits() != q.to_bits())) {
            cx.fail("graph_node|inner_graph_state_differs_from_processing_it_directly", format!("after {} calls with {} outer buffers: inner node {} holds {:?}, the directly processed twin {:?}", calls, n_out, ix.index(), a.first().map(|x| x[0]), b.first().map(|x| x[0])));
            return false;
        }
    }
    INNER_STATE.with(|c| c.set(c.get() + 1));
    true
}

// ------------------------------------------------------------------ wrappers
fn sum_fn(inputs: &[Input], output: &mut [Buffer]) {
    Sum.process(inputs, output)
}

fn check_wrappers(cx: &mut Cx, in_bufs: &[usize], n_out: usize, calls: usize, seed: u64) -> bool {
    let mut rng = Rng::derive(seed, &[16, 6]);
    let feeds: Vec<Rc<Vec<Block>>> = in_bufs.iter().map(|nb| Rc::new((0..calls).map(|_| block(&mut rng, *nb, false)).collect())).collect();
    let mut bare = Sum;
    let reference = drive(&mut bare, &feeds, n_out, calls);
    let mut variants: Vec<(&str, Box<dyn FnMut() -> Vec<Vec<[f32; LEN]>> + '_>)> = Vec::new();
    let f = &feeds;
    variants.push(("&mut T", Box::new(move || {
        let mut s = Sum;
        let mut r: &mut Sum = &mut s;
        drive(&mut r, f, n_out, calls)
    })));
    variants.push(("Box<T>", Box::new(move || {
        let mut b: Box<Sum> = Box::new(Sum);
        drive(&mut b, f, n_out, calls)
    })));
    variants.push(("Box<dyn Node>", Box::new(move || {
        let mut b: Box<dyn Node> = Box::new(Sum);
        drive(&mut b, f, n_out, calls)
    })));
    variants.push(("BoxedNode", Box::new(move || {
        let mut b = BoxedNode::new(Sum);
        drive(&mut b, f, n_out, calls)
    })));
    variants.push(("BoxedNodeSend", Box::new(move || {
        let mut b = BoxedNodeSend::new(Sum);
        drive(&mut b, f, n_out, calls)
    })));
    variants.push(("BoxedNode(Box<BoxedNode>)", Box::new(move || {
        let mut b = BoxedNode::new(BoxedNode::new(Sum));
        drive(&mut b, f, n_out, calls)
    })));
    variants.push(("Box<dyn FnMut>", Box::new(move || {
        let mut count = 0usize;
        let mut b: Box<dyn FnMut(&[Input], &mut [Buffer])> = Box::new(move |i: &[Input], o: &mut [Buffer]| {
            count += 1; // a genuinely mutable closure
            std::hint::black_box(count);
            Sum.process(i, o)
        });
        drive(&mut b, f, n_out, calls)
    })));
    variants.push(("Box<dyn Fn>", Box::new(move || {
        let mut b: Box<dyn Fn(&[Input], &mut [Buffer])> = Box::new(|i: &[Input], o: &mut [Buffer]| Sum.process(i, o));
        drive(&mut b, f, n_out, calls)
    })));
    variants.push(("fn pointer", Box::new(move || {
        let mut p: fn(&[Input], &mut [Buffer]) = sum_fn;
        drive(&mut p, f, n_out, calls)
    })));
    for (name, run) in variants.iter_mut() {
        let got = run();
        for k in 0..calls {
            for c in 0..n_out {
                if !same_bits(&got[k][c], &reference[k][c]) {
                    cx.fail(&format!("wrapper|{}|differs_from_wrapped_node", name), format!("call {} buffer {}: {:?} vs bare node {:?}", k, c, &got[k][c][..3], &reference[k][c][..3]));
                    return false;
                }
            }
        }
        ev((calls * n_out * LEN) as u64);
        cx.rep.hit("wrappers_compared");
    }
    // a Delay behind wrappers keeps its state across calls exactly like the bare node
    let dfeeds: Vec<Rc<Vec<Block>>> = vec![Rc::new((0..calls).map(|_| block(&mut rng, 2, false)).collect())];
    let mk = || Delay(vec![reg_ring_buffer::Fixed::from(vec![0.5f32; 65]), reg_ring_buffer::Fixed::from(vec![0.25f32; 3])]);
    let mut bare = mk();
    let reference = drive(&mut bare, &dfeeds, 2, calls);
    let mut boxed = BoxedNodeSend::new(mk());
    let got = drive(&mut boxed, &dfeeds, 2, calls);
    let mut inner = mk();
    let mut by_ref: &mut Delay<Vec<f32>> = &mut inner;
    let got2 = drive(&mut by_ref, &dfeeds, 2, calls);
    for k in 0..calls {
        for c in 0..2 {
            if !same_bits(&got[k][c], &reference[k][c]) || !same_bits(&got2[k][c], &reference[k][c]) {
                cx.fail("wrapper|stateful_delay|differs_from_wrapped_node", format!("call {} buffer {}", k, c));
                return false;
            }
        }
    }
    true
}

fn run_case(rep: &mut Report, what: &str, ins: &[usize], n_out: usize, calls: usize, seed: u64, extra: &[usize]) -> bool {
    let case = format!("what={};ins={};out={};calls={};seed={};extra={}", what, ins.iter().map(|x| x.to_string()).collect::<Vec<_>>().join("."), n_out, calls, seed, extra.iter().map(|x| x.to_string()).collect::<Vec<_>>().join("."));
    let mut cx = Cx { rep, case: case.clone() };
    let r = vmon::catch(std::panic::AssertUnwindSafe(|| match what {
        "sum_int" => check_sum(&mut cx, ins, n_out, true, calls, seed),
        "sum_real" => check_sum(&mut cx, ins, n_out, false, calls, seed),
        "sumbuf_int" => check_sum_buffers(&mut cx, ins, n_out, true, calls, seed),
        "sumbuf_real" => check_sum_buffers(&mut cx, ins, n_out, false, calls, seed),
        "pass" => check_pass(&mut cx, ins.first().copied(), n_out, calls, seed),
        "delay" => check_delay(&mut cx, extra, ins.first().copied(), n_out, calls, seed),
        "chain1" => check_signal_chain::<1>(&mut cx, n_out, calls),
        "chain2" => check_signal_chain::<2>(&mut cx, n_out, calls),
        "signal1" => check_signal_node::<1>(&mut cx, n_out, calls),
        "signal2" => check_signal_node::<2>(&mut cx, n_out, calls),
        "signal3" => check_signal_node::<3>(&mut cx, n_out, calls),
        "signal8" => check_signal_node::<8>(&mut cx, n_out, calls),
        "graph" => check_graph_node(&mut cx, ins, n_out, calls, seed),
        "wrappers" => check_wrappers(&mut cx, ins, n_out, calls, seed),
        other => panic!("unknown case kind {}", other),
    }));
    match r {
        Ok(ok) => ok,
        Err(m) => {
            rep.violation(&format!("node|{}|panic", what), format!("{}: panicked: {}", case, m), case);
            false
        }
    }
}

fn main() {
    let cli = Cli::parse();
    let t0 = Instant::now();
    let mut rep = Report::new("C16", &cli.stage);
    if let Some(cs) = &cli.case {
        let m = vmon::cli::parse_case(cs);
        let nums = |s: &str| -> Vec<usize> { s.split('.').filter(|x| !x.is_empty()).map(|x| x.parse().unwrap()).collect() };
        eprintln!("CASE {}", cs);
        run_case(&mut rep, &m["what"], &nums(&m["ins"]), m["out"].parse().unwrap(), m["calls"].parse().unwrap(), m["seed"].parse().unwrap(), &nums(&m["extra"]));
        rep.eval(EVALS.with(|c| c.replace(0)));
        checks::finish(&cli, rep, t0);
    }
    rep.oblige("wrappers_compared", 9);
    let lean = cli.stage == "miri";
    let calls = if lean { 2 } else { 5 };
    // job list
    let mut jobs: Vec<(String, Vec<usize>, usize, Vec<usize>)> = Vec::new();
    let max_b = if lean { 2 } else { 4 };
    // every input count 0..=max_in x buffers per input x output buffers: enumerate combinations
    // of per-input buffer counts from {0..=max_b} for <= 2 inputs, representative beyond
    let mut in_sets: Vec<Vec<usize>> = vec![vec![]];
    for a in 0..=max_b {
        in_sets.push(vec![a]);
        for b in 0..=max_b {
            in_sets.push(vec![a, b]);
        }
    }
    if !lean {
        in_sets.extend([vec![1, 2, 3], vec![2, 2, 2], vec![0, 4, 1], vec![1, 1, 1, 1], vec![4, 0, 2, 1, 3], vec![2, 2, 2, 2, 2]]);
    }
    for ins in &in_sets {
        for n_out in 0..=max_b {
            for what in ["sum_int", "sum_real", "sumbuf_int", "sumbuf_real"] {
                jobs.push((what.into(), ins.clone(), n_out, vec![]));
            }
            if ins.len() <= 1 {
                jobs.push(("pass".into(), ins.clone(), n_out, vec![]));
            }
            if ins.len() >= 1 && ins.len() <= 3 {
                jobs.push(("graph".into(), ins.clone(), n_out, vec![]));
            }
        }
    }
    // delay: ring lengths shorter / equal / longer than the buffer length, differing per channel
    let ring_sets: Vec<Vec<usize>> = if lean { vec![vec![1, 3], vec![65]] } else { vec![vec![1], vec![63], vec![64], vec![65], vec![200], vec![1, 63, 64], vec![65, 200, 2, 64], vec![64, 64], vec![3, 130, 7]] };
    for rings in &ring_sets {
        for nb in [None, Some(0usize), Some(1), Some(2), Some(4)] {
            for n_out in [0usize, 1, 2, 4] {
                if lean && (n_out > 2 || nb == Some(4)) {
                    continue;
                }
                jobs.push(("delay".into(), nb.into_iter().collect(), n_out, rings.clone()));
            }
        }
    }
    for what in ["signal1", "signal2", "signal3", "signal8", "chain1", "chain2"] {
        for n_out in [0usize, 1, 2, 3, 4, 9] {
            if lean && (n_out > 3 || what == "signal8" || (what.starts_with("chain") && n_out != 2)) {
                continue;
            }
            jobs.push((what.into(), vec![], n_out, vec![]));
        }
    }
    for ins in [vec![], vec![1], vec![2, 1], vec![3, 0, 2]] {
        for n_out in [1usize, 3] {
            if lean && ins.len() > 2 {
                continue;
            }
            jobs.push(("wrappers".into(), ins.clone(), n_out, vec![]));
        }
    }
    let n_jobs = jobs.len();
    let (shard, nshards) = (cli.shard, cli.nshards);
    let seeds: u64 = if lean { 1 } else { cli.t(3, 1_500) };
    let reps = vmon::par_for(if lean { 1 } else { cli.threads }, n_jobs as u64, 4, |_| Report::new("C16", "w"), |rep, i| {
        if i % nshards != shard {
            return;
        }
        let (what, ins, n_out, extra) = &jobs[i as usize];
        for s in 0..seeds {
            let seed = cli.seed.wrapping_mul(1000).wrapping_add(s);
            if lean {
                eprintln!("CASE what={};ins={:?};out={};calls={};seed={}", what, ins, n_out, calls, seed);
            }
            run_case(rep, what, ins, *n_out, calls, seed, extra);
            if what == "wrappers" || what.starts_with("signal") || what.starts_with("chain") {
                break;
            }
        }
        if !lean {
            rep.nontrivial(vmon::hash_combine(vmon::hash_str(what), vmon::hash_str(&format!("{:?}{}{:?}", ins, n_out, extra))));
        }
        rep.eval(EVALS.with(|c| c.replace(0)));
        let fi = FED_INSIDE.with(|c| c.replace(0));
        if fi > 0 {
            rep.hit_n("nested_graph_input_node_also_fed_from_inside", fi);
        }
        let is = INNER_STATE.with(|c| c.replace(0));
        if is > 0 {
            rep.hit_n("nested_graph_inner_state_compared", is);
        }
        let r = ROTATED.with(|c| c.replace(0));
        if r > 0 {
            rep.hit_n("delay_ring_handed_over_rotated", r);
        }
        let h = HINTED.with(|c| c.replace(0));
        if h > 0 {
            rep.hit_n("signal_node_driven_past_exhaustion_hint", h);
        }
    });
    for r in reps {
        rep.merge(r);
    }
    if !lean {
        rep.oblige("delay_ring_handed_over_rotated", 1);
        rep.oblige("nested_graph_inner_state_compared", 1);
        rep.oblige("nested_graph_input_node_also_fed_from_inside", 1);
        rep.oblige("signal_node_driven_past_exhaustion_hint", 1);
    }
    if !lean {
        rep.exhaustive(format!("{} (node, input buffer counts, output buffer count, ring lengths) configurations: input counts 0..=5, buffers per node 0..=4 (all pairs for <= 2 inputs), {} consecutive calls, {} random contents each", n_jobs, calls, seeds));
        rep.sample(J::obj().set("node", J::s("Delay")).set("ring_lengths", J::s("[65, 200, 2, 64]")).set("input_buffers", J::u(4)).set("output_buffers", J::u(4)).set("calls", J::u(5)).set("expect", J::s("channel c of the output stream == initial ring content then the input stream delayed by exactly ring_lengths[c] samples, across calls")));
        rep.sample(J::obj().set("node", J::s("Sum")).set("inputs", J::s("[4,0,2,1,3]")).set("output_buffers", J::u(3)).set("expect", J::s("out[c][s] == sum over inputs that have channel c; output silenced first")));
    } else {
        // the wrapper obligation is met by shard(s) that drew wrapper jobs; count globally
        rep.obligations.remove("wrappers_compared");
    }
    rep.eval(EVALS.with(|c| c.replace(0)));
    checks::finish(&cli, rep, t0);
}
