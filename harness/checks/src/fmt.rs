//! Bridge between dasp sample types and `vmon::spec` format descriptors.

use dasp_sample::{Sample, I24, I48, U24, U48};
use std::fmt::Debug;
use vmon::spec::{self, IntFmt};

/// The twelve integer sample formats.
pub trait IntS: Sample + Copy + Debug + Send + Sync + 'static {
    const FMT: IntFmt;
    /// native numeric value
    fn raw(self) -> i128;
    /// construct from a native numeric value that is in range (unchecked constructor for the
    /// custom-width types, so that this helper never hides an out-of-range value)
    fn from_raw(r: i128) -> Self;
}

macro_rules! impl_ints_prim {
    ($($T:ty => $F:expr),*) => {$(
        impl IntS for $T {
            const FMT: IntFmt = $F;
            #[inline] fn raw(self) -> i128 { self as i128 }
            #[inline] fn from_raw(r: i128) -> Self { r as $T }
        }
    )*};
}
impl_ints_prim!(i8 => spec::I8, i16 => spec::I16, i32 => spec::I32, i64 => spec::I64,
                u8 => spec::U8, u16 => spec::U16, u32 => spec::U32, u64 => spec::U64);

macro_rules! impl_ints_custom {
    ($($T:ident : $Rep:ty => $F:expr),*) => {$(
        impl IntS for $T {
            const FMT: IntFmt = $F;
            #[inline] fn raw(self) -> i128 { self.inner() as i128 }
            #[inline] fn from_raw(r: i128) -> Self { $T::new_unchecked(r as $Rep) }
        }
    )*};
}
impl_ints_custom!(I24: i32 => spec::I24, I48: i64 => spec::I48, U24: i32 => spec::U24, U48: i64 => spec::U48);

/// All fourteen sample formats, with what the oracles need: the exact value of a sample as a
/// "signed amplitude" (integers: i128; floats: f64) and constructors.
#[derive(Clone, Copy, Debug, PartialEq)]
pub enum Val {
    /// integer format: raw native value
    I(i128),
    /// float format: exact value (f32 widened losslessly)
    F(f64),
}

pub trait AnyS: Sample + Copy + Debug + Send + Sync + 'static {
    const NAME: &'static str;
    /// Some(fmt) for integer formats
    const INT: Option<IntFmt>;
    /// for float formats: mantissa precision (24 / 53); for ints 0
    const FLOAT_P: u32;
    fn val(self) -> Val;
    fn from_val(v: Val) -> Self;
    /// a sample that is distinct for distinct small k (k < 2^bits), centred on equilibrium and of
    /// small magnitude so that sums of a few of them stay in range
    fn distinct(k: u64) -> Self;
    /// bit-exact comparison (floats by bit pattern except that all NaNs are equal)
    fn same(self, o: Self) -> bool;
    /// an arbitrary sample, distinct for distinct k < min(2^bits, 2^24) (no magnitude guarantee)
    fn nth(k: u64) -> Self;
}

macro_rules! impl_anys_int {
    ($($T:ty),*) => {$(
        impl AnyS for $T {
            const NAME: &'static str = <$T as IntS>::FMT.name;
            const INT: Option<IntFmt> = Some(<$T as IntS>::FMT);
            const FLOAT_P: u32 = 0;
            #[inline] fn val(self) -> Val { Val::I(self.raw()) }
            #[inline] fn from_val(v: Val) -> Self { match v { Val::I(r) => <$T as IntS>::from_raw(r), _ => panic!("int expected") } }
            #[inline] fn distinct(k: u64) -> Self {
                let f = <$T as IntS>::FMT;
                // amplitudes 1, -1, 2, -2, ... scaled so they are not all in the low bits
                let span = 1u64 << (f.bits - 3).min(60);
                let k = k % span;
                let mag = (k / 2 + 1) as i128;
                let amp = if k % 2 == 0 { mag } else { -mag };
                <$T as IntS>::from_raw(f.from_amp(amp))
            }
            #[inline] fn same(self, o: Self) -> bool { self.raw() == o.raw() }
            #[inline] fn nth(k: u64) -> Self {
                let f = <$T as IntS>::FMT;
                let total: u128 = 1u128 << f.bits;
                // odd multiplier => bijection modulo 2^bits
                let r = ((k as u128).wrapping_mul(0x9e37_79b9_7f4a_7c15_u128 | 1).wrapping_add(17)) % total;
                <$T as IntS>::from_raw(f.min() + r as i128)
            }
        }
    )*};
}
impl_anys_int!(i8, i16, I24, i32, I48, i64, u8, u16, U24, u32, U48, u64);

impl AnyS for f32 {
    const NAME: &'static str = "f32";
    const INT: Option<IntFmt> = None;
    const FLOAT_P: u32 = 24;
    #[inline]
    fn val(self) -> Val {
        Val::F(self as f64)
    }
    #[inline]
    fn from_val(v: Val) -> Self {
        match v {
            Val::F(x) => x as f32,
            _ => panic!("float expected"),
        }
    }
    #[inline]
    fn distinct(k: u64) -> Self {
        let k = k % (1 << 20);
        let mag = (k / 2 + 1) as f32 * (1.0 / (1u32 << 22) as f32);
        if k % 2 == 0 {
            mag
        } else {
            -mag
        }
    }
    #[inline]
    fn same(self, o: Self) -> bool {
        self.to_bits() == o.to_bits() || (self.is_nan() && o.is_nan())
    }
    #[inline]
    fn nth(k: u64) -> Self {
        ((k % (1 << 24)) as f32 - 8_000_000.5) * (1.0 / 16_777_216.0)
    }
}

impl AnyS for f64 {
    const NAME: &'static str = "f64";
    const INT: Option<IntFmt> = None;
    const FLOAT_P: u32 = 53;
    #[inline]
    fn val(self) -> Val {
        Val::F(self)
    }
    #[inline]
    fn from_val(v: Val) -> Self {
        match v {
            Val::F(x) => x,
            _ => panic!("float expected"),
        }
    }
    #[inline]
    fn distinct(k: u64) -> Self {
        let k = k % (1 << 40);
        let mag = (k / 2 + 1) as f64 * (1.0 / (1u64 << 42) as f64);
        if k % 2 == 0 {
            mag
        } else {
            -mag
        }
    }
    #[inline]
    fn same(self, o: Self) -> bool {
        self.to_bits() == o.to_bits() || (self.is_nan() && o.is_nan())
    }
    #[inline]
    fn nth(k: u64) -> Self {
        (k as f64 - 8_000_000.25) * (1.0 / 16_777_216.0)
    }
}

/// Invoke `$m!{ T }` style macro for each integer format type.
#[macro_export]
macro_rules! for_int_types {
    ($m:ident) => {
        $m!(i8);
        $m!(i16);
        $m!(I24);
        $m!(i32);
        $m!(I48);
        $m!(i64);
        $m!(u8);
        $m!(u16);
        $m!(U24);
        $m!(u32);
        $m!(U48);
        $m!(u64);
    };
}

/// Invoke `$m!(N)` for every frame width 1..=32.
#[macro_export]
macro_rules! for_widths {
    ($m:ident) => {
        $m!(1); $m!(2); $m!(3); $m!(4); $m!(5); $m!(6); $m!(7); $m!(8);
        $m!(9); $m!(10); $m!(11); $m!(12); $m!(13); $m!(14); $m!(15); $m!(16);
        $m!(17); $m!(18); $m!(19); $m!(20); $m!(21); $m!(22); $m!(23); $m!(24);
        $m!(25); $m!(26); $m!(27); $m!(28); $m!(29); $m!(30); $m!(31); $m!(32);
    };
}
