//! Shared dasp-aware helpers for the monitors: a bridge between dasp's sample types and the
//! format descriptors of `vmon::spec`, instrumented sources, and a dynamic signal box.

pub mod fmt;
pub mod cloneconf;
pub mod iterconf;
pub mod tree;
pub mod usrc;

pub use fmt::*;
pub use usrc::*;

use vmon::{Cli, Report};

/// Standard stage epilogue: write the report, exit 0 (the driver decides the verdict from the
/// report; a non-zero exit means the stage crashed).
pub fn finish(cli: &Cli, rep: Report, t0: std::time::Instant) -> ! {
    rep.write(cli.out.as_deref(), t0.elapsed().as_secs_f64());
    std::process::exit(0)
}
