//! State-copy conformance: a copy of a stateful object taken mid-stream - through `clone()` or
//! through `clone_from()` onto an object that already has a different history - must from then on
//! behave exactly like the original, and taking the copy must not disturb the original.
//!
//! `Clone` is usually derived, but a hand-written impl (to reuse storage in `clone_from`, to
//! rebuild shared state through a constructor, to share something behind an `Rc`) can forget a
//! field; nothing in an object's own history shows that.
//!
//! The caller supplies `mk(variant)` (identical objects for equal `variant`; variant 1 is "another
//! object" used as the destination of `clone_from`) and `step(&mut obj, i)` which advances the
//! object once and returns an observation; `i` counts steps since creation so that externally
//! supplied inputs can be chosen deterministically from it.

use std::fmt::Debug;
use vmon::{Report, Rng};

pub fn check_clone_state<T, O, M, S>(label: &str, case: &str, mk: M, step: S, rep: &mut Report, rng: &mut Rng, n_scripts: usize, max_pre: usize, post: usize) -> u64
where
    T: Clone,
    O: PartialEq + Debug,
    M: Fn(u64) -> T,
    S: Fn(&mut T, u64) -> O,
{
    let mut ran = 0u64;
    for s in 0..n_scripts {
        let pre = if s == 0 { 0 } else { rng.usize_below(max_pre + 1) as u64 };
        let mode = s % 3;
        let other_pre = rng.usize_below(max_pre + 1) as u64;
        let res = vmon::catch(std::panic::AssertUnwindSafe(|| -> Result<(), (String, String)> {
            let mut a = mk(0);
            for i in 0..pre {
                step(&mut a, i);
            }
            let (mut b, how) = match mode {
                0 => (a.clone(), "clone()"),
                1 => {
                    // a destination with a history of its own (other inputs, other length)
                    let mut b = mk(1);
                    for i in 0..other_pre {
                        step(&mut b, 10_007 + i);
                    }
                    b.clone_from(&a);
                    (b, "clone_from() onto a used object")
                }
                _ => {
                    let c = a.clone();
                    let mut b = mk(1);
                    b.clone_from(&c);
                    drop(c);
                    (b, "clone_from() of a clone that is then dropped")
                }
            };
            // the untouched reference: the same object replayed from scratch
            let mut r = mk(0);
            for i in 0..pre {
                step(&mut r, i);
            }
            for i in pre..pre + post as u64 {
                let (oa, ob, or) = (step(&mut a, i), step(&mut b, i), step(&mut r, i));
                if oa != or {
                    return Err(("original_disturbed_by_taking_a_copy".into(), format!("{} after {} steps: at step {} the original yields {:?}, an object with the same history that was never copied yields {:?}", how, pre, i, oa, or)));
                }
                if ob != oa {
                    let what = if mode == 0 { "clone_diverges_from_original" } else { "clone_from_diverges_from_source" };
                    return Err((what.into(), format!("{} after {} steps: at step {} the copy yields {:?}, the original {:?}", how, pre, i, ob, oa)));
                }
            }
            Ok(())
        }));
        ran += 1;
        match res {
            Ok(Ok(())) => {}
            Ok(Err((what, d))) => {
                rep.violation(&format!("clone|{}|{}", label, what), format!("{}: {}", label, d), case.to_string());
                return ran;
            }
            Err(m) => {
                rep.violation(&format!("clone|{}|panic", label), format!("{}: copy taken after {} steps (mode {}): panicked: {}", label, pre, mode, m), case.to_string());
                return ran;
            }
        }
    }
    ran
}

#[cfg(test)]
mod tests {
    use super::*;

    #[derive(Debug)]
    struct Acc {
        window: Vec<i64>,
        sum: i64,
    }
    impl Clone for Acc {
        fn clone(&self) -> Self {
            Acc { window: self.window.clone(), sum: self.sum }
        }
        fn clone_from(&mut self, o: &Self) {
            self.window.clone_from(&o.window); // forgets `sum`
        }
    }

    #[test]
    fn derived_clone_is_silent_forgetful_clone_from_is_flagged() {
        let mut rep = Report::new("T", "t");
        let mut rng = Rng::derive(3, &[1]);
        let step_vec = |v: &mut Vec<i64>, i: u64| {
            v.push(i as i64);
            v.iter().sum::<i64>()
        };
        check_clone_state("vec", "c", |_| Vec::<i64>::new(), step_vec, &mut rep, &mut rng, 30, 10, 5);
        assert_eq!(rep.n_violations(), 0, "{:?}", rep.violations);
        let step_acc = |a: &mut Acc, i: u64| {
            let x = (i % 7) as i64 + 1;
            a.sum += x - a.window.remove(0);
            a.window.push(x);
            a.sum
        };
        check_clone_state("acc", "c", |_| Acc { window: vec![0; 4], sum: 0 }, step_acc, &mut rep, &mut rng, 30, 10, 5);
        assert!(rep.n_violations() > 0);
    }
}
