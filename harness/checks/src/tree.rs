//! Random / enumerated trees of dasp_signal adaptors over instrumented leaves, with an
//! interpreter that computes what every output frame, leaf pull count and exhaustion flag must be.
//!
//! Used by C04 (pointwise / lock-step), C05 (exhaustion) and C07 (allocation-free random trees).
//! The real tree is built from the genuine adaptor types over `Dyn<F>` children; the interpreter
//! works on the recorded leaf frames by index using the `Frame` operation the property names
//! (those are validated by C03) and an independent clamp for clip_amp.

use crate::fmt::{AnyS, Val};
use crate::usrc::{Dyn, Probe, USource};
use dasp_frame::Frame;
use dasp_sample::{FromSample, Sample};
use dasp_signal::Signal;
use std::cell::RefCell;
use std::rc::Rc;
use vmon::spec;
use vmon::Rng;

#[derive(Clone, Debug, PartialEq)]
pub enum Node {
    Leaf(usize),
    /// f: 0 identity, 1 halve (scale_amp 0.5), 2 reverse channels, 3 offset by +1/16
    Map(Box<Node>, u8),
    /// f: 0 take a's even / b's odd channels, 1 a + signed(b) , 2 b only
    ZipMap(Box<Node>, Box<Node>, u8),
    AddAmp(Box<Node>, Box<Node>),
    MulAmp(Box<Node>, Box<Node>),
    ScaleAmp(Box<Node>, f64),
    /// offset as a fraction of full scale, in 1/64ths
    OffsetAmp(Box<Node>, i32),
    ScaleAmpPerChannel(Box<Node>, f64),
    OffsetAmpPerChannel(Box<Node>, i32),
    /// threshold as a fraction of full scale, in 1/64ths
    ClipAmp(Box<Node>, i32),
    Inspect(Box<Node>),
    Delay(Box<Node>, usize),
}

pub const UNARY_KINDS: [&str; 9] = ["map", "scale_amp", "offset_amp", "scale_amp_per_channel", "offset_amp_per_channel", "clip_amp", "inspect", "delay", "map_reverse"];
pub const BINARY_KINDS: [&str; 3] = ["zip_map", "add_amp", "mul_amp"];

impl Node {
    pub fn kind(&self) -> &'static str {
        match self {
            Node::Leaf(_) => "leaf",
            Node::Map(..) => "map",
            Node::ZipMap(..) => "zip_map",
            Node::AddAmp(..) => "add_amp",
            Node::MulAmp(..) => "mul_amp",
            Node::ScaleAmp(..) => "scale_amp",
            Node::OffsetAmp(..) => "offset_amp",
            Node::ScaleAmpPerChannel(..) => "scale_amp_per_channel",
            Node::OffsetAmpPerChannel(..) => "offset_amp_per_channel",
            Node::ClipAmp(..) => "clip_amp",
            Node::Inspect(..) => "inspect",
            Node::Delay(..) => "delay",
        }
    }
    pub fn encode(&self) -> String {
        match self {
            Node::Leaf(i) => format!("L{}", i),
            Node::Map(c, f) => format!("map{}({})", f, c.encode()),
            Node::ZipMap(a, b, f) => format!("zip{}({},{})", f, a.encode(), b.encode()),
            Node::AddAmp(a, b) => format!("add({},{})", a.encode(), b.encode()),
            Node::MulAmp(a, b) => format!("mul({},{})", a.encode(), b.encode()),
            Node::ScaleAmp(c, g) => format!("scale[{}]({})", g, c.encode()),
            Node::OffsetAmp(c, o) => format!("offset[{}]({})", o, c.encode()),
            Node::ScaleAmpPerChannel(c, g) => format!("scalepc[{}]({})", g, c.encode()),
            Node::OffsetAmpPerChannel(c, o) => format!("offsetpc[{}]({})", o, c.encode()),
            Node::ClipAmp(c, t) => format!("clip[{}]({})", t, c.encode()),
            Node::Inspect(c) => format!("inspect({})", c.encode()),
            Node::Delay(c, k) => format!("delay[{}]({})", k, c.encode()),
        }
    }
    /// parse the output of `encode`
    pub fn decode(s: &str) -> Node {
        let mut p = Parser { s: s.as_bytes(), i: 0 };
        let n = p.node();
        assert!(p.i == s.len(), "trailing input in {}", s);
        n
    }
    pub fn children(&self) -> Vec<&Node> {
        match self {
            Node::Leaf(_) => vec![],
            Node::Map(c, _) | Node::ScaleAmp(c, _) | Node::OffsetAmp(c, _) | Node::ScaleAmpPerChannel(c, _) | Node::OffsetAmpPerChannel(c, _) | Node::ClipAmp(c, _) | Node::Inspect(c) | Node::Delay(c, _) => vec![c],
            Node::ZipMap(a, b, _) | Node::AddAmp(a, b) | Node::MulAmp(a, b) => vec![a, b],
        }
    }
    pub fn n_adaptors(&self) -> usize {
        match self {
            Node::Leaf(_) => 0,
            _ => 1 + self.children().iter().map(|c| c.n_adaptors()).sum::<usize>(),
        }
    }
    pub fn leaves(&self, out: &mut Vec<usize>) {
        match self {
            Node::Leaf(i) => out.push(*i),
            _ => {
                for c in self.children() {
                    c.leaves(out)
                }
            }
        }
    }
    /// bound on the signed amplitude (fraction of full scale) this node can produce, given the
    /// leaf bound; used to keep integer trees inside the documented domain (no overflow)
    pub fn bound(&self, leaf: f64) -> f64 {
        match self {
            Node::Leaf(_) => leaf,
            Node::Map(c, f) => match f {
                1 => c.bound(leaf) * 0.5,
                3 => c.bound(leaf) + 1.0 / 16.0,
                _ => c.bound(leaf),
            },
            Node::ZipMap(a, b, f) => match f {
                1 => a.bound(leaf) + b.bound(leaf),
                _ => a.bound(leaf).max(b.bound(leaf)),
            },
            Node::AddAmp(a, b) => a.bound(leaf) + b.bound(leaf),
            Node::MulAmp(a, b) => a.bound(leaf) * b.bound(leaf),
            Node::ScaleAmp(c, g) | Node::ScaleAmpPerChannel(c, g) => c.bound(leaf) * g.abs(),
            Node::OffsetAmp(c, o) | Node::OffsetAmpPerChannel(c, o) => c.bound(leaf) + (*o as f64).abs() / 64.0,
            Node::ClipAmp(c, t) => c.bound(leaf).min(*t as f64 / 64.0),
            Node::Inspect(c) | Node::Delay(c, _) => c.bound(leaf),
        }
    }
    /// largest intermediate bound anywhere in the tree
    pub fn max_bound(&self, leaf: f64) -> f64 {
        let mut m = self.bound(leaf);
        for c in self.children() {
            m = m.max(c.max_bound(leaf));
        }
        m
    }
}

struct Parser<'a> {
    s: &'a [u8],
    i: usize,
}
impl<'a> Parser<'a> {
    fn take_while(&mut self, f: impl Fn(u8) -> bool) -> String {
        let st = self.i;
        while self.i < self.s.len() && f(self.s[self.i]) {
            self.i += 1;
        }
        String::from_utf8(self.s[st..self.i].to_vec()).unwrap()
    }
    fn expect(&mut self, c: u8) {
        assert_eq!(self.s[self.i], c, "expected {} at {}", c as char, self.i);
        self.i += 1;
    }
    fn node(&mut self) -> Node {
        if self.s[self.i] == b'L' {
            self.i += 1;
            return Node::Leaf(self.take_while(|c| c.is_ascii_digit()).parse().unwrap());
        }
        let name = self.take_while(|c| c.is_ascii_alphabetic());
        let digits = self.take_while(|c| c.is_ascii_digit());
        let mut param = String::new();
        if self.s[self.i] == b'[' {
            self.i += 1;
            param = self.take_while(|c| c != b']');
            self.expect(b']');
        }
        self.expect(b'(');
        let a = Box::new(self.node());
        let node = match name.as_str() {
            "zip" | "add" | "mul" => {
                self.expect(b',');
                let b = Box::new(self.node());
                match name.as_str() {
                    "zip" => Node::ZipMap(a, b, digits.parse().unwrap()),
                    "add" => Node::AddAmp(a, b),
                    _ => Node::MulAmp(a, b),
                }
            }
            "map" => Node::Map(a, digits.parse().unwrap()),
            "scale" => Node::ScaleAmp(a, param.parse().unwrap()),
            "offset" => Node::OffsetAmp(a, param.parse().unwrap()),
            "scalepc" => Node::ScaleAmpPerChannel(a, param.parse().unwrap()),
            "offsetpc" => Node::OffsetAmpPerChannel(a, param.parse().unwrap()),
            "clip" => Node::ClipAmp(a, param.parse().unwrap()),
            "inspect" => Node::Inspect(a),
            "delay" => Node::Delay(a, param.parse().unwrap()),
            other => panic!("unknown node {}", other),
        };
        self.expect(b')');
        node
    }
}

pub const LEAF_AMP: f64 = 1.0 / 8.0;

/// leaf `j`, frame `i`, channel `c`: a small-amplitude sample, distinct for nearby (i, c)
pub fn leaf_sample<S: AnyS>(j: usize, i: u64, c: usize, channels: usize) -> S {
    let k = (i * channels as u64 + c as u64) * 3 + j as u64 * 5 + 1;
    match S::INT {
        Some(f) => {
            let r = ((f.half() as f64 * LEAF_AMP) as i128).max(2);
            let amp = (k as i128 % (2 * r)) - r;
            S::from_val(Val::I(f.from_amp(amp)))
        }
        None => {
            let amp = ((k % 4096) as f64 - 2048.0) / 2048.0 * LEAF_AMP;
            S::from_val(Val::F(amp))
        }
    }
}

pub fn leaf_frame<F: Frame>(j: usize, i: u64) -> F
where
    F::Sample: AnyS,
{
    F::from_fn(|c| leaf_sample::<F::Sample>(j, i, c, F::CHANNELS))
}

/// a sample of format S with signed amplitude `frac` of full scale (frac in 1/64ths)
pub fn amp_sample<S: AnyS>(sixty_fourths: i32) -> S {
    match S::INT {
        Some(f) => S::from_val(Val::I(f.from_amp(f.half() * sixty_fourths as i128 / 64))),
        None => S::from_val(Val::F(sixty_fourths as f64 / 64.0)),
    }
}

/// per-channel variation of a parameter (channel 0 keeps it, later channels shrink it)
pub fn pc_gain(g: f64, c: usize) -> f64 {
    g * (1.0 - (c % 4) as f64 * 0.25)
}
pub fn pc_offset(o: i32, c: usize) -> i32 {
    o - (o.signum()) * (c % 3) as i32
}

#[derive(Clone)]
pub struct LeafSpec {
    /// None = infinite
    pub len: Option<u64>,
    pub probe: Rc<Probe>,
}

pub type InspectLog<F> = Rc<RefCell<Vec<F>>>;

/// Build the real adaptor tree.
pub fn build<F>(node: &Node, leaves: &[LeafSpec], inspect_logs: &mut Vec<(String, InspectLog<F>)>) -> Dyn<F>
where
    F: Frame + 'static,
    F::Sample: AnyS,
    <F::Sample as Sample>::Signed: AnyS,
    <F::Sample as Sample>::Float: AnyS + FromSample<f64>,
    F::Signed: 'static,
    F::Float: 'static,
{
    type Sg<F> = <<F as Frame>::Sample as Sample>::Signed;
    type Fl<F> = <<F as Frame>::Sample as Sample>::Float;
    match node {
        Node::Leaf(j) => {
            let j = *j;
            let spec = &leaves[j];
            let frames: Vec<F> = match spec.len {
                Some(l) => (0..l).map(|i| leaf_frame::<F>(j, i)).collect(),
                None => Vec::new(),
            };
            match spec.len {
                Some(_) => Dyn::new(USource::finite(Rc::new(frames), spec.probe.clone())),
                None => {
                    // infinite leaves are generated on the fly from a table of 4096 frames
                    let table: Rc<Vec<F>> = Rc::new((0..4096).map(|i| leaf_frame::<F>(j, i)).collect());
                    Dyn::new(CyclicLeaf { table, j, pos: 0, probe: spec.probe.clone() })
                }
            }
        }
        Node::Map(c, f) => {
            let s = build::<F>(c, leaves, inspect_logs);
            match f {
                0 => Dyn::new(s.map(|x: F| x)),
                1 => Dyn::new(s.map(|x: F| x.scale_amp(<Fl<F> as FromSample<f64>>::from_sample_(0.5)))),
                2 => Dyn::new(s.map(|x: F| F::from_fn(|ch| *x.channel(F::CHANNELS - 1 - ch).unwrap()))),
                _ => Dyn::new(s.map(|x: F| x.offset_amp(amp_sample::<Sg<F>>(4)))),
            }
        }
        Node::ZipMap(a, b, f) => {
            let sa = build::<F>(a, leaves, inspect_logs);
            let sb = build::<F>(b, leaves, inspect_logs);
            match f {
                0 => Dyn::new(sa.zip_map(sb, |x: F, y: F| F::from_fn(|ch| if ch % 2 == 0 { *x.channel(ch).unwrap() } else { *y.channel(ch).unwrap() }))),
                1 => Dyn::new(sa.zip_map(sb, |x: F, y: F| x.add_amp(y.to_signed_frame()))),
                _ => Dyn::new(sa.zip_map(sb, |_x: F, y: F| y)),
            }
        }
        Node::AddAmp(a, b) => {
            let sa = build::<F>(a, leaves, inspect_logs);
            let sb = build::<F>(b, leaves, inspect_logs).map(|y: F| y.to_signed_frame());
            Dyn::new(sa.add_amp(sb))
        }
        Node::MulAmp(a, b) => {
            let sa = build::<F>(a, leaves, inspect_logs);
            let sb = build::<F>(b, leaves, inspect_logs).map(|y: F| y.to_float_frame());
            Dyn::new(sa.mul_amp(sb))
        }
        Node::ScaleAmp(c, g) => Dyn::new(build::<F>(c, leaves, inspect_logs).scale_amp(<Fl<F> as FromSample<f64>>::from_sample_(*g))),
        Node::OffsetAmp(c, o) => Dyn::new(build::<F>(c, leaves, inspect_logs).offset_amp(amp_sample::<Sg<F>>(*o))),
        Node::ScaleAmpPerChannel(c, g) => {
            let fr: F::Float = <F::Float as Frame>::from_fn(|ch| <Fl<F> as FromSample<f64>>::from_sample_(pc_gain(*g, ch)));
            Dyn::new(build::<F>(c, leaves, inspect_logs).scale_amp_per_channel(fr))
        }
        Node::OffsetAmpPerChannel(c, o) => {
            let fr: F::Signed = <F::Signed as Frame>::from_fn(|ch| amp_sample::<Sg<F>>(pc_offset(*o, ch)));
            Dyn::new(build::<F>(c, leaves, inspect_logs).offset_amp_per_channel(fr))
        }
        Node::ClipAmp(c, t) => Dyn::new(build::<F>(c, leaves, inspect_logs).clip_amp(amp_sample::<Sg<F>>(*t))),
        Node::Inspect(c) => {
            let log: InspectLog<F> = Rc::new(RefCell::new(Vec::new()));
            inspect_logs.push((c.encode(), log.clone()));
            Dyn::new(build::<F>(c, leaves, inspect_logs).inspect(move |f: &F| log.borrow_mut().push(*f)))
        }
        Node::Delay(c, k) => Dyn::new(build::<F>(c, leaves, inspect_logs).delay(*k)),
    }
}

/// infinite leaf: frame i = table[i % 4096] (pull-counted, never exhausted)
struct CyclicLeaf<F> {
    table: Rc<Vec<F>>,
    #[allow(dead_code)]
    j: usize,
    pos: u64,
    probe: Rc<Probe>,
}
impl<F: Frame> Signal for CyclicLeaf<F> {
    type Frame = F;
    fn next(&mut self) -> F {
        self.probe.pulls.set(self.probe.pulls.get() + 1);
        let f = self.table[(self.pos % 4096) as usize];
        self.pos += 1;
        f
    }
    fn is_exhausted(&self) -> bool {
        self.probe.exh_queries.set(self.probe.exh_queries.get() + 1);
        false
    }
}

/// what leaf `j` yields on its pull number `i` (equilibrium beyond its end)
pub fn leaf_value<F: Frame>(j: usize, i: u64, len: Option<u64>) -> F
where
    F::Sample: AnyS,
{
    match len {
        Some(l) if i >= l => F::EQUILIBRIUM,
        Some(_) => leaf_frame::<F>(j, i),
        None => leaf_frame::<F>(j, i % 4096),
    }
}

/// independent clip: clamp the spec signed amplitude to [-t, t]
pub fn clip_expected<S: AnyS>(s: S, t_sixty_fourths: i32) -> S
where
    S::Signed: AnyS,
{
    match S::INT {
        Some(f) => {
            let sf = <S::Signed as AnyS>::INT.unwrap();
            let raw = match s.val() {
                Val::I(r) => r,
                _ => unreachable!(),
            };
            let a = spec::int_to_int(f, sf, raw); // signed format: raw == amplitude
            let t = sf.half() * t_sixty_fourths as i128 / 64;
            let clamped = a.clamp(-t, t);
            S::from_val(Val::I(spec::int_to_int(sf, f, clamped)))
        }
        None => {
            let x = match s.val() {
                Val::F(x) => x,
                _ => unreachable!(),
            };
            let t = t_sixty_fourths as f64 / 64.0;
            // mirror the comparison semantics: values inside [-t, t] pass through unchanged
            S::from_val(Val::F(if x > t { t } else if x < -t { -t } else { x }))
        }
    }
}

/// Interpreter: the frame the tree must yield as its n-th output (n counted from 0). `past` is
/// the number of outputs already taken from this subtree (== n for a fresh tree).
pub fn eval<F>(node: &Node, n: u64, leaves: &[LeafSpec]) -> F
where
    F: Frame,
    F::Sample: AnyS,
    <F::Sample as Sample>::Signed: AnyS,
    <F::Sample as Sample>::Float: AnyS + FromSample<f64>,
{
    type Sg<F> = <<F as Frame>::Sample as Sample>::Signed;
    type Fl<F> = <<F as Frame>::Sample as Sample>::Float;
    match node {
        Node::Leaf(j) => leaf_value::<F>(*j, n, leaves[*j].len),
        Node::Map(c, f) => {
            let x: F = eval(c, n, leaves);
            match f {
                0 => x,
                1 => x.scale_amp(<Fl<F> as FromSample<f64>>::from_sample_(0.5)),
                2 => F::from_fn(|ch| *x.channel(F::CHANNELS - 1 - ch).unwrap()),
                _ => x.offset_amp(amp_sample::<Sg<F>>(4)),
            }
        }
        Node::ZipMap(a, b, f) => {
            let x: F = eval(a, n, leaves);
            let y: F = eval(b, n, leaves);
            match f {
                0 => F::from_fn(|ch| if ch % 2 == 0 { *x.channel(ch).unwrap() } else { *y.channel(ch).unwrap() }),
                1 => x.add_amp(y.to_signed_frame()),
                _ => y,
            }
        }
        Node::AddAmp(a, b) => {
            let x: F = eval(a, n, leaves);
            let y: F = eval(b, n, leaves);
            x.add_amp(y.to_signed_frame())
        }
        Node::MulAmp(a, b) => {
            let x: F = eval(a, n, leaves);
            let y: F = eval(b, n, leaves);
            x.mul_amp(y.to_float_frame())
        }
        Node::ScaleAmp(c, g) => eval::<F>(c, n, leaves).scale_amp(<Fl<F> as FromSample<f64>>::from_sample_(*g)),
        Node::OffsetAmp(c, o) => eval::<F>(c, n, leaves).offset_amp(amp_sample::<Sg<F>>(*o)),
        Node::ScaleAmpPerChannel(c, g) => {
            let x: F = eval(c, n, leaves);
            F::from_fn(|ch| x.channel(ch).unwrap().mul_amp(<Fl<F> as FromSample<f64>>::from_sample_(pc_gain(*g, ch))))
        }
        Node::OffsetAmpPerChannel(c, o) => {
            let x: F = eval(c, n, leaves);
            F::from_fn(|ch| x.channel(ch).unwrap().add_amp(amp_sample::<Sg<F>>(pc_offset(*o, ch))))
        }
        Node::ClipAmp(c, t) => {
            let x: F = eval(c, n, leaves);
            F::from_fn(|ch| clip_expected::<F::Sample>(*x.channel(ch).unwrap(), *t))
        }
        Node::Inspect(c) => eval(c, n, leaves),
        Node::Delay(c, k) => {
            if n < *k as u64 {
                F::EQUILIBRIUM
            } else {
                eval(c, n - *k as u64, leaves)
            }
        }
    }
}

/// expected number of pulls of every leaf after `n` outputs of `node`
pub fn expected_pulls(node: &Node, n: u64, out: &mut Vec<(usize, u64)>) {
    match node {
        Node::Leaf(j) => out.push((*j, n)),
        Node::Delay(c, k) => expected_pulls(c, n.saturating_sub(*k as u64), out),
        _ => {
            for c in node.children() {
                expected_pulls(c, n, out);
            }
        }
    }
}

/// expected number of frames that flowed through every `inspect` node after `n` outputs of `node`,
/// in the order `build` registers the inspect logs (pre-order)
pub fn inspect_counts(node: &Node, n: u64, out: &mut Vec<u64>) {
    match node {
        Node::Leaf(_) => {}
        Node::Inspect(c) => {
            out.push(n);
            inspect_counts(c, n, out);
        }
        Node::Delay(c, k) => inspect_counts(c, n.saturating_sub(*k as u64), out),
        _ => {
            for c in node.children() {
                inspect_counts(c, n, out);
            }
        }
    }
}

/// expected is_exhausted() of `node` after `n` outputs
pub fn expected_exhausted(node: &Node, n: u64, leaves: &[LeafSpec]) -> bool {
    match node {
        Node::Leaf(j) => match leaves[*j].len {
            Some(l) => n >= l,
            None => false,
        },
        Node::Delay(c, k) => n >= *k as u64 && expected_exhausted(c, n - *k as u64, leaves),
        Node::ZipMap(a, b, _) | Node::AddAmp(a, b) | Node::MulAmp(a, b) => expected_exhausted(a, n, leaves) || expected_exhausted(b, n, leaves),
        _ => expected_exhausted(node.children()[0], n, leaves),
    }
}

/// number of outputs after which `node` first reports exhaustion (None = never)
pub fn exhaustion_point(node: &Node, leaves: &[LeafSpec]) -> Option<u64> {
    match node {
        Node::Leaf(j) => leaves[*j].len,
        Node::Delay(c, k) => exhaustion_point(c, leaves).map(|e| e.saturating_add(*k as u64)),
        Node::ZipMap(a, b, _) | Node::AddAmp(a, b) | Node::MulAmp(a, b) => match (exhaustion_point(a, leaves), exhaustion_point(b, leaves)) {
            (Some(x), Some(y)) => Some(x.min(y)),
            (Some(x), None) | (None, Some(x)) => Some(x),
            (None, None) => None,
        },
        _ => exhaustion_point(node.children()[0], leaves),
    }
}

/// one unary adaptor of the given kind around `c` with representative parameters
pub fn unary(kind: &str, c: Node, variant: usize) -> Node {
    let b = Box::new(c);
    match kind {
        "map" => Node::Map(b, [0u8, 1, 3][variant % 3]),
        "map_reverse" => Node::Map(b, 2),
        "scale_amp" => Node::ScaleAmp(b, [0.5, -0.5, 1.0, 0.0, 0.75][variant % 5]),
        "offset_amp" => Node::OffsetAmp(b, [4, -4, 0, 2][variant % 4]),
        "scale_amp_per_channel" => Node::ScaleAmpPerChannel(b, [0.5, -1.0, 1.0][variant % 3]),
        "offset_amp_per_channel" => Node::OffsetAmpPerChannel(b, [4, -3, 0][variant % 3]),
        "clip_amp" => Node::ClipAmp(b, [4, 2, 1, 8, 32][variant % 5]),
        "inspect" => Node::Inspect(b),
        // also delays far beyond anything that will be drained (64-bit hosts): all silence, no pulls
        "delay" => Node::Delay(b, [0usize, 1, 2, 5, 3, 7, 11, (1u64 << 32) as usize, ((1u64 << 32) + 1) as usize, usize::MAX][variant % 10]),
        _ => panic!("unknown unary kind {}", kind),
    }
}
pub fn binary(kind: &str, a: Node, b: Node, variant: usize) -> Node {
    let (a, b) = (Box::new(a), Box::new(b));
    match kind {
        "zip_map" => Node::ZipMap(a, b, (variant % 3) as u8),
        "add_amp" => Node::AddAmp(a, b),
        "mul_amp" => Node::MulAmp(a, b),
        _ => panic!("unknown binary kind {}", kind),
    }
}

/// random tree of the given depth budget; leaves are numbered in order of creation
pub fn random_tree(rng: &mut Rng, depth: usize, n_leaves: &mut usize, max_leaves: usize) -> Node {
    if depth == 0 || (*n_leaves + 1 >= max_leaves && rng.chance(1, 2)) || rng.chance(1, 6) {
        let j = *n_leaves;
        *n_leaves += 1;
        return Node::Leaf(j);
    }
    let v = rng.usize_below(1000);
    if *n_leaves + 2 <= max_leaves && rng.chance(1, 3) {
        let k = BINARY_KINDS[rng.usize_below(3)];
        let a = random_tree(rng, depth - 1, n_leaves, max_leaves);
        let b = random_tree(rng, depth - 1, n_leaves, max_leaves);
        binary(k, a, b, v)
    } else {
        let k = UNARY_KINDS[rng.usize_below(UNARY_KINDS.len())];
        let c = random_tree(rng, depth - 1, n_leaves, max_leaves);
        unary(k, c, v)
    }
}

/// Generate a random tree whose every intermediate amplitude stays inside the documented domain.
pub fn random_bounded_tree(rng: &mut Rng, depth: usize, max_leaves: usize) -> (Node, usize) {
    loop {
        let mut n = 0;
        let t = random_tree(rng, depth, &mut n, max_leaves);
        if t.max_bound(LEAF_AMP) < 0.9 {
            return (t, n);
        }
    }
}
