//! Counting global allocator. A binary opts in with
//!     #[global_allocator] static A: vmon::alloc::CountingAlloc = vmon::alloc::CountingAlloc;
//! Counters are thread-local (const-initialised, no lazy allocation) so a measured section on one
//! thread is not disturbed by other threads.

use std::alloc::{GlobalAlloc, Layout, System};
use std::cell::Cell;

pub struct CountingAlloc;

#[derive(Clone, Copy, Debug, Default, PartialEq, Eq)]
pub struct Snap {
    pub allocs: u64,
    pub reallocs: u64,
    pub deallocs: u64,
    pub live_bytes: i64,
    pub bytes_allocated: u64,
}

thread_local! {
    static ALLOCS: Cell<u64> = const { Cell::new(0) };
    static REALLOCS: Cell<u64> = const { Cell::new(0) };
    static DEALLOCS: Cell<u64> = const { Cell::new(0) };
    static LIVE: Cell<i64> = const { Cell::new(0) };
    static BYTES: Cell<u64> = const { Cell::new(0) };
}

unsafe impl GlobalAlloc for CountingAlloc {
    unsafe fn alloc(&self, l: Layout) -> *mut u8 {
        let _ = ALLOCS.try_with(|c| c.set(c.get() + 1));
        let _ = LIVE.try_with(|c| c.set(c.get() + l.size() as i64));
        let _ = BYTES.try_with(|c| c.set(c.get() + l.size() as u64));
        System.alloc(l)
    }
    unsafe fn alloc_zeroed(&self, l: Layout) -> *mut u8 {
        let _ = ALLOCS.try_with(|c| c.set(c.get() + 1));
        let _ = LIVE.try_with(|c| c.set(c.get() + l.size() as i64));
        let _ = BYTES.try_with(|c| c.set(c.get() + l.size() as u64));
        System.alloc_zeroed(l)
    }
    unsafe fn dealloc(&self, p: *mut u8, l: Layout) {
        let _ = DEALLOCS.try_with(|c| c.set(c.get() + 1));
        let _ = LIVE.try_with(|c| c.set(c.get() - l.size() as i64));
        System.dealloc(p, l)
    }
    unsafe fn realloc(&self, p: *mut u8, l: Layout, new_size: usize) -> *mut u8 {
        let _ = REALLOCS.try_with(|c| c.set(c.get() + 1));
        let _ = LIVE.try_with(|c| c.set(c.get() + new_size as i64 - l.size() as i64));
        if new_size > l.size() {
            let _ = BYTES.try_with(|c| c.set(c.get() + (new_size - l.size()) as u64));
        }
        System.realloc(p, l, new_size)
    }
}

/// Snapshot of this thread's counters.
pub fn snap() -> Snap {
    Snap {
        allocs: ALLOCS.with(|c| c.get()),
        reallocs: REALLOCS.with(|c| c.get()),
        deallocs: DEALLOCS.with(|c| c.get()),
        live_bytes: LIVE.with(|c| c.get()),
        bytes_allocated: BYTES.with(|c| c.get()),
    }
}

impl Snap {
    /// counters accrued since `earlier`
    pub fn since(&self, earlier: &Snap) -> Snap {
        Snap {
            allocs: self.allocs - earlier.allocs,
            reallocs: self.reallocs - earlier.reallocs,
            deallocs: self.deallocs - earlier.deallocs,
            live_bytes: self.live_bytes - earlier.live_bytes,
            bytes_allocated: self.bytes_allocated - earlier.bytes_allocated,
        }
    }
    pub fn is_zero_traffic(&self) -> bool {
        self.allocs == 0 && self.reallocs == 0 && self.deallocs == 0
    }
}

/// Measure heap traffic of `f` on the current thread.
#[inline(never)]
pub fn measure<R>(f: impl FnOnce() -> R) -> (R, Snap) {
    let a = snap();
    let r = f();
    let b = snap();
    (r, b.since(&a))
}
