//! Double-double arithmetic (~106 bits) for reference computations.

#[derive(Clone, Copy, Debug, PartialEq)]
pub struct DD {
    pub hi: f64,
    pub lo: f64,
}

#[inline]
fn two_sum(a: f64, b: f64) -> (f64, f64) {
    let s = a + b;
    let bb = s - a;
    let e = (a - (s - bb)) + (b - bb);
    (s, e)
}

#[inline]
fn quick_two_sum(a: f64, b: f64) -> (f64, f64) {
    let s = a + b;
    let e = b - (s - a);
    (s, e)
}

#[inline]
fn two_prod(a: f64, b: f64) -> (f64, f64) {
    let p = a * b;
    let e = a.mul_add(b, -p);
    (p, e)
}

impl DD {
    pub const ZERO: DD = DD { hi: 0.0, lo: 0.0 };
    #[inline]
    pub fn from(x: f64) -> DD {
        DD { hi: x, lo: 0.0 }
    }
    #[inline]
    pub fn add_f(self, b: f64) -> DD {
        let (s, e) = two_sum(self.hi, b);
        let e = e + self.lo;
        let (hi, lo) = quick_two_sum(s, e);
        DD { hi, lo }
    }
    #[inline]
    pub fn add(self, b: DD) -> DD {
        let (s, e) = two_sum(self.hi, b.hi);
        let (t, f) = two_sum(self.lo, b.lo);
        let e = e + t;
        let (s, e) = quick_two_sum(s, e);
        let e = e + f;
        let (hi, lo) = quick_two_sum(s, e);
        DD { hi, lo }
    }
    #[inline]
    pub fn neg(self) -> DD {
        DD { hi: -self.hi, lo: -self.lo }
    }
    #[inline]
    pub fn sub(self, b: DD) -> DD {
        self.add(b.neg())
    }
    #[inline]
    pub fn mul_f(self, b: f64) -> DD {
        let (p, e) = two_prod(self.hi, b);
        let e = e + self.lo * b;
        let (hi, lo) = quick_two_sum(p, e);
        DD { hi, lo }
    }
    /// exact product of two f64
    #[inline]
    pub fn prod(a: f64, b: f64) -> DD {
        let (hi, lo) = two_prod(a, b);
        DD { hi, lo }
    }
    #[inline]
    pub fn div_f(self, b: f64) -> DD {
        // one Newton step
        let q1 = self.hi / b;
        let r = self.sub(DD::prod(q1, b));
        let q2 = r.hi / b;
        let (hi, lo) = quick_two_sum(q1, q2);
        DD { hi, lo }
    }
    #[inline]
    pub fn to_f64(self) -> f64 {
        self.hi + self.lo
    }
    pub fn floor(self) -> DD {
        let fh = self.hi.floor();
        if fh == self.hi {
            // hi is an integer; floor depends on lo
            let fl = self.lo.floor();
            let (hi, lo) = quick_two_sum(fh, fl);
            DD { hi, lo }
        } else {
            DD { hi: fh, lo: 0.0 }
        }
    }
    /// fractional part in [0,1)
    pub fn frac(self) -> DD {
        self.sub(self.floor())
    }
    pub fn abs(self) -> DD {
        if self.hi < 0.0 || (self.hi == 0.0 && self.lo < 0.0) {
            self.neg()
        } else {
            self
        }
    }
    pub fn sqrt(self) -> DD {
        if self.hi <= 0.0 {
            return DD::ZERO;
        }
        let x = self.hi.sqrt();
        // one Newton iteration: x + (a - x^2) / (2x)
        let r = self.sub(DD::prod(x, x));
        let corr = r.hi / (2.0 * x);
        let (hi, lo) = quick_two_sum(x, corr);
        DD { hi, lo }
    }
}
