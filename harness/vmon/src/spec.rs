//! Spec arithmetic written from the property statements (shares no code with dasp's conv.rs):
//! exact power-of-two rescaling of integer amplitudes, exact int->float rounding (RNE) and exact
//! float->int truncation, all in i128 / bit manipulation.

/// One of the twelve integer sample formats.
#[derive(Clone, Copy, Debug, PartialEq, Eq, Hash)]
pub struct IntFmt {
    pub name: &'static str,
    pub bits: u32,
    pub signed: bool,
}

pub const I8: IntFmt = IntFmt { name: "i8", bits: 8, signed: true };
pub const I16: IntFmt = IntFmt { name: "i16", bits: 16, signed: true };
pub const I24: IntFmt = IntFmt { name: "I24", bits: 24, signed: true };
pub const I32: IntFmt = IntFmt { name: "i32", bits: 32, signed: true };
pub const I48: IntFmt = IntFmt { name: "I48", bits: 48, signed: true };
pub const I64: IntFmt = IntFmt { name: "i64", bits: 64, signed: true };
pub const U8: IntFmt = IntFmt { name: "u8", bits: 8, signed: false };
pub const U16: IntFmt = IntFmt { name: "u16", bits: 16, signed: false };
pub const U24: IntFmt = IntFmt { name: "U24", bits: 24, signed: false };
pub const U32: IntFmt = IntFmt { name: "u32", bits: 32, signed: false };
pub const U48: IntFmt = IntFmt { name: "U48", bits: 48, signed: false };
pub const U64: IntFmt = IntFmt { name: "u64", bits: 64, signed: false };

pub const INT_FMTS: [IntFmt; 12] = [I8, I16, I24, I32, I48, I64, U8, U16, U24, U32, U48, U64];

impl IntFmt {
    /// half range = 2^(bits-1)
    #[inline]
    pub fn half(&self) -> i128 {
        1i128 << (self.bits - 1)
    }
    #[inline]
    pub fn min(&self) -> i128 {
        if self.signed {
            -self.half()
        } else {
            0
        }
    }
    #[inline]
    pub fn max(&self) -> i128 {
        if self.signed {
            self.half() - 1
        } else {
            2 * self.half() - 1
        }
    }
    #[inline]
    pub fn equilibrium(&self) -> i128 {
        if self.signed {
            0
        } else {
            self.half()
        }
    }
    /// signed amplitude of a raw value
    #[inline]
    pub fn amp(&self, raw: i128) -> i128 {
        raw - self.equilibrium()
    }
    /// raw value from signed amplitude
    #[inline]
    pub fn from_amp(&self, amp: i128) -> i128 {
        amp + self.equilibrium()
    }
    #[inline]
    pub fn in_range(&self, raw: i128) -> bool {
        raw >= self.min() && raw <= self.max()
    }
}

/// C01 spec: amplitude * 2^(dst.bits - src.bits), rounded toward negative infinity when narrowing.
#[inline]
pub fn int_to_int(src: IntFmt, dst: IntFmt, raw: i128) -> i128 {
    let amp = src.amp(raw);
    let r = if dst.bits >= src.bits {
        amp << (dst.bits - src.bits)
    } else {
        // arithmetic shift right on i128 == floor division by a power of two
        amp >> (src.bits - dst.bits)
    };
    dst.from_amp(r)
}

#[inline]
fn bitlen(m: u128) -> u32 {
    128 - m.leading_zeros()
}

/// Round-to-nearest-even of (+/-) m * 2^e to a binary float with `p` bits of precision and
/// minimum normal exponent `emin` (value of the leading bit), returned exactly as f64
/// (p <= 53). Overflow handling is left to the caller.
pub fn rne(neg: bool, m: u128, e: i32, p: u32, emin: i32) -> f64 {
    if m == 0 {
        return if neg { -0.0 } else { 0.0 };
    }
    let k = bitlen(m) as i32;
    let lead = k - 1 + e; // exponent of leading bit
    // quantum exponent
    let q = if lead < emin { emin - (p as i32 - 1) } else { lead - (p as i32 - 1) };
    let sh = q - e; // shift right by sh
    let n: u128 = if sh <= 0 {
        m << ((-sh) as u32)
    } else if sh as u32 >= 128 {
        0 // far below half a quantum (m < 2^127 always here) -> rounds to 0; sticky irrelevant
    } else {
        let sh = sh as u32;
        let fl = m >> sh;
        let rem = m & ((1u128 << sh) - 1);
        let half = 1u128 << (sh - 1);
        if rem > half || (rem == half && (fl & 1) == 1) {
            fl + 1
        } else {
            fl
        }
    };
    // n <= 2^p, exact in f64; scaling by 2^q exact (q within f64 range for our uses)
    let v = (n as f64) * pow2(q);
    if neg {
        -v
    } else {
        v
    }
}

/// exact 2^q as f64 (q in -1074..=1023)
pub fn pow2(q: i32) -> f64 {
    if q >= -1022 {
        f64::from_bits(((q + 1023) as u64) << 52)
    } else {
        f64::from_bits(1u64 << (q + 1074))
    }
}

/// C02 spec: integer amplitude / 2^(bits-1), correctly rounded to f64.
pub fn int_to_f64(src: IntFmt, raw: i128) -> f64 {
    let amp = src.amp(raw);
    rne(amp < 0, amp.unsigned_abs(), -((src.bits - 1) as i32), 53, -1022)
}

/// C02 spec: integer amplitude / 2^(bits-1), correctly rounded to f32.
pub fn int_to_f32(src: IntFmt, raw: i128) -> f32 {
    let amp = src.amp(raw);
    let v = rne(amp < 0, amp.unsigned_abs(), -((src.bits - 1) as i32), 24, -126);
    let r = v as f32; // exactly representable by construction
    debug_assert!(r as f64 == v);
    r
}

/// Decompose a finite f64 into (neg, integer mantissa, exponent) with value = m * 2^e.
pub fn decompose_f64(x: f64) -> (bool, u128, i32) {
    let b = x.to_bits();
    let neg = (b >> 63) == 1;
    let ef = ((b >> 52) & 0x7ff) as i32;
    let frac = b & ((1u64 << 52) - 1);
    if ef == 0 {
        (neg, frac as u128, -1074)
    } else {
        (neg, (frac | (1u64 << 52)) as u128, ef - 1075)
    }
}

/// Decompose a finite f32.
pub fn decompose_f32(x: f32) -> (bool, u128, i32) {
    let b = x.to_bits();
    let neg = (b >> 31) == 1;
    let ef = ((b >> 23) & 0xff) as i32;
    let frac = b & ((1u32 << 23) - 1);
    if ef == 0 {
        (neg, frac as u128, -149)
    } else {
        (neg, (frac | (1u32 << 23)) as u128, ef - 150)
    }
}

/// C02 spec: trunc(s * 2^(bits-1)) toward zero, re-offset for unsigned; `s` given exactly as
/// (neg, m, e). Returns None when the result is outside the destination range (input outside
/// the documented domain [-1, 1)).
pub fn float_to_int(dst: IntFmt, neg: bool, m: u128, e: i32) -> Option<i128> {
    let ee = e + dst.bits as i32 - 1;
    let mag: u128 = if m == 0 {
        0
    } else if ee >= 0 {
        if ee as u32 + bitlen(m) > 126 {
            return None;
        }
        m << (ee as u32)
    } else if (-ee) as u32 >= 128 {
        0
    } else {
        m >> ((-ee) as u32)
    };
    let amp = if neg { -(mag as i128) } else { mag as i128 };
    let raw = dst.from_amp(amp);
    if dst.in_range(raw) {
        Some(raw)
    } else {
        None
    }
}

/// f64 -> f32 correctly rounded (RNE), including subnormals and overflow to infinity.
pub fn f64_to_f32(x: f64) -> f32 {
    if x.is_nan() {
        return f32::NAN;
    }
    if x.is_infinite() {
        return if x > 0.0 { f32::INFINITY } else { f32::NEG_INFINITY };
    }
    let (neg, m, e) = decompose_f64(x);
    let v = rne(neg, m, e, 24, -126);
    if v.abs() >= pow2(128) {
        return if neg { f32::NEG_INFINITY } else { f32::INFINITY };
    }
    let r = v as f32;
    debug_assert!(r as f64 == v);
    r
}

/// The structured ("boundary") value set of an integer format, as raw values, used wherever the
/// format is too wide to enumerate: extremes and equilibrium with a neighbourhood, every
/// +/-2^k +/- d, and the rounding boundaries of every narrowing shift.
pub fn structured_values(f: IntFmt, neigh: i128, d_max: i128) -> Vec<i128> {
    let mut v: Vec<i128> = Vec::new();
    let (min, max, eq) = (f.min(), f.max(), f.equilibrium());
    let mut push = |x: i128| {
        if x >= min && x <= max {
            v.push(x);
        }
    };
    for d in 0..=neigh {
        push(min + d);
        push(max - d);
        push(eq + d);
        push(eq - d);
        push(d);
        push(-d);
    }
    for k in 0..f.bits {
        let p = 1i128 << k;
        for d in -d_max..=d_max {
            push(eq + p + d);
            push(eq - p + d);
            push(p + d);
            push(-p + d);
        }
    }
    // rounding boundaries of narrowing by s bits: low field all-zeros / all-ones / 1, with assorted
    // high parts
    for s in [8u32, 16, 24, 32, 40, 48, 56] {
        if s >= f.bits {
            continue;
        }
        let low_mask = (1i128 << s) - 1;
        let highs: [i128; 9] = [0, 1, -1, 2, -2, 0x55, -0x55, (1i128 << (f.bits - s - 1)) - 1, -(1i128 << (f.bits - s - 1))];
        for h in highs {
            for low in [0i128, 1, low_mask, low_mask - 1, 1i128 << (s - 1), (1i128 << (s - 1)) - 1] {
                let amp = (h << s) | low;
                push(f.from_amp(amp));
            }
        }
    }
    v.sort_unstable();
    v.dedup();
    v
}

/// Raw values of integer format `f` that sit on / next to the rounding boundaries of a binary
/// float with `p` bits of precision: for every position of the leading amplitude bit above p, a
/// few p-bit mantissas (even, odd, all-ones, random) shifted into place, plus exactly half a unit
/// in the last place, plus or minus offsets at every lower bit position (0, 1, 2, 4, ...). These
/// are the inputs on which "correctly rounded" differs from truncation, from rounding in two
/// steps (through a wider float) and from round-half-up.
pub fn rounding_boundaries(f: IntFmt, p: u32, seed: u64) -> Vec<i128> {
    let mut v: Vec<i128> = Vec::new();
    let (min, max) = (f.min(), f.max());
    let mut x = seed | 1;
    let mut next = || {
        x ^= x << 13;
        x ^= x >> 7;
        x ^= x << 17;
        x
    };
    let amp_bits = f.bits - 1; // magnitude bits of the signed amplitude
    if amp_bits <= p {
        return v;
    }
    for lead in p..=amp_bits {
        // leading bit at position `lead` (value 2^lead), mantissa occupies bits lead..=lead-p+1
        let sh = lead + 1 - p; // number of bits below the mantissa
        let top = 1i128 << (p - 1);
        let mants: [i128; 7] = [top, top + 1, (1i128 << p) - 1, (1i128 << p) - 2, top | (next() as i128 & (top - 1)), top | (next() as i128 & (top - 1)) | 1, top | ((next() as i128 & (top - 1)) & !1)];
        for m in mants {
            let base = m << sh;
            let half = 1i128 << (sh - 1);
            let mut offs: Vec<i128> = vec![0, 1, -1, 2, -2];
            let mut k = 2;
            while k < sh - 1 {
                offs.push(1i128 << k);
                offs.push(-(1i128 << k));
                k += 1;
            }
            if sh >= 2 {
                offs.push((1i128 << (sh - 1)) - 1);
                offs.push(-((1i128 << (sh - 1)) - 1));
            }
            for o in offs {
                for amp in [base + half + o, -(base + half + o), base + o, -(base + o)] {
                    let raw = f.from_amp(amp);
                    if raw >= min && raw <= max {
                        v.push(raw);
                    }
                }
            }
        }
    }
    v.sort_unstable();
    v.dedup();
    v
}

#[cfg(test)]
mod tests {
    use super::*;
    #[test]
    fn rne_basics() {
        assert_eq!(int_to_f64(I16, -32768), -1.0);
        assert_eq!(int_to_f64(U8, 128), 0.0);
        assert_eq!(int_to_f32(I32, i32::MAX as i128), 1.0f32);
        assert_eq!(int_to_f32(I32, 16777217), (16777216.0f32 / 2147483648.0));
        assert_eq!(int_to_f64(I64, i64::MAX as i128), 1.0);
        assert_eq!(f64_to_f32(1.0 + 2f64.powi(-24)), 1.0);
        assert_eq!(f64_to_f32(1.0 + 2f64.powi(-24) + 2f64.powi(-50)), 1.0 + f32::EPSILON);
        assert_eq!(f64_to_f32(1e-46), 0.0);
        assert_eq!(f64_to_f32(1e39), f32::INFINITY);
        let (n, m, e) = decompose_f64(-0.5);
        assert_eq!(float_to_int(I16, n, m, e), Some(-16384));
        assert_eq!(float_to_int(U8, n, m, e), Some(64));
        let (n, m, e) = decompose_f64(0.999);
        assert_eq!(float_to_int(I8, n, m, e), Some(127));
        assert_eq!(int_to_int(I16, I8, -1), -1);
        assert_eq!(int_to_int(U16, U8, 255), 0);
        assert_eq!(int_to_int(I8, U16, -128), 0);
    }
}
