//! Per-stage run report: what the monitor observed. Written as JSON for the driver to merge.

use crate::json::J;
use std::collections::{BTreeMap, HashSet};

// ---- violation side-car --------------------------------------------------------------------
// Every *new* violation signature is appended, the moment it is observed, as one JSON line to
// `<out>.viol`. A stage that later hangs or crashes (a change that makes the code under test spin
// or abort) has then still delivered what it saw: the driver reads the side-car when the stage
// did not finish with a completed report, and stops a stage that keeps running long after its
// first violation.
static SIDECAR: std::sync::Mutex<Option<(String, Vec<String>)>> = std::sync::Mutex::new(None);

pub fn set_sidecar(path: &str) {
    let _ = std::fs::remove_file(path);
    *SIDECAR.lock().unwrap_or_else(|e| e.into_inner()) = Some((path.to_string(), Vec::new()));
}

fn sidecar_append(sig: &str, detail: &str, case: &str) {
    use std::io::Write;
    let mut g = SIDECAR.lock().unwrap_or_else(|e| e.into_inner());
    if let Some((path, seen)) = g.as_mut() {
        if seen.len() >= 64 || seen.iter().any(|s| s == sig) {
            return;
        }
        seen.push(sig.to_string());
        let line = J::obj().set("sig", J::s(sig)).set("detail", J::s(detail)).set("case", J::s(case)).set("count", J::u(1)).to_string();
        if let Ok(mut f) = std::fs::OpenOptions::new().create(true).append(true).open(&*path) {
            let _ = writeln!(f, "{}", line);
        }
    }
}

#[derive(Clone, Debug)]
pub struct Violation {
    /// stable signature: check-point | input class (used for de-duplication and known findings)
    pub sig: String,
    /// human-readable witness (inputs, expected, got)
    pub detail: String,
    /// case string understood by the same binary's `--case` replay mode
    pub case: String,
    pub count: u64,
}

#[derive(Clone, Debug, Default)]
pub struct Report {
    pub property: String,
    pub stage: String,
    pub evaluations: u64,
    /// hashes of distinct non-trivial cases (bounded; beyond the cap only counted by construction)
    pub distinct: HashSet<u64>,
    /// cases that are distinct by construction (disjoint enumeration), counted but not stored
    pub distinct_by_construction: u64,
    pub counters: BTreeMap<String, u64>,
    /// observation obligations: name -> (observed, required)
    pub obligations: BTreeMap<String, (u64, u64)>,
    pub violations: Vec<Violation>,
    pub samples: Vec<J>,
    pub exhaustive_subspaces: Vec<String>,
    pub notes: Vec<String>,
    pub max_samples: usize,
    pub max_violation_kinds: usize,
}

impl Report {
    pub fn new(property: &str, stage: &str) -> Report {
        Report {
            property: property.to_string(),
            stage: stage.to_string(),
            max_samples: 6,
            max_violation_kinds: 40,
            ..Default::default()
        }
    }
    #[inline]
    pub fn eval(&mut self, n: u64) {
        self.evaluations += n;
    }
    #[inline]
    pub fn nontrivial(&mut self, h: u64) {
        if self.distinct.len() < 2_000_000 {
            self.distinct.insert(h);
        }
    }
    #[inline]
    pub fn nontrivial_by_construction(&mut self, n: u64) {
        self.distinct_by_construction += n;
    }
    #[inline]
    pub fn count(&mut self, name: &str, n: u64) {
        if let Some(c) = self.counters.get_mut(name) {
            *c += n;
        } else {
            self.counters.insert(name.to_string(), n);
        }
    }
    /// declare an obligation: the run is inconclusive unless it is hit >= required times
    pub fn oblige(&mut self, name: &str, required: u64) {
        let e = self.obligations.entry(name.to_string()).or_insert((0, required));
        e.1 = e.1.max(required);
    }
    #[inline]
    pub fn hit(&mut self, name: &str) {
        self.hit_n(name, 1)
    }
    #[inline]
    pub fn hit_n(&mut self, name: &str, n: u64) {
        if let Some(e) = self.obligations.get_mut(name) {
            e.0 += n;
        } else {
            self.obligations.insert(name.to_string(), (n, 1));
        }
    }
    pub fn violation(&mut self, sig: &str, detail: impl Into<String>, case: impl Into<String>) {
        if let Some(v) = self.violations.iter_mut().find(|v| v.sig == sig) {
            v.count += 1;
            return;
        }
        if self.violations.len() >= self.max_violation_kinds {
            self.count("violations_dropped_beyond_cap", 1);
            return;
        }
        let (detail, case) = (detail.into(), case.into());
        sidecar_append(sig, &detail, &case);
        self.violations.push(Violation { sig: sig.to_string(), detail, case, count: 1 });
    }
    pub fn n_violations(&self) -> u64 {
        self.violations.iter().map(|v| v.count).sum()
    }
    pub fn sample(&mut self, j: J) {
        if self.samples.len() < self.max_samples {
            self.samples.push(j);
        }
    }
    pub fn want_sample(&self) -> bool {
        self.samples.len() < self.max_samples
    }
    pub fn note(&mut self, s: impl Into<String>) {
        self.notes.push(s.into());
    }
    pub fn exhaustive(&mut self, s: impl Into<String>) {
        let s = s.into();
        if !self.exhaustive_subspaces.contains(&s) {
            self.exhaustive_subspaces.push(s);
        }
    }

    /// Merge another (thread-local) report into this one.
    pub fn merge(&mut self, o: Report) {
        self.evaluations += o.evaluations;
        for h in o.distinct {
            if self.distinct.len() < 4_000_000 {
                self.distinct.insert(h);
            }
        }
        self.distinct_by_construction += o.distinct_by_construction;
        for (k, v) in o.counters {
            *self.counters.entry(k).or_insert(0) += v;
        }
        for (k, (c, r)) in o.obligations {
            let e = self.obligations.entry(k).or_insert((0, r));
            e.0 += c;
            e.1 = e.1.max(r);
        }
        for v in o.violations {
            if let Some(m) = self.violations.iter_mut().find(|m| m.sig == v.sig) {
                m.count += v.count;
            } else if self.violations.len() < self.max_violation_kinds {
                self.violations.push(v);
            }
        }
        for s in o.samples {
            if self.samples.len() < self.max_samples {
                self.samples.push(s);
            }
        }
        for s in o.exhaustive_subspaces {
            self.exhaustive(s);
        }
        self.notes.extend(o.notes);
    }

    pub fn to_json(&self, wall_s: f64) -> J {
        let mut o = J::obj();
        o.put("property", J::s(&self.property));
        o.put("stage", J::s(&self.stage));
        o.put("evaluations", J::u(self.evaluations));
        o.put("distinct_hashed", J::u(self.distinct.len() as u64));
        o.put("distinct_by_construction", J::u(self.distinct_by_construction));
        if self.distinct.len() <= 300_000 {
            let mut hs: Vec<u64> = self.distinct.iter().copied().collect();
            hs.sort_unstable();
            o.put("distinct_hashes", J::Arr(hs.into_iter().map(|h| J::s(format!("{:016x}", h))).collect()));
        }
        o.put(
            "counters",
            J::Obj(self.counters.iter().map(|(k, v)| (k.clone(), J::u(*v))).collect()),
        );
        o.put(
            "obligations",
            J::Obj(
                self.obligations
                    .iter()
                    .map(|(k, (c, r))| (k.clone(), J::obj().set("observed", J::u(*c)).set("required", J::u(*r))))
                    .collect(),
            ),
        );
        o.put(
            "violations",
            J::Arr(
                self.violations
                    .iter()
                    .map(|v| {
                        J::obj()
                            .set("sig", J::s(&v.sig))
                            .set("detail", J::s(&v.detail))
                            .set("case", J::s(&v.case))
                            .set("count", J::u(v.count))
                    })
                    .collect(),
            ),
        );
        o.put("samples", J::Arr(self.samples.clone()));
        o.put("exhaustive_subspaces", J::Arr(self.exhaustive_subspaces.iter().map(J::s).collect()));
        o.put("notes", J::Arr(self.notes.iter().map(J::s).collect()));
        o.put("wall_s", J::f(wall_s));
        o.put("completed", J::Bool(true));
        o
    }

    /// Write the report to `path` (or stdout if None). Called once at the end of a stage.
    pub fn write(&self, path: Option<&str>, wall_s: f64) {
        let s = self.to_json(wall_s).to_string();
        match path {
            Some(p) => {
                let tmp = format!("{}.tmp", p);
                std::fs::write(&tmp, s.as_bytes()).expect("write report");
                std::fs::rename(&tmp, p).expect("rename report");
            }
            None => println!("{}", s),
        }
        // brief human summary on stderr
        eprintln!(
            "[{} {}] evaluations={} distinct={} violations={} ({} kinds) wall={:.1}s",
            self.property,
            self.stage,
            self.evaluations,
            self.distinct.len() as u64 + self.distinct_by_construction,
            self.n_violations(),
            self.violations.len(),
            wall_s
        );
        for v in &self.violations {
            eprintln!("  VIOLATION-KIND {} x{}: {}", v.sig, v.count, v.detail);
        }
    }
}
