//! Argument parsing shared by all monitor binaries.
//!
//!   <bin> --stage NAME --tier quick|thorough --seed N --out FILE [--shard I/N] [--threads T]
//!         [--case STRING] [--set k=v ...]
//!
//! Parameters come on argv only (Miri does not forward the environment by default).

use std::collections::BTreeMap;

#[derive(Clone, Debug)]
pub struct Cli {
    pub stage: String,
    pub tier: String,
    pub seed: u64,
    pub out: Option<String>,
    pub shard: u64,
    pub nshards: u64,
    pub threads: usize,
    pub case: Option<String>,
    pub kv: BTreeMap<String, String>,
}

impl Cli {
    pub fn parse() -> Cli {
        let args: Vec<String> = std::env::args().skip(1).collect();
        let mut c = Cli {
            stage: "main".into(),
            tier: "quick".into(),
            seed: 0,
            out: None,
            shard: 0,
            nshards: 1,
            threads: std::thread::available_parallelism().map(|n| n.get()).unwrap_or(4),
            case: None,
            kv: BTreeMap::new(),
        };
        let mut i = 0;
        while i < args.len() {
            let a = args[i].as_str();
            let mut val = || {
                i += 1;
                args.get(i).cloned().unwrap_or_else(|| panic!("missing value for {}", a))
            };
            match a {
                "--stage" => c.stage = val(),
                "--tier" => c.tier = val(),
                "--seed" => c.seed = val().parse().expect("seed"),
                "--out" => c.out = Some(val()),
                "--threads" => c.threads = val().parse().expect("threads"),
                "--case" => c.case = Some(val()),
                "--shard" => {
                    let v = val();
                    let (a, b) = v.split_once('/').expect("shard I/N");
                    c.shard = a.parse().expect("shard");
                    c.nshards = b.parse().expect("nshards");
                }
                "--set" => {
                    let v = val();
                    let (k, vv) = v.split_once('=').expect("--set k=v");
                    c.kv.insert(k.to_string(), vv.to_string());
                }
                other => panic!("unknown argument {}", other),
            }
            i += 1;
        }
        if let (Some(out), None) = (&c.out, &c.case) {
            crate::report::set_sidecar(&format!("{}.viol", out));
        }
        if c.stage == "__noop__" {
            // used by the driver to build under `cargo miri run` and capture the interpreter
            // command line without running anything
            std::process::exit(0);
        }
        c
    }
    pub fn thorough(&self) -> bool {
        self.tier == "thorough"
    }
    /// pick by tier
    pub fn t<T>(&self, quick: T, thorough: T) -> T {
        if self.thorough() {
            thorough
        } else {
            quick
        }
    }
    pub fn get_u64(&self, k: &str, default: u64) -> u64 {
        self.kv.get(k).map(|v| v.parse().expect("u64 param")).unwrap_or(default)
    }
    pub fn get_str(&self, k: &str) -> Option<&str> {
        self.kv.get(k).map(|s| s.as_str())
    }
}

/// Parse "k1=v1;k2=v2" case strings.
pub fn parse_case(s: &str) -> BTreeMap<String, String> {
    let mut m = BTreeMap::new();
    for part in s.split(';') {
        if part.is_empty() {
            continue;
        }
        if let Some((k, v)) = part.split_once('=') {
            m.insert(k.to_string(), v.to_string());
        } else {
            m.insert(part.to_string(), String::new());
        }
    }
    m
}
