//! vmon — support library for the runtime monitors in /verif/harness/checks.
//!
//! Nothing in here knows anything about dasp: PRNG, JSON writer, run report
//! (counters / obligations / violations / samples), counting allocator, double-double
//! arithmetic and an exact rational->float rounding used by the spec oracles.

pub mod alloc;
pub mod cli;
pub mod dd;
pub mod dict;
pub mod edge;
pub mod json;
pub mod report;
pub mod rng;
pub mod spec;

pub use cli::Cli;
pub use json::J;
pub use report::Report;
pub use rng::Rng;

/// Run `f`, turning a panic into `Err(message)`.  The default panic hook is silenced for the
/// duration (per-thread flag) so that expected panics do not flood stderr.
pub fn catch<R>(f: impl FnOnce() -> R) -> Result<R, String> {
    use std::panic::{catch_unwind, AssertUnwindSafe};
    install_quiet_hook();
    QUIET.with(|q| q.set(q.get() + 1));
    let r = catch_unwind(AssertUnwindSafe(f));
    QUIET.with(|q| q.set(q.get() - 1));
    r.map_err(|e| {
        if let Some(s) = e.downcast_ref::<&str>() {
            s.to_string()
        } else if let Some(s) = e.downcast_ref::<String>() {
            s.clone()
        } else {
            "non-string panic payload".to_string()
        }
    })
}

thread_local! {
    static QUIET: std::cell::Cell<u32> = const { std::cell::Cell::new(0) };
}

fn install_quiet_hook() {
    use std::sync::Once;
    static ONCE: Once = Once::new();
    ONCE.call_once(|| {
        let default = std::panic::take_hook();
        std::panic::set_hook(Box::new(move |info| {
            let quiet = QUIET.with(|q| q.get()) > 0;
            if !quiet {
                default(info);
            }
        }));
    });
}

/// FNV-1a style 64-bit hash of a byte string (stable across runs and platforms).
pub fn hash_bytes(bytes: &[u8]) -> u64 {
    let mut h: u64 = 0xcbf2_9ce4_8422_2325;
    for &b in bytes {
        h ^= b as u64;
        h = h.wrapping_mul(0x0000_0100_0000_01b3);
    }
    // final avalanche
    rng::mix64(h)
}

pub fn hash_str(s: &str) -> u64 {
    hash_bytes(s.as_bytes())
}

/// Combine hashes.
pub fn hash_combine(a: u64, b: u64) -> u64 {
    rng::mix64(a ^ b.wrapping_mul(0x9e37_79b9_7f4a_7c15).rotate_left(23))
}

/// Run `n_items` work items on `threads` OS threads, each thread with its own state produced by
/// `mk`, and return the states. Work is distributed by atomic counter (chunks of `chunk`).
pub fn par_for<S: Send>(
    threads: usize,
    n_items: u64,
    chunk: u64,
    mk: impl Fn(usize) -> S + Sync,
    work: impl Fn(&mut S, u64) + Sync,
) -> Vec<S> {
    use std::sync::atomic::{AtomicU64, Ordering};
    let next = AtomicU64::new(0);
    let threads = threads.max(1);
    let chunk = chunk.max(1);
    std::thread::scope(|sc| {
        let mut hs = Vec::new();
        for t in 0..threads {
            let next = &next;
            let mk = &mk;
            let work = &work;
            hs.push(sc.spawn(move || {
                let mut st = mk(t);
                loop {
                    let start = next.fetch_add(chunk, Ordering::Relaxed);
                    if start >= n_items {
                        break;
                    }
                    let end = (start + chunk).min(n_items);
                    for i in start..end {
                        work(&mut st, i);
                    }
                }
                st
            }));
        }
        hs.into_iter().map(|h| h.join().expect("worker thread panicked")).collect()
    })
}
