//! Edge-value alphabets shared by the monitors: the places where a narrower intermediate type, a
//! capacity threshold or an IEEE special case makes an implementation differ from its contract.

/// `usize` values around the integer-width boundaries: 2^k - d and 2^k + d for the widths a
/// narrower intermediate (u8/u16/i32/u32/...) would truncate at, multiples of 2^32 plus a small
/// remainder (their low 32 bits look like a small number), and the top of the range.
/// `small` bounds the remainders d (0..=small).
pub fn wide_usizes(small: usize) -> Vec<usize> {
    let mut v = Vec::new();
    for k in [8u32, 16, 24, 31, 32, 33, 40, 48, 63] {
        if k >= usize::BITS {
            continue;
        }
        let p = 1usize << k;
        for d in 0..=small {
            if d <= p {
                v.push(p - d);
            }
            v.push(p.wrapping_add(d));
        }
    }
    if usize::BITS >= 64 {
        for m in [2usize, 3, 5, 1 << 8, (1 << 16) + 1] {
            for d in 0..=small {
                v.push((m << 32).wrapping_add(d));
            }
        }
    }
    for d in 0..=small.min(4) {
        v.push(usize::MAX - d);
        v.push((isize::MAX as usize) - d);
        v.push((isize::MAX as usize).wrapping_add(1 + d));
    }
    v.sort_unstable();
    v.dedup();
    v
}

/// The subset of `wide_usizes` that is at least 2^32 (only meaningful on 64-bit hosts).
pub fn huge_usizes(small: usize) -> Vec<usize> {
    wide_usizes(small).into_iter().filter(|x| (*x as u128) >= (1u128 << 32)).collect()
}

/// Non-negative f64 "zero-ish and tiny" values that a `>= 0` / `== 0.0` guard treats specially:
/// both zeros, the smallest subnormal, subnormals, the smallest normal and its neighbours.
pub fn tiny_f64() -> Vec<f64> {
    vec![
        0.0,
        -0.0,
        f64::from_bits(1),
        f64::from_bits(2),
        f64::from_bits(0x0000_0000_ffff_ffff),
        f64::from_bits(0x000f_ffff_ffff_ffff),
        f64::MIN_POSITIVE,
        f64::MIN_POSITIVE * 2.0,
        f64::EPSILON,
        f32::MIN_POSITIVE as f64,
        f64::from_bits((f32::MIN_POSITIVE as f64).to_bits() - 1),
        f32::from_bits(1) as f64,
    ]
}

/// f32 counterpart of `tiny_f64`.
pub fn tiny_f32() -> Vec<f32> {
    vec![0.0, -0.0, f32::from_bits(1), f32::from_bits(2), f32::from_bits(0x0000_ffff), f32::from_bits(0x007f_ffff), f32::MIN_POSITIVE, f32::MIN_POSITIVE * 2.0, f32::EPSILON]
}

#[cfg(test)]
mod tests {
    use super::*;
    #[test]
    fn wide_contains_the_classics() {
        let v = wide_usizes(3);
        for x in [1usize << 32, (1 << 32) + 1, (1 << 32) - 1, 255, 256, 65_536, usize::MAX, 2 << 32] {
            assert!(v.contains(&x), "{}", x);
        }
        assert!(tiny_f64()[1].is_sign_negative());
    }
}
