//! SplitMix64-seeded xoshiro256** PRNG. Deterministic, seedable from (seed, labels).

#[inline]
pub fn mix64(mut z: u64) -> u64 {
    z = (z ^ (z >> 30)).wrapping_mul(0xbf58_476d_1ce4_e5b9);
    z = (z ^ (z >> 27)).wrapping_mul(0x94d0_49bb_1331_11eb);
    z ^ (z >> 31)
}

#[derive(Clone, Debug)]
pub struct Rng {
    s: [u64; 4],
}

impl Rng {
    pub fn new(seed: u64) -> Self {
        let mut x = seed;
        let mut s = [0u64; 4];
        for v in s.iter_mut() {
            x = x.wrapping_add(0x9e37_79b9_7f4a_7c15);
            *v = mix64(x);
        }
        if s == [0; 4] {
            s[0] = 1;
        }
        Rng { s }
    }

    /// Derive an independent stream from a base seed and a list of labels (stage, shard, case ...).
    pub fn derive(seed: u64, labels: &[u64]) -> Self {
        let mut h = mix64(seed ^ 0x5eed_5eed_5eed_5eed);
        for &l in labels {
            h = mix64(h ^ l.wrapping_mul(0x9e37_79b9_7f4a_7c15)).wrapping_add(0x1234_5678_9abc_def1);
        }
        Rng::new(h)
    }

    #[inline]
    pub fn u64(&mut self) -> u64 {
        let r = self.s[1].wrapping_mul(5).rotate_left(7).wrapping_mul(9);
        let t = self.s[1] << 17;
        self.s[2] ^= self.s[0];
        self.s[3] ^= self.s[1];
        self.s[1] ^= self.s[2];
        self.s[0] ^= self.s[3];
        self.s[2] ^= t;
        self.s[3] = self.s[3].rotate_left(45);
        r
    }
    #[inline]
    pub fn u32(&mut self) -> u32 {
        (self.u64() >> 32) as u32
    }
    /// uniform in 0..n (n > 0)
    #[inline]
    pub fn below(&mut self, n: u64) -> u64 {
        debug_assert!(n > 0);
        ((self.u64() as u128 * n as u128) >> 64) as u64
    }
    #[inline]
    pub fn usize_below(&mut self, n: usize) -> usize {
        self.below(n as u64) as usize
    }
    /// uniform in lo..=hi
    #[inline]
    pub fn range_i64(&mut self, lo: i64, hi: i64) -> i64 {
        let span = (hi as i128 - lo as i128 + 1) as u128;
        if span > u64::MAX as u128 {
            return self.u64() as i64;
        }
        (lo as i128 + self.below(span as u64) as i128) as i64
    }
    #[inline]
    pub fn range_i128(&mut self, lo: i128, hi: i128) -> i128 {
        let span = (hi - lo + 1) as u128;
        let r = ((self.u64() as u128) << 64 | self.u64() as u128) % span;
        lo + r as i128
    }
    #[inline]
    pub fn bool(&mut self) -> bool {
        self.u64() >> 63 == 1
    }
    /// true with probability num/den
    #[inline]
    pub fn chance(&mut self, num: u64, den: u64) -> bool {
        self.below(den) < num
    }
    /// uniform f64 in [0,1)
    #[inline]
    pub fn f64(&mut self) -> f64 {
        (self.u64() >> 11) as f64 * (1.0 / (1u64 << 53) as f64)
    }
    /// uniform in [lo,hi)
    #[inline]
    pub fn f64_in(&mut self, lo: f64, hi: f64) -> f64 {
        lo + (hi - lo) * self.f64()
    }
    pub fn pick<'a, T>(&mut self, xs: &'a [T]) -> &'a T {
        &xs[self.usize_below(xs.len())]
    }
}
