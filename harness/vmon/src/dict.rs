//! A "dictionary" of numeric literals harvested, at run time, from the source files of the crate
//! under test (the fuzzing-dictionary idea): every magic constant the implementation compares
//! against or special-cases becomes an input value of the workload, together with its neighbours.
//! A special case keyed on one value out of 2^64 is unreachable for random or boundary inputs but
//! is spelled out in the source; feeding the spelled-out values back in reaches it.
//!
//! The harvest is only a source of *inputs*; the oracle that judges the outputs never looks at it.

use std::path::{Path, PathBuf};

#[derive(Clone, Debug, Default)]
pub struct Dict {
    /// integer literals (decimal, hex, octal, binary; `_` separators and type suffixes accepted)
    pub ints: Vec<i128>,
    /// float literals, and every integer literal as a float
    pub floats: Vec<f64>,
    pub files: usize,
}

fn rs_files(dir: &Path, out: &mut Vec<PathBuf>) {
    let rd = match std::fs::read_dir(dir) {
        Ok(r) => r,
        Err(_) => return,
    };
    let mut ents: Vec<PathBuf> = rd.filter_map(|e| e.ok()).map(|e| e.path()).collect();
    ents.sort();
    for p in ents {
        if p.is_dir() {
            rs_files(&p, out);
        } else if p.extension().map(|e| e == "rs").unwrap_or(false) {
            out.push(p);
        }
    }
}

fn is_ident(c: u8) -> bool {
    c.is_ascii_alphanumeric() || c == b'_'
}

/// Scan one source text for numeric literals.
pub fn scan(text: &str, d: &mut Dict) {
    let b = text.as_bytes();
    let mut i = 0;
    while i < b.len() {
        let c = b[i];
        if !c.is_ascii_digit() || (i > 0 && is_ident(b[i - 1])) {
            i += 1;
            continue;
        }
        // radix prefix
        let (radix, mut j) = if c == b'0' && i + 1 < b.len() {
            match b[i + 1] {
                b'x' | b'X' => (16, i + 2),
                b'o' | b'O' => (8, i + 2),
                b'b' | b'B' if i + 2 < b.len() && (b[i + 2] == b'0' || b[i + 2] == b'1' || b[i + 2] == b'_') => (2, i + 2),
                _ => (10, i),
            }
        } else {
            (10, i)
        };
        let mut digits = String::new();
        while j < b.len() && ((b[j] as char).is_digit(radix) || b[j] == b'_') {
            if b[j] != b'_' {
                digits.push(b[j] as char);
            }
            j += 1;
        }
        let mut is_float = false;
        if radix == 10 {
            // fraction: '.' followed by a digit (not a method call or a range)
            if j + 1 < b.len() && b[j] == b'.' && b[j + 1].is_ascii_digit() {
                is_float = true;
                digits.push('.');
                j += 1;
                while j < b.len() && (b[j].is_ascii_digit() || b[j] == b'_') {
                    if b[j] != b'_' {
                        digits.push(b[j] as char);
                    }
                    j += 1;
                }
            } else if j + 1 < b.len() && b[j] == b'.' && !is_ident(b[j + 1]) && b[j + 1] != b'.' {
                // `1.` style
                is_float = true;
                j += 1;
            }
            // exponent
            if j < b.len() && (b[j] == b'e' || b[j] == b'E') {
                let mut k = j + 1;
                if k < b.len() && (b[k] == b'+' || b[k] == b'-') {
                    k += 1;
                }
                if k < b.len() && b[k].is_ascii_digit() {
                    is_float = true;
                    digits.push('e');
                    digits.push_str(std::str::from_utf8(&b[j + 1..k]).unwrap_or(""));
                    while k < b.len() && (b[k].is_ascii_digit() || b[k] == b'_') {
                        if b[k] != b'_' {
                            digits.push(b[k] as char);
                        }
                        k += 1;
                    }
                    j = k;
                }
            }
        }
        // type suffix
        let mut suffix = String::new();
        let mut k = j;
        while k < b.len() && is_ident(b[k]) {
            suffix.push(b[k] as char);
            k += 1;
        }
        let suffix_f = suffix == "f32" || suffix == "f64";
        j = k;
        if !digits.is_empty() {
            if is_float || suffix_f {
                if let Ok(f) = digits.parse::<f64>() {
                    d.floats.push(f);
                }
            } else if let Ok(v) = u128::from_str_radix(&digits, radix) {
                if v <= i128::MAX as u128 {
                    d.ints.push(v as i128);
                    d.floats.push(v as f64);
                }
            }
        }
        i = j.max(i + 1);
    }
}

/// Harvest every `*.rs` file below `<root>/<crate>/src` for each named crate.
pub fn harvest(root: &str, crates: &[&str]) -> Dict {
    let mut d = Dict::default();
    for c in crates {
        let mut files = Vec::new();
        rs_files(&Path::new(root).join(c).join("src"), &mut files);
        for f in files {
            if let Ok(t) = std::fs::read_to_string(&f) {
                scan(&t, &mut d);
                d.files += 1;
            }
        }
    }
    d.ints.sort_unstable();
    d.ints.dedup();
    d.floats.sort_by(|a, b| a.partial_cmp(b).unwrap_or(std::cmp::Ordering::Equal));
    d.floats.dedup();
    d
}

impl Dict {
    /// Raw values of an integer format `[min, max]` of `bits` bits derived from the integer
    /// literals: the literal, its negation, its neighbours, and the literal re-based by half and
    /// by the whole span of the format (so a literal written for the unsigned twin of a signed
    /// format, or the other way round, also lands in range).
    pub fn ints_for(&self, min: i128, max: i128, bits: u32) -> Vec<i128> {
        let half = 1i128 << (bits - 1);
        let span = 1i128 << bits;
        let mut v = Vec::new();
        for &l in &self.ints {
            for base in [l, -l, l - half, l + half, l - span, half - l, span - l] {
                for d in [-2i128, -1, 0, 1, 2] {
                    let x = base + d;
                    if x >= min && x <= max {
                        v.push(x);
                    }
                }
            }
        }
        v.sort_unstable();
        v.dedup();
        v
    }

    /// Float inputs derived from the literals: each literal, its negation, their immediate
    /// floating-point neighbours (f64 and f32 grids), and each literal scaled into [-1, 1] by the
    /// powers of two that the sample formats use.
    pub fn floats_all(&self) -> Vec<f64> {
        let mut v = Vec::new();
        for &l in &self.floats {
            if !l.is_finite() {
                continue;
            }
            let mut bases = vec![l, -l];
            for k in [7u32, 15, 23, 31, 47, 63, 8, 16, 24, 32, 48, 64] {
                let s = l / (2.0f64).powi(k as i32);
                if s.abs() <= 2.0 && s != 0.0 {
                    bases.push(s);
                    bases.push(-s);
                    bases.push(s - 1.0);
                    bases.push(1.0 - s);
                }
            }
            for b in bases {
                v.push(b);
                v.push(f64::from_bits(b.to_bits().wrapping_add(1)));
                v.push(f64::from_bits(b.to_bits().wrapping_sub(1)));
                let f = b as f32;
                v.push(f32::from_bits(f.to_bits().wrapping_add(1)) as f64);
                v.push(f32::from_bits(f.to_bits().wrapping_sub(1)) as f64);
            }
        }
        v.retain(|x| x.is_finite());
        v.sort_by(|a, b| a.partial_cmp(b).unwrap());
        v.dedup();
        v
    }
}

#[cfg(test)]
mod tests {
    use super::*;
    #[test]
    fn scans_literals() {
        let mut d = Dict::default();
        scan("if x == 9_223_372_063_854_775_808u64 { 0x7fff_ffff } else { 1.5e3 + 2.0f32 + self.0 as f64 * 0b101 + a1 + 1..3 }", &mut d);
        assert!(d.ints.contains(&9_223_372_063_854_775_808));
        assert!(d.ints.contains(&0x7fff_ffff));
        assert!(d.ints.contains(&5));
        assert!(d.ints.contains(&3));
        assert!(d.floats.contains(&1500.0));
        assert!(d.floats.contains(&2.0));
        assert!(!d.ints.contains(&10)); // a1 is an identifier
    }
}
