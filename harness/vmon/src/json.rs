//! Minimal JSON value + serializer (no external crates).
use std::fmt::Write;

#[derive(Clone, Debug)]
pub enum J {
    Null,
    Bool(bool),
    Int(i128),
    Float(f64),
    Str(String),
    Arr(Vec<J>),
    Obj(Vec<(String, J)>),
}

impl J {
    pub fn obj() -> J {
        J::Obj(Vec::new())
    }
    pub fn s(s: impl Into<String>) -> J {
        J::Str(s.into())
    }
    pub fn i(v: impl Into<i128>) -> J {
        J::Int(v.into())
    }
    pub fn u(v: u64) -> J {
        J::Int(v as i128)
    }
    pub fn f(v: f64) -> J {
        J::Float(v)
    }
    pub fn set(mut self, k: &str, v: J) -> J {
        if let J::Obj(ref mut kv) = self {
            if let Some(e) = kv.iter_mut().find(|(kk, _)| kk == k) {
                e.1 = v;
            } else {
                kv.push((k.to_string(), v));
            }
        }
        self
    }
    pub fn put(&mut self, k: &str, v: J) {
        if let J::Obj(ref mut kv) = self {
            if let Some(e) = kv.iter_mut().find(|(kk, _)| kk == k) {
                e.1 = v;
            } else {
                kv.push((k.to_string(), v));
            }
        }
    }
    pub fn to_string(&self) -> String {
        let mut s = String::new();
        self.write(&mut s);
        s
    }
    fn write(&self, out: &mut String) {
        match self {
            J::Null => out.push_str("null"),
            J::Bool(b) => out.push_str(if *b { "true" } else { "false" }),
            J::Int(i) => {
                let _ = write!(out, "{}", i);
            }
            J::Float(f) => {
                if f.is_finite() {
                    let _ = write!(out, "{:e}", f);
                } else {
                    // JSON has no inf/nan: emit as string
                    let _ = write!(out, "\"{}\"", f);
                }
            }
            J::Str(s) => write_str(out, s),
            J::Arr(a) => {
                out.push('[');
                for (i, v) in a.iter().enumerate() {
                    if i > 0 {
                        out.push(',');
                    }
                    v.write(out);
                }
                out.push(']');
            }
            J::Obj(kv) => {
                out.push('{');
                for (i, (k, v)) in kv.iter().enumerate() {
                    if i > 0 {
                        out.push(',');
                    }
                    write_str(out, k);
                    out.push(':');
                    v.write(out);
                }
                out.push('}');
            }
        }
    }
}

fn write_str(out: &mut String, s: &str) {
    out.push('"');
    for c in s.chars() {
        match c {
            '"' => out.push_str("\\\""),
            '\\' => out.push_str("\\\\"),
            '\n' => out.push_str("\\n"),
            '\r' => out.push_str("\\r"),
            '\t' => out.push_str("\\t"),
            c if (c as u32) < 0x20 => {
                let _ = write!(out, "\\u{:04x}", c as u32);
            }
            c => out.push(c),
        }
    }
    out.push('"');
}

impl From<&str> for J {
    fn from(s: &str) -> J {
        J::Str(s.to_string())
    }
}
impl From<String> for J {
    fn from(s: String) -> J {
        J::Str(s)
    }
}
impl From<u64> for J {
    fn from(v: u64) -> J {
        J::Int(v as i128)
    }
}
impl From<usize> for J {
    fn from(v: usize) -> J {
        J::Int(v as i128)
    }
}
impl From<i64> for J {
    fn from(v: i64) -> J {
        J::Int(v as i128)
    }
}
impl From<bool> for J {
    fn from(v: bool) -> J {
        J::Bool(v)
    }
}
impl From<f64> for J {
    fn from(v: f64) -> J {
        J::Float(v)
    }
}
